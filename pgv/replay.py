"""Native replay of a refuted obligation: runs the *unpatched* real code with real numpy/pandas.

usage: python -m pgv.replay <replay.json> [--json]
Exit 0 = the real code violates the clause on the recorded input (confirmed), 1 = not reproduced.
Each replayer returns {'confirmed': bool, 'observed': ..., 'expected': ...}.
"""
from __future__ import annotations

import importlib
import json
import math
import sys

REPLAYERS = {}


def replayer(kind):
    def deco(f):
        REPLAYERS[kind] = f
        return f
    return deco


def close(a, b, rel=1e-9, abs_=1e-12):
    try:
        return math.isclose(float(a), float(b), rel_tol=rel, abs_tol=abs_)
    except Exception:
        return False


def _num(model, key, default):
    if model and key in model and isinstance(model[key], (int, float)):
        return float(model[key])
    return default


# ---- C01 ------------------------------------------------------------------

def _real_adsorbate(model):
    import pygaps
    M = _num(model, 'M_ads', 28.0)
    rl = _num(model, 'rhobar_l', 0.03)
    rg = _num(model, 'rhobar_g', 0.0002)
    return pygaps.Adsorbate(
        'replay_ads', molar_mass=M, saturation_pressure=_num(model, 'p_sat', 101325.0),
        liquid_density=rl * M, gas_density=rg * M, liquid_molar_density=rl, gas_molar_density=rg), (M, rl, rg)


@replayer('c01.table')
def _table(spec, model):
    import pygaps.units.converter_unit as cu
    from pgv import lift, spec_si as S
    from fractions import Fraction
    si = {'_MOLAR_UNITS': S.U_N, '_MASS_UNITS': S.U_M, '_VOLUME_UNITS': S.U_V, '_PRESSURE_UNITS': S.U_P}
    t = spec['table']
    texts = lift.literal_text_table(cu, t)
    if t == '_TEMPERATURE_UNITS':
        ok = {k: float(v) for k, v in texts.items()} == {'K': -273.15, '°C': 273.15}
        return {'confirmed': not ok, 'observed': texts, 'expected': {'K': -273.15, '°C': 273.15}}
    k = spec['key']
    if k is None:
        return {'confirmed': set(texts) != set(si[t]), 'observed': sorted(texts), 'expected': sorted(si[t])}
    txt = texts[k]
    tol = S.last_digit_tolerance(txt) if any(c in txt for c in '.eE') else Fraction(0)
    val = Fraction(txt)
    ok = abs(val - si[t][k]) < tol if tol else val == si[t][k]
    return {'confirmed': not ok, 'observed': f"{t}[{k!r}] = {txt}", 'expected': f"SI {float(si[t][k])!r} +- {float(tol)!r}"}


@replayer('c01.table_ratio')
def _table_ratio(spec, model):
    """native: convert one unit of u into v with the library's own converter and compare with the exact decimal ratio"""
    import pygaps.units.converter_unit as cu
    from pgv import spec_si as S
    si = {'_MOLAR_UNITS': S.U_N, '_MASS_UNITS': S.U_M, '_VOLUME_UNITS': S.U_V, '_PRESSURE_UNITS': S.U_P}[spec['table']]
    tbl = getattr(cu, spec['table'])
    got = cu.c_unit(tbl, 1.0, spec['u'], spec['v'])
    want = float(si[spec['u']] / si[spec['v']])
    return {'confirmed': abs(got - want) > 1e-12 * abs(want), 'observed': f"1 {spec['u']} = {got!r} {spec['v']}", 'expected': f"{want!r} {spec['v']}"}


@replayer('c01.call')
def _c01_call(spec, model):
    import pygaps.units.converter_mode as cm
    import pygaps.units.converter_unit as cu
    from pygaps.utilities.exceptions import ParameterError
    from pgv import spec_si as S
    fn = spec['func']
    v = _num(model, 'v', 1.25)
    kw = dict(spec['kwargs'])
    ads, (M, rl, rg) = _real_adsorbate(model)
    a = S.Ads(_num(model, 'p_sat', 101325.0), M, rl, rg)
    m = S.Mat(_num(model, 'rho_mat', 2.0), _num(model, 'M_mat', 60.0))
    try:
        if fn == 'c_pressure':
            res = cm.c_pressure(v, adsorbate=ads, temp=spec.get('temp'), **kw)
        elif fn == 'c_loading':
            res = cm.c_loading(v, adsorbate=ads, temp=spec.get('temp'), **kw)
        elif fn == 'c_material':
            import pygaps
            mat = pygaps.Material('replay_mat', density=m.rho, molar_mass=m.M)
            res = cm.c_material(v, material=mat, **kw)
        elif fn == 'c_temperature':
            res = cm.c_temperature(v, **kw)
        elif fn == 'c_unit':
            res = cu.c_unit(getattr(cu, spec['table']), v, kw['unit_from'], kw['unit_to'], kw['sign'])
        out = ('return', res)
    except ParameterError as exc:
        out = ('ParameterError', str(exc)[:100])
    except Exception as exc:
        out = (type(exc).__name__, str(exc)[:100])
    if spec['must_refuse']:
        return {'confirmed': out[0] != 'ParameterError', 'observed': out, 'expected': 'ParameterError'}
    if out[0] != 'return':
        return {'confirmed': True, 'observed': out, 'expected': 'a converted value'}
    # numeric comparison against the SI spec (tables of the code are rounded: rel 2e-4)
    if fn == 'c_pressure':
        exp_c, got_c = S.canon_p(v, kw['mode_from'], kw['unit_from'], a), S.canon_p(res, kw['mode_to'], kw['unit_to'], a)
    elif fn == 'c_loading':
        mb, mu = kw.get('basis_material'), kw.get('unit_material')
        exp_c = S.canon_amount(v, kw['basis_from'], kw['unit_from'], mb, mu, a)
        got_c = S.canon_amount(res, kw['basis_to'], kw['unit_to'], mb, mu, a)
    elif fn == 'c_material':
        exp_c = v / S.gram_s(kw['basis_from'], kw['unit_from'], m)
        got_c = res / S.gram_s(kw['basis_to'], kw['unit_to'], m)
    elif fn == 'c_temperature':
        from pgv.checks.c01 import T_OK
        exp_c, got_c = S.kelvin(v, T_OK[kw['unit_from']]), S.kelvin(res, T_OK[kw['unit_to']])
    else:
        tbl = getattr(cu, spec['table'])
        exp_c, got_c = v * (tbl[kw['unit_from']] / tbl[kw['unit_to']]) ** kw['sign'], res
    return {'confirmed': not close(exp_c, got_c, rel=2e-4), 'observed': float(got_c), 'expected': float(exp_c),
            'note': 'canonical SI quantity after vs before the conversion'}


# ---- Adsorbate getters -------------------------------------------------------

@replayer('getter.call')
def _getter_call(spec, model):
    import pygaps
    from pygaps.utilities.exceptions import CalculationError, ParameterError
    from pgv import spec_si as S
    import CoolProp.CoolProp as CPP
    g = spec['getter']
    T = 77.0
    fluid = 'nitrogen'
    key = {'pressure_saturation': 'saturation_pressure', 'enthalpy_vaporisation': 'enthalpy_liquefaction'}.get(g, g)
    uval = 1234.5
    props = {}
    if spec['has_backend']:
        props['backend_name'] = fluid
    if spec['has_user']:
        props[key] = uval
    ads = pygaps.Adsorbate('replay', **props)
    takes_T = g not in ('molar_mass', 'p_triple', 't_triple', 'p_critical', 't_critical')
    kwargs = {'calculate': spec['calculate']}
    is_psat = key == 'saturation_pressure'
    if is_psat:
        kwargs['unit'] = spec['unit']
    try:
        res = getattr(ads, g)(*((T,) if takes_T else ()), **kwargs)
        out = ('return', res)
    except CalculationError as exc:
        out = ('CalculationError', str(exc)[:80])
    except ParameterError as exc:
        out = ('ParameterError', str(exc)[:80])
    except Exception as exc:
        out = (type(exc).__name__, str(exc)[:80])
    unit = spec.get('unit')
    bad_unit = is_psat and unit is not None and unit not in S.U_P
    if bad_unit:
        return {'confirmed': out[0] == 'return', 'observed': out, 'expected': 'a pyGAPS error for the unknown unit'}
    scale = float(S.U_P[unit]) if (is_psat and unit) else 1.0
    si = {
        'molar_mass': lambda: CPP.PropsSI('M', fluid) * 1000,
        'p_triple': lambda: CPP.PropsSI('PTRIPLE', fluid), 't_triple': lambda: CPP.PropsSI('TTRIPLE', fluid),
        'p_critical': lambda: CPP.PropsSI('PCRIT', fluid), 't_critical': lambda: CPP.PropsSI('TCRIT', fluid),
        'surface_tension': lambda: CPP.PropsSI('I', 'T', T, 'Q', 0, fluid) * 1000,
        'liquid_density': lambda: CPP.PropsSI('D', 'T', T, 'Q', 0, fluid) / 1000,
        'liquid_molar_density': lambda: CPP.PropsSI('DMOLAR', 'T', T, 'Q', 0, fluid) / 1e6,
        'gas_density': lambda: CPP.PropsSI('D', 'T', T, 'Q', 1, fluid) / 1000,
        'gas_molar_density': lambda: CPP.PropsSI('DMOLAR', 'T', T, 'Q', 1, fluid) / 1e6,
        'enthalpy_liquefaction': lambda: (CPP.PropsSI('HMOLAR', 'T', T, 'Q', 1, fluid) - CPP.PropsSI('HMOLAR', 'T', T, 'Q', 0, fluid)) / 1000,
        'saturation_pressure': lambda: CPP.PropsSI('P', 'T', T, 'Q', 0, fluid),
    }
    uscale = 1e5 if key in ('p_triple', 'p_critical') else 1.0
    if spec['calculate'] and spec['has_backend']:
        exp = si[key]() / scale
        return {'confirmed': out[0] != 'return' or not close(out[1], exp, rel=1e-6), 'observed': out, 'expected': exp}
    if spec['has_user']:
        exp = uval * uscale / scale
        return {'confirmed': out[0] != 'return' or not close(out[1], exp, rel=1e-9), 'observed': out, 'expected': exp}
    return {'confirmed': out[0] != 'CalculationError', 'observed': out, 'expected': 'CalculationError'}


@replayer('getter.sequence')
def _getter_seq(spec, model):
    import pygaps
    a1 = pygaps.Adsorbate('r1', backend_name='nitrogen')
    a2 = pygaps.Adsorbate('r2', backend_name='nitrogen')
    bad = []
    # same and different temperatures, with and without an intervening call (the symbolic paths split on T1 == T2)
    for (ta, tb, tc) in ((70.0, 90.0, 90.0), (90.0, 90.0, 90.0), (90.0, 70.0, 90.0), (90.0, 100.0, 90.0)):
        a1 = pygaps.Adsorbate('r1', backend_name='nitrogen')
        a2 = pygaps.Adsorbate('r2', backend_name='nitrogen')
        try:
            if spec.get('third'):
                getattr(a1, spec['g2'])(ta)
            getattr(a1, spec['g1'])(tb)
            r_hist = getattr(a1, spec['g2'])(tc)
            r_fresh = getattr(a2, spec['g2'])(tc)
        except Exception as exc:
            bad.append({'temperatures': (ta, tb, tc), 'error': f"{type(exc).__name__}"})
            continue
        if not close(r_hist, r_fresh):
            bad.append({'calls': ([spec['g2']] if spec.get('third') else []) + [spec['g1'], spec['g2']], 'temperatures': (ta, tb, tc) if spec.get('third') else (tb, tc),
                        'after_history': r_hist, 'fresh': r_fresh})
    return {'confirmed': bool(bad), 'observed': bad[:2], 'expected': 'the value a fresh adsorbate object gives'}


# ---------------------------------------------------------------------------

def run_file(path):
    with open(path) as f:
        doc = json.load(f)
    spec = doc.get('replay')
    if not spec:
        return {'confirmed': False, 'error': 'no replay recipe (verifier gave no input)', 'obligation': doc.get('obligation')}
    kind = spec['kind']
    if kind not in REPLAYERS:
        mod = kind.split('.')[0]
        try:
            importlib.import_module(f"pgv.replayers.{mod}")
        except ImportError:
            pass
    if kind not in REPLAYERS:
        return {'confirmed': False, 'error': f'no replayer for {kind}'}
    model = (doc.get('solver_output') or {}).get('model') or {}
    try:
        res = REPLAYERS[kind](spec, model)
    except Exception as exc:
        import traceback
        res = {'confirmed': False, 'error': f"{type(exc).__name__}: {exc}", 'trace': traceback.format_exc()[-800:]}
    res['obligation'] = doc.get('obligation')
    return res


def main(argv):
    path = argv[0]
    res = run_file(path)
    if '--json' in argv:
        print(json.dumps(res, default=str))
    else:
        print(f"obligation: {res.get('obligation')}")
        for k, v in res.items():
            if k != 'obligation':
                print(f"  {k}: {v}")
        print("CONFIRMED on the real code" if res.get('confirmed') else "not reproduced natively")
    return 0 if res.get('confirmed') else 1


if __name__ == '__main__':
    # run through the importable module so that replayers register in one registry
    from pgv import replay as _r
    sys.exit(_r.main(sys.argv[1:]))
