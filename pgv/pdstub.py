"""Assumed contract of the pandas API used on an isotherm's data store (stub, never proved).

FrameStub  ~ DataFrame restricted to: df[col], df[col] = v, df.loc[mask], df.loc[:, col], df.columns,
             df.index (get_loc, [i]), df.shape, df.empty, df.copy()
SeriesStub ~ Series restricted to: element-wise arithmetic with scalars, comparisons (-> boolean series),
             between (inclusive), loc[mask], values, empty, max/min/idxmax, iteration
Row selection by a symbolic mask forks per row (SymBool.__bool__); order of rows is preserved.
"""
from __future__ import annotations

import numpy

from pgv import sx


def _arr(vals):
    a = numpy.empty(len(vals), dtype=object)
    for i, v in enumerate(vals):
        a[i] = v
    return a


class IndexStub:
    def __init__(self, labels):
        self.labels = list(labels)

    def get_loc(self, label):
        return self.labels.index(label)

    def __getitem__(self, i):
        return self.labels[i]

    def __len__(self):
        return len(self.labels)

    def __iter__(self):
        return iter(self.labels)


class _SeriesLoc:
    def __init__(self, s):
        self.s = s

    def __getitem__(self, mask):
        keep = _mask_to_list(mask, len(self.s._v))
        return SeriesStub([v for v, k in zip(self.s._v, keep) if k], [i for i, k in zip(self.s._i, keep) if k], self.s.name)


def _mask_to_list(mask, n):
    if isinstance(mask, SeriesStub):
        mask = mask._v
    mask = list(mask)
    if len(mask) != n:
        raise sx.Unsupported("mask length mismatch")
    return [bool(m) for m in mask]  # SymBool -> fork


class SeriesStub:
    def __init__(self, values, index=None, name=None):
        self._v = list(values)
        self._i = list(index) if index is not None else list(range(len(self._v)))
        self.name = name

    # -- views
    @property
    def values(self):
        return _arr(self._v)

    def to_numpy(self):
        return self.values

    @property
    def empty(self):
        return len(self._v) == 0

    @property
    def index(self):
        return IndexStub(self._i)

    @property
    def loc(self):
        return _SeriesLoc(self)

    def __len__(self):
        return len(self._v)

    def __iter__(self):
        return iter(self._v)

    def __array__(self, dtype=None, copy=None):
        return self.values

    def copy(self):
        return SeriesStub(self._v, self._i, self.name)

    # -- element-wise arithmetic
    def _map(self, f):
        return SeriesStub([f(v) for v in self._v], self._i, self.name)

    def _bin(self, o, f):
        if isinstance(o, SeriesStub):
            return SeriesStub([f(a, b) for a, b in zip(self._v, o._v)], self._i, self.name)
        if isinstance(o, numpy.ndarray) and o.ndim == 1:
            return SeriesStub([f(a, b) for a, b in zip(self._v, o)], self._i, self.name)
        return self._map(lambda a: f(a, o))

    def __add__(self, o):
        return self._bin(o, lambda a, b: a + b)

    def __radd__(self, o):
        return self._bin(o, lambda a, b: b + a)

    def __sub__(self, o):
        return self._bin(o, lambda a, b: a - b)

    def __rsub__(self, o):
        return self._bin(o, lambda a, b: b - a)

    def __mul__(self, o):
        return self._bin(o, lambda a, b: a * b)

    def __rmul__(self, o):
        return self._bin(o, lambda a, b: b * a)

    def __truediv__(self, o):
        return self._bin(o, lambda a, b: a / b)

    def __rtruediv__(self, o):
        return self._bin(o, lambda a, b: b / a)

    def __pow__(self, o):
        return self._bin(o, lambda a, b: a ** b)

    def __neg__(self):
        return self._map(lambda a: -a)

    # -- comparisons -> boolean series
    def __eq__(self, o):
        return self._bin(o, lambda a, b: a == b)

    def __ne__(self, o):
        return self._bin(o, lambda a, b: a != b)

    def __lt__(self, o):
        return self._bin(o, lambda a, b: a < b)

    def __le__(self, o):
        return self._bin(o, lambda a, b: a <= b)

    def __gt__(self, o):
        return self._bin(o, lambda a, b: a > b)

    def __ge__(self, o):
        return self._bin(o, lambda a, b: a >= b)

    __hash__ = None

    def between(self, left, right, inclusive='both'):
        def f(a):
            lo = (a >= left) if inclusive in ('both', 'left') else (a > left)
            hi = (a <= right) if inclusive in ('both', 'right') else (a < right)
            if lo is True:
                return hi
            if hi is True:
                return lo
            if lo is False or hi is False:
                return False
            return lo & hi
        return self._map(f)

    # -- reductions (comparisons fork)
    def idxmax(self):
        if not self._v:
            raise ValueError("attempt to get argmax of an empty sequence")
        best = 0
        for k in range(1, len(self._v)):
            if self._v[k] > self._v[best]:
                best = k
        return self._i[best]

    def max(self):
        return self._v[self._i.index(self.idxmax())]

    def min(self):
        best = 0
        for k in range(1, len(self._v)):
            if self._v[k] < self._v[best]:
                best = k
        return self._v[best]

    def equals(self, o):
        return isinstance(o, SeriesStub) and len(o) == len(self) and all(a is b or a == b for a, b in zip(self._v, o._v))


class _FrameLoc:
    def __init__(self, f):
        self.f = f

    def __getitem__(self, key):
        if isinstance(key, tuple):
            rows, col = key
            if rows != slice(None):
                raise sx.Unsupported(f".loc[{key!r}]")
            return self.f[col]
        keep = _mask_to_list(key, self.f.nrows)
        return FrameStub({c: [v for v, k in zip(vals, keep) if k] for c, vals in self.f.cols.items()},
                         [i for i, k in zip(self.f._index, keep) if k])


class FrameStub:
    """column store with positional rows and an arbitrary row-label index"""

    def __init__(self, cols, index=None):
        self.cols = {c: list(v) for c, v in cols.items()}
        n = {len(v) for v in self.cols.values()}
        if len(n) > 1:
            raise ValueError("ragged columns")
        self.nrows = n.pop() if n else 0
        self._index = list(index) if index is not None else list(range(self.nrows))
        self.writes = []

    def __getitem__(self, key):
        if not isinstance(key, str):
            raise sx.Unsupported(f"FrameStub[{key!r}]")
        return SeriesStub(self.cols[key], self._index, key)

    def __setitem__(self, key, value):
        if isinstance(value, SeriesStub):
            vals = list(value._v)
        elif isinstance(value, (list, numpy.ndarray)):
            vals = list(value)
        else:
            vals = [value] * self.nrows
        if len(vals) != self.nrows:
            raise ValueError("Length of values does not match length of index")
        self.cols[key] = vals
        self.writes.append(key)

    @property
    def columns(self):
        return list(self.cols)

    @property
    def index(self):
        return IndexStub(self._index)

    @property
    def shape(self):
        return (self.nrows, len(self.cols))

    @property
    def empty(self):
        return self.nrows == 0

    @property
    def loc(self):
        return _FrameLoc(self)

    def __len__(self):
        return self.nrows

    def copy(self):
        return FrameStub(self.cols, self._index)
