"""Process-pool sharding of independent obligation blocks (spawned workers; 16 cores).

Workers are spawned, not forked: pygaps pulls in libraries that start threads, and forking a
threaded parent deadlocked in the first version."""
from __future__ import annotations

import multiprocessing as mp
import os
import traceback


def _run(args):
    func, block = args
    try:
        return ('ok', func(block))
    except BaseException as exc:  # noqa
        return ('crash', f"{type(exc).__name__}: {exc}\n{traceback.format_exc()[-1500:]}")


def pmap(func, blocks, nproc=None):
    """func(block) -> list of obligation dicts.  Returns (all_obligations, crashes)."""
    nproc = nproc or int(os.environ.get('PGV_NPROC', '0')) or min(16, os.cpu_count() or 4)
    blocks = list(blocks)
    out, crashes = [], []
    if nproc <= 1 or len(blocks) <= 1:
        res = [_run((func, b)) for b in blocks]
    else:
        ctx = mp.get_context('spawn')
        with ctx.Pool(min(nproc, len(blocks))) as pool:
            res = pool.map(_run, [(func, b) for b in blocks], chunksize=1)
    for kind, val in res:
        if kind == 'ok':
            out.extend(val)
        else:
            crashes.append(val)
    return out, crashes


def chunks(seq, n):
    seq = list(seq)
    k = max(1, (len(seq) + n - 1) // n)
    return [seq[i:i + k] for i in range(0, len(seq), k)]
