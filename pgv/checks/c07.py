"""C07 -- CSV, Excel and AIF round trips preserve the isotherm  (bounded; contracts cannot see inside gemmi / xlrd / pandas).

Discharged by exhaustive evaluation over small finite domains (not by a solver):
  * codec: cast_string(_to_string(v)) == v for v in the text formats' value domain (ints, floats, booleans, plain text over a
    small alphabet up to length 3 that is not itself the spelling of a number / boolean / none / list);
  * static: every top-level field written by isotherm_to_csv is read back by isotherm_from_csv (section markers, material
    properties prefix, model section keys).
Everything else -- the real round trips of the three formats x three classes -- is a bounded stand-in.
"""
from __future__ import annotations

import ast
import inspect
import itertools

from pgv import par
from pgv.util import static_ob

P = 'C07'


def codec_block(_b):
    from pygaps.utilities.string_utilities import _to_string, cast_string
    obs = []
    bad = []
    n = 0
    ints = list(range(-30, 31)) + [10 ** 6, 10 ** 12, -10 ** 9]
    floats = [0.5, -0.5, 1e-7, 1.5e22, 3.14159265358979, 1 / 3, -2.5e-3, 100.0, 1e5]
    for v in ints + floats:
        n += 1
        r = cast_string(_to_string(v))
        if not (isinstance(r, (int, float)) and not isinstance(r, bool) and r == v):
            bad.append((v, r))
    obs.append(static_ob(f"{P}/string_utilities.cast_string+_to_string/codec.numbers_round_trip_by_value/enumerated", not bad, f"{n} numbers; failures {bad[:4]}",
                         backend='eval', replay={'kind': 'c07.codec'}))
    bad = [(v, cast_string(_to_string(v))) for v in (True, False) if cast_string(_to_string(v)) is not v]
    obs.append(static_ob(f"{P}/string_utilities.cast_string+_to_string/codec.booleans_round_trip/enumerated", not bad, str(bad), backend='eval', replay={'kind': 'c07.codec'}))
    alphabet = ['a', 'B', 'e', 'n', ' ', '-', '_', '.', '1', 'é']
    bad, n = [], 0
    for L in (1, 2, 3):
        for tup in itertools.product(alphabet, repeat=L):
            s = ''.join(tup)
            if s != s.strip() or not s:
                continue  # leading/trailing blanks are outside the domain of a line-oriented text format
            low = s.lower()
            looks_special = low in ('true', 'false', 'none', 'nan', 'inf', '-inf') or (s.startswith('[') and s.endswith(']'))
            try:
                float(s)
                looks_special = True
            except ValueError:
                pass
            if looks_special or s.isnumeric():
                continue
            n += 1
            r = cast_string(_to_string(s))
            if r != s or not isinstance(r, str):
                bad.append((s, r))
    obs.append(static_ob(f"{P}/string_utilities.cast_string+_to_string/codec.plain_text_round_trip/alphabet10_len3", not bad, f"{n} strings; failures {bad[:4]}",
                         backend='eval', replay={'kind': 'c07.codec'}))
    bad = []
    for v in ([1, 2, 3], [0.5, 1.5]):
        r = cast_string(_to_string(v))
        if list(r) != list(v):
            bad.append((v, r))
    obs.append(static_ob(f"{P}/string_utilities.cast_string+_to_string/codec.numeric_lists_round_trip/enumerated", not bad, str(bad), backend='eval', replay={'kind': 'c07.codec'}))
    return obs


def static_block(_b):
    import pygaps.parsing.csv as C
    obs = []
    wsrc, rsrc = inspect.getsource(C.isotherm_to_csv), inspect.getsource(C.isotherm_from_csv)
    # section markers written are exactly the ones the reader switches on
    written = [m for m in ('data:[', 'model:[') if m in wsrc]
    ok = all(f"startswith('{m}')" in rsrc for m in written) and len(written) == 2
    obs.append(static_ob(f"{P}/parsing.csv.isotherm_from_csv/fields.section_markers_written_are_the_markers_read/static", ok, str(written), backend='ast',
                         replay={'kind': 'c07.format', 'fmt': 'csv'}))
    ok = "_material_" in wsrc and "_material_" in rsrc
    obs.append(static_ob(f"{P}/parsing.csv.isotherm_from_csv/fields.material_properties_prefix_written_and_read/static", ok, '', backend='ast'))
    # the model section is read positionally: name, rmse, pressure range, loading range, then one line per parameter --
    # the writer must emit them in that order
    order = [wsrc.index(k) for k in ("'name'", "'rmse'", "'pressure range'", "'loading range'", 'isotherm.model.params')]
    obs.append(static_ob(f"{P}/parsing.csv.isotherm_to_csv/fields.model_section_written_in_the_order_it_is_read/static", order == sorted(order), str(order), backend='ast'))
    return obs


def _dispatch(job):
    return codec_block(None) if job[0] == 'codec' else static_block(None)


def run(rep):
    rep.level = 'other'
    rep.fn('pygaps.utilities.string_utilities._to_string / cast_string / _is_none / _is_float / _is_bool / _from_bool / _is_list / _from_list',
           'pygaps.parsing.csv.isotherm_to_csv / isotherm_from_csv', 'pygaps.parsing.excel.isotherm_to_xl / isotherm_from_xl',
           'pygaps.parsing.aif.isotherm_to_aif / isotherm_from_aif')
    rep.assume('contracts cannot see inside gemmi, xlwt/xlrd and pandas.read_csv: the format round trips are decided only up to the bound',
               'value domain of the text formats as in the property quantifier: numbers, booleans, plain text that is not the spelling of a '
               'number / boolean / none / list and has no separator, quote or surrounding blanks')
    rep.trust('CPython 3.12', 'pandas', 'gemmi', 'xlwt/xlrd')
    obs, crashes = par.pmap(_dispatch, [('codec', None), ('static', None)])
    rep.extend(obs)
    if crashes:
        rep.crash = crashes[0]
    from pgv.replayers import c06 as R
    n = 0
    for fmt in ('csv', 'excel', 'aif'):
        for res in R.roundtrips(fmt, rep.seed, thorough=rep.tier == 'thorough'):
            rep.add_bounded(f"{P}/bounded.{fmt}_round_trip/{res['name']}", res['ok'], res['detail'],
                            replay={'kind': 'c06.case', 'fmt': fmt, 'seed': rep.seed, 'name': res['name']})
            n += 1
    for fmt in ('csv', 'excel'):  # (the AIF writer replaces the extension by .aif: a documented convention of that writer)
        for res in R.file_name_cases(fmt):
            rep.add_bounded(f"{P}/bounded.{res['name']}", res['ok'], res['detail'], replay={'kind': 'c06.file_name', 'fmt': fmt, 'name': res['name']})
            n += 1
    for fmt in ('csv', 'excel', 'aif'):
        for res in R.registry_cases(fmt):
            rep.add_bounded(f"{P}/bounded.{res['name']}", res['ok'], res['detail'], replay={'kind': 'c06.registry', 'fmt': fmt, 'name': res['name']})
            n += 1
    rep.extra_cov['explanation'] = (f"codec round trips over enumerated finite domains and static field correspondences are discharged by evaluation; "
                                    f"{n} real CSV/Excel/AIF round trips are a bounded stand-in: this property is decided only up to the bound")
