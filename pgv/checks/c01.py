"""C01 -- unit, mode and basis conversions against the independent SI spec.

Functions under contract: converter_unit.c_unit, converter_mode.c_pressure / c_loading /
c_material / c_temperature (helpers _check_unit/_check_basis inlined), Adsorbate getters
(see adsorbate_getters.py), Material.density / molar_mass.
"""
from __future__ import annotations

import itertools

from pgv import lift, par, spec_si as S, stubs, sx

P = 'C01'
INVALID = [None, '', 'xx']

_STATE = {}


def _prepare():
    """Import the real modules, check + lift tables, lift the functions (once per process)."""
    if _STATE:
        return _STATE
    import pygaps.units.converter_mode as cm
    import pygaps.units.converter_unit as cu
    from pygaps.utilities.exceptions import ParameterError
    texts = {n: lift.literal_text_table(cu, n) for n in
             ('_MOLAR_UNITS', '_MASS_UNITS', '_VOLUME_UNITS', '_PRESSURE_UNITS', '_TEMPERATURE_UNITS')}
    lift.lift_tables(cu)
    fns = {}
    for name in ('c_pressure', 'c_loading', 'c_material', 'c_temperature'):
        fns[name] = lift.lifted_source_function(getattr(cm, name))
    # c_unit is called by the c_* through the converter_mode globals -> install lifted version there
    c_unit = lift.lifted_source_function(cu.c_unit)
    cm.c_unit = c_unit
    fns['c_unit'] = c_unit
    T = S.Tables(cu._PRESSURE_UNITS, cu._MOLAR_UNITS, cu._MASS_UNITS, cu._VOLUME_UNITS)
    _STATE.update(cm=cm, cu=cu, fns=fns, T=T, texts=texts, ParameterError=ParameterError)
    return _STATE


# ---------------------------------------------------------------------------
# (3) tables: every literal equals the SI value to the last digit written
# ---------------------------------------------------------------------------

def table_obligations(rep):
    st = _prepare()
    from fractions import Fraction
    spec = {'_MOLAR_UNITS': S.U_N, '_MASS_UNITS': S.U_M, '_VOLUME_UNITS': S.U_V, '_PRESSURE_UNITS': S.U_P}
    for tname, si in spec.items():
        texts = st['texts'][tname]
        rep.add_eval(f"{P}/converter_unit.{tname}/keys", set(texts) == set(si),
                     detail=f"code keys {sorted(texts)} vs spec {sorted(si)}",
                     replay={'kind': 'c01.table', 'table': tname, 'key': None})
        for k, txt in texts.items():
            if k not in si:
                continue
            try:
                val = Fraction(txt)
            except ValueError:
                val = Fraction(repr(float(eval(txt))))  # e.g. 1e3 is fine; expressions: evaluate
            tol = S.last_digit_tolerance(txt) if any(c in txt for c in '.eE') else Fraction(0)
            # literal may be rounded either way: |literal - SI| < one unit in the last place written
            ok = abs(val - si[k]) < tol if tol else val == si[k]
            rep.add_eval(f"{P}/converter_unit.{tname}/si.last_digit/{k}", ok,
                         detail=f"literal {txt} vs SI {float(si[k])!r} (tolerance {float(tol)!r})",
                         replay={'kind': 'c01.table', 'table': tname, 'key': k})
    # units of one table that are decimal multiples (or aliases) of one another by definition -- mmol / mol, cm3(STP) / L(STP),
    # Pa / kPa / bar, mg / g / kg, cm3 / mL / L -- stand in *exactly* that ratio in the code table too: rounding each literal
    # separately to its own last digit is not enough for "1 L(STP) is 1000 cm3(STP)"
    def _pow10(r):
        if r <= 0:
            return False
        while r.denominator == 1 and r.numerator % 10 == 0 and r != 0:
            r = r / 10
        while r.numerator == 1 and r.denominator % 10 == 0:
            r = r * 10
        return r == 1
    for tname, si in spec.items():
        texts = st['texts'][tname]
        vals = {}
        for k, txt in texts.items():
            try:
                vals[k] = Fraction(txt)
            except ValueError:
                vals[k] = Fraction(repr(float(eval(txt))))
        keys = [k for k in texts if k in si]
        for i, u in enumerate(keys):
            for v in keys[i + 1:]:
                r = si[u] / si[v]
                if _pow10(r):
                    ok = vals[v] != 0 and vals[u] / vals[v] == r
                    rep.add_eval(f"{P}/converter_unit.{tname}/si.exact_decimal_ratio/{u}:{v}", ok,
                                 detail=f"literals {texts[u]} / {texts[v]} = {float(vals[u] / vals[v]) if vals[v] else 'inf'!r}, by definition {float(r)!r}",
                                 replay={'kind': 'c01.table_ratio', 'table': tname, 'u': u, 'v': v})
    # temperature table: offsets +-273.15
    tt = st['texts']['_TEMPERATURE_UNITS']
    rep.add_eval(f"{P}/converter_unit._TEMPERATURE_UNITS/si.offsets",
                 {k: Fraction(v) for k, v in tt.items()} == {'K': Fraction('-273.15'), '°C': Fraction('273.15')},
                 detail=str(tt), replay={'kind': 'c01.table', 'table': '_TEMPERATURE_UNITS', 'key': None})


# ---------------------------------------------------------------------------
# generic runner for one configuration of one function
# ---------------------------------------------------------------------------

def _run_config(fname, cfg_id, call, must_refuse, ensures, replay, arr_len=0):
    """call(eng) -> result of the real function; ensures(eng, result) -> list[(clause, SymBool)].
    Returns obligation dicts."""
    st = _prepare()
    PE = st['ParameterError']
    eng = sx.Engine(timeout_ms=20000, max_paths=64)
    obs = []
    npaths = 0

    def run():
        try:
            r = call(eng)
            out = ('return', r)
        except PE as exc:
            out = ('ParameterError', str(exc))
        except sx.Unsupported:
            raise
        except Exception as exc:  # any other exception kind
            out = ('other:' + type(exc).__name__, str(exc))
        base = f"{P}/{fname}"
        if must_refuse:
            eng.prove(f"{base}/raises.ParameterError/{cfg_id}", out[0] == 'ParameterError',
                      extra={'replay': replay, 'observed': out[0]})
        else:
            eng.prove(f"{base}/ensures.returns/{cfg_id}", out[0] == 'return',
                      extra={'replay': replay, 'observed': out[0] + (': ' + str(out[1])[:80] if out[0] != 'return' else '')})
            if out[0] == 'return':
                for clause, cond in ensures(eng, out[1]):
                    eng.prove(f"{base}/{clause}/{cfg_id}", cond, extra={'replay': replay})
        return out[0]

    for path in eng.explore(run):
        npaths += 1
        if path.outcome[0] == 'unsupported':
            obs.append({'name': f"{P}/{fname}/sx.supported/{cfg_id}/p{path.idx}", 'verdict': 'unsupported', 'backend': 'sx',
                        'time': 0.0, 'model': None, 'detail': path.outcome[1], 'pc': path.pc, 'extra': {}})
        for o in path.obligations:
            d = o.to_dict()
            d['name'] = f"{d['name']}/p{path.idx}"
            obs.append(d)
    if npaths == 0:
        obs.append({'name': f"{P}/{fname}/cover/{cfg_id}", 'verdict': 'unknown', 'backend': 'sx', 'time': 0.0,
                    'model': None, 'detail': 'no feasible path (vacuous preconditions?)', 'pc': '', 'extra': {}})
    return obs


def _vals(eng, n):
    import numpy
    if n == 0:
        return eng.real('v')
    a = numpy.empty(n, dtype=object)
    for i in range(n):
        a[i] = eng.real(f'v{i}')
    return a


def _elemwise(v, res, f):
    """conjunction over elements: f(v_i, res_i)"""
    import numpy
    if isinstance(v, numpy.ndarray):
        if not isinstance(res, numpy.ndarray) or res.shape != v.shape:
            return False
        return sx.And(*[f(v[i], res[i]) for i in range(len(v))])
    return f(v, res)


# ---------------------------------------------------------------------------
# c_pressure
# ---------------------------------------------------------------------------

def _p_valid(mode, unit):
    return mode in S.PRESSURE_MODES and (mode != 'absolute' or unit in S.U_P)


def pressure_configs(tier):
    reprs = S.pressure_reprs() + [('relative', 'bar'), ('relative%', 'Pa')]
    cfgs = []
    for (mf, uf), (mt, ut) in itertools.product(reprs, reprs):
        cfgs.append((mf, uf, mt, ut, 'T'))
    # invalid arguments: one or two positions replaced
    base = S.pressure_reprs()
    for (mf, uf), (mt, ut) in itertools.product(base, base):
        for bad in INVALID:
            cfgs.append((bad, uf, mt, ut, 'T'))
            cfgs.append((mf, uf, bad, ut, 'T'))
            cfgs.append((mf, bad, mt, ut, 'T'))
            cfgs.append((mf, uf, mt, bad, 'T'))
        # the same unknown (or missing) unit on both sides
        for bad in INVALID:
            cfgs.append((mf, bad, mt, bad, 'T'))
        if (mf == 'absolute') != (mt == 'absolute'):
            cfgs.append((mf, uf, mt, ut, None))
            cfgs.append((mf, uf, mt, ut, 0))
    # unit valid in another table
    cfgs.append(('absolute', 'kg', 'absolute', 'bar', 'T'))
    cfgs.append(('absolute', 'bar', 'relative', 'mol', 'T'))
    cfgs.append(('relative', None, 'absolute', 'cm3', 'T'))
    seen, out = set(), []
    for c in cfgs:
        if c not in seen:
            seen.add(c)
            out.append(c)
    return out


def pressure_block(block):
    st = _prepare()
    f = st['fns']['c_pressure']
    T = st['T']
    obs = []
    for (mf, uf, mt, ut, temp, alen) in block:
        cfg_id = f"{mf}:{uf}→{mt}:{ut}|T={temp}" + (f"|arr{alen}" if alen else '')
        need_T = _p_valid(mf, uf) and _p_valid(mt, ut) and ((mf == 'absolute') != (mt == 'absolute'))
        must_refuse = (not _p_valid(mf, uf)) or (not _p_valid(mt, ut)) or (need_T and temp != 'T')
        replay = {'kind': 'c01.call', 'func': 'c_pressure',
                  'kwargs': {'mode_from': mf, 'mode_to': mt, 'unit_from': uf, 'unit_to': ut},
                  'temp': 77.0 if temp == 'T' else temp, 'must_refuse': must_refuse}
        holder = {}

        def call(eng, mf=mf, uf=uf, mt=mt, ut=ut, temp=temp, alen=alen):
            ads = stubs.AdsorbateStub(stubs.sym_ads(eng), T)
            holder['ads'] = ads
            holder['v'] = _vals(eng, alen)
            holder['T'] = eng.real('T', positive=True) if temp == 'T' else temp
            return f(holder['v'], mf, mt, uf, ut, adsorbate=ads, temp=holder['T'])

        def ensures(eng, res, mf=mf, uf=uf, mt=mt, ut=ut):
            a = holder['ads']._a
            yield ('ensures.canon_p', _elemwise(holder['v'], res, lambda v, r: sx.eq(
                S.canon_p(r, mt, ut, a, T), S.canon_p(v, mf, uf, a, T))))
            temps = [t for (_w, t) in holder['ads'].calls if t is not None]
            yield ('callsite.temperature', all(t is holder['T'] for t in temps))

        obs += _run_config('converter_mode.c_pressure', cfg_id, call, must_refuse, ensures, replay)
    return obs


# ---------------------------------------------------------------------------
# c_loading
# ---------------------------------------------------------------------------

def _l_valid(b, u):
    return b in S.LOADING_BASES and (S.LOADING_BASES[b] is None or u in S.LOADING_BASES[b])


def _m_valid(b, u):
    return b in S.MATERIAL_BASES and u in S.MATERIAL_BASES[b]


def _frac(b):
    return b in ('fraction', 'percent')


def loading_configs(tier):
    reprs = S.loading_reprs()
    mats = S.material_reprs()
    cfgs = []
    for (bf, uf), (bt, ut) in itertools.product(reprs, reprs):
        if _frac(bf) != _frac(bt):
            for (mb, mu) in mats:
                cfgs.append((bf, uf, bt, ut, mb, mu))
            for bad in INVALID:
                cfgs.append((bf, uf, bt, ut, bad, 'g'))
                cfgs.append((bf, uf, bt, ut, 'mass', bad))
            cfgs.append((bf, uf, bt, ut, 'mass', 'cm3'))
        else:
            cfgs.append((bf, uf, bt, ut, None, None))
            if _frac(bf):
                cfgs.append((bf, uf, bt, ut, 'mass', 'g'))
        for bad in INVALID:
            cfgs.append((bad, uf, bt, ut, 'mass', 'g'))
            cfgs.append((bf, uf, bad, ut, 'mass', 'g'))
            cfgs.append((bf, bad, bt, ut, 'mass', 'g'))
            cfgs.append((bf, uf, bt, bad, 'mass', 'g'))
            cfgs.append((bf, bad, bt, bad, 'mass', 'g'))  # the same unknown (or missing) unit on both sides
    cfgs.append(('molar', 'kg', 'mass', 'g', None, None))
    cfgs.append(('mass', 'g', 'molar', 'cm3', None, None))
    seen, out = set(), []
    for c in cfgs:
        if c not in seen:
            seen.add(c)
            out.append(c)
    return out


def loading_block(block):
    st = _prepare()
    f = st['fns']['c_loading']
    T = st['T']
    obs = []
    for (bf, uf, bt, ut, mb, mu, alen) in block:
        cfg_id = f"{bf}:{uf}→{bt}:{ut}|{mb}:{mu}" + (f"|arr{alen}" if alen else '')
        need_mat = _l_valid(bf, uf) and _l_valid(bt, ut) and (_frac(bf) != _frac(bt))
        must_refuse = (not _l_valid(bf, uf)) or (not _l_valid(bt, ut)) or (need_mat and not _m_valid(mb, mu))
        replay = {'kind': 'c01.call', 'func': 'c_loading',
                  'kwargs': {'basis_from': bf, 'basis_to': bt, 'unit_from': uf, 'unit_to': ut,
                             'basis_material': mb, 'unit_material': mu}, 'temp': 77.0, 'must_refuse': must_refuse}
        holder = {}

        def call(eng, bf=bf, uf=uf, bt=bt, ut=ut, mb=mb, mu=mu, alen=alen):
            ads = stubs.AdsorbateStub(stubs.sym_ads(eng), T)
            holder['ads'] = ads
            holder['v'] = _vals(eng, alen)
            holder['T'] = eng.real('T', positive=True)
            return f(holder['v'], bf, bt, uf, ut, adsorbate=ads, temp=holder['T'],
                     basis_material=mb, unit_material=mu)

        def ensures(eng, res, bf=bf, uf=uf, bt=bt, ut=ut, mb=mb, mu=mu):
            a = holder['ads']._a
            mb_, mu_ = (None, None) if (_frac(bf) and _frac(bt)) else (mb, mu)
            yield ('ensures.canon_amount', _elemwise(holder['v'], res, lambda v, r: sx.eq(
                S.canon_amount(r, bt, ut, mb_, mu_, a, T), S.canon_amount(v, bf, uf, mb_, mu_, a, T))))
            temps = [t for (_w, t) in holder['ads'].calls if t is not None]
            yield ('callsite.temperature', all(t is holder['T'] for t in temps))

        obs += _run_config('converter_mode.c_loading', cfg_id, call, must_refuse, ensures, replay)
    return obs


# ---------------------------------------------------------------------------
# c_material
# ---------------------------------------------------------------------------

def material_configs(tier):
    reprs = S.material_reprs()
    cfgs = []
    for (bf, uf), (bt, ut) in itertools.product(reprs, reprs):
        cfgs.append((bf, uf, bt, ut))
        for bad in INVALID + ['fraction']:
            cfgs.append((bad, uf, bt, ut))
            cfgs.append((bf, uf, bad, ut))
        for bad in INVALID:
            cfgs.append((bf, bad, bt, ut))
            cfgs.append((bf, uf, bt, bad))
            cfgs.append((bf, bad, bt, bad))  # the same unknown (or missing) unit on both sides
    cfgs.append(('mass', 'cm3', 'mass', 'g'))
    cfgs.append(('mass', 'g', 'volume', 'kg'))
    seen, out = set(), []
    for c in cfgs:
        if c not in seen:
            seen.add(c)
            out.append(c)
    return out


def material_block(block):
    st = _prepare()
    f = st['fns']['c_material']
    T = st['T']
    obs = []
    for (bf, uf, bt, ut, alen) in block:
        cfg_id = f"{bf}:{uf}→{bt}:{ut}" + (f"|arr{alen}" if alen else '')
        must_refuse = not (_m_valid(bf, uf) and _m_valid(bt, ut))
        replay = {'kind': 'c01.call', 'func': 'c_material',
                  'kwargs': {'basis_from': bf, 'basis_to': bt, 'unit_from': uf, 'unit_to': ut},
                  'must_refuse': must_refuse}
        holder = {}

        def call(eng, bf=bf, uf=uf, bt=bt, ut=ut, alen=alen):
            mat = stubs.MaterialStub(stubs.sym_mat(eng))
            holder['mat'] = mat
            holder['v'] = _vals(eng, alen)
            return f(holder['v'], bf, bt, uf, ut, material=mat)

        def ensures(eng, res, bf=bf, uf=uf, bt=bt, ut=ut):
            m = holder['mat']._m
            # value is "something per material unit": per gram of solid it must not change
            yield ('ensures.per_gram', _elemwise(holder['v'], res, lambda v, r: sx.eq(
                r / S.gram_s(bt, ut, m, T), v / S.gram_s(bf, uf, m, T))))

        obs += _run_config('converter_mode.c_material', cfg_id, call, must_refuse, ensures, replay)
    return obs


# ---------------------------------------------------------------------------
# c_temperature, c_unit
# ---------------------------------------------------------------------------

T_OK = {'K': 'K', '°C': '°C', 'C': '°C', 'c': '°C', 'degC': '°C', 'Celsius': '°C'}
T_BAD = [None, '', 'xx', 'F']


def temperature_block(_block):
    st = _prepare()
    f = st['fns']['c_temperature']
    obs = []
    units = list(T_OK) + T_BAD
    for uf, ut in itertools.product(units, units):
        cfg_id = f"{uf}→{ut}"
        must_refuse = uf in T_BAD or ut in T_BAD
        replay = {'kind': 'c01.call', 'func': 'c_temperature', 'kwargs': {'unit_from': uf, 'unit_to': ut},
                  'must_refuse': must_refuse}
        holder = {}

        def call(eng, uf=uf, ut=ut):
            holder['v'] = eng.real('v')
            return f(holder['v'], uf, ut)

        def ensures(eng, res, uf=uf, ut=ut):
            yield ('ensures.kelvin', sx.eq(S.kelvin(res, T_OK[ut]), S.kelvin(holder['v'], T_OK[uf])))

        obs += _run_config('converter_mode.c_temperature', cfg_id, call, must_refuse, ensures, replay)
    return obs


def unit_block(_block):
    st = _prepare()
    f = st['fns']['c_unit']
    cu = st['cu']
    obs = []
    tables = {'_PRESSURE_UNITS': cu._PRESSURE_UNITS, '_MOLAR_UNITS': cu._MOLAR_UNITS,
              '_MASS_UNITS': cu._MASS_UNITS, '_VOLUME_UNITS': cu._VOLUME_UNITS}
    for tname, tbl in tables.items():
        # unknown units include the other capitalisations of the supported ones: SI prefixes are case-sensitive (mPa is not MPa,
        # Mg not mg), so such a spelling names another unit or none -- it is not in the table the property quantifies over
        supported = list(dict.keys(tbl))
        variants = []
        for k in supported:
            for v in (k.swapcase(), k.upper(), k.lower()):
                if v not in supported and v not in variants:
                    variants.append(v)
        invalid = INVALID + variants[:6]
        keys = supported + invalid
        for a, b in itertools.product(keys, keys):
            if a in variants and b in variants:
                continue
            for sign in (1, -1):
                cfg_id = f"{tname}:{a}→{b}|sign={sign}"
                must_refuse = a in invalid or b in invalid
                replay = {'kind': 'c01.call', 'func': 'c_unit', 'table': tname,
                          'kwargs': {'unit_from': a, 'unit_to': b, 'sign': sign}, 'must_refuse': must_refuse}
                holder = {}

                def call(eng, a=a, b=b, sign=sign, tbl=tbl):
                    holder['v'] = eng.real('v')
                    return f(tbl, holder['v'], a, b, sign)

                def ensures(eng, res, a=a, b=b, sign=sign, tbl=tbl):
                    fac = tbl[a] / tbl[b]
                    yield ('ensures.ratio', sx.eq(res, holder['v'] * (fac if sign == 1 else 1 / fac)))

                obs += _run_config('converter_unit.c_unit', cfg_id, call, must_refuse, ensures, replay)
    return obs


# ---------------------------------------------------------------------------
# lemmas over the spec: every canon is v*k with k>0  => identity / there-and-back / path independence
# ---------------------------------------------------------------------------

def lemma_block(_block):
    obs = []

    def one(fn):
        eng = sx.Engine()
        for path in eng.explore(lambda: fn(eng)):
            for o in path.obligations:
                obs.append(o.to_dict())

    for (m, u) in S.pressure_reprs():
        def f(eng, m=m, u=u):
            ads = stubs.sym_ads(eng)
            v = eng.real('v')
            k = S.canon_p(sx.SymReal(1), m, u, ads)
            eng.prove(f"{P}/spec.canon_p/lemma.linear_positive/{m}:{u}",
                      sx.And(sx.eq(S.canon_p(v, m, u, ads), v * k), k > 0))
        one(f)
    for (lb, lu) in S.loading_reprs():
        for (mb, mu) in S.material_reprs():
            def f(eng, lb=lb, lu=lu, mb=mb, mu=mu):
                ads = stubs.sym_ads(eng)
                mat = stubs.sym_mat(eng)
                v = eng.real('v')
                k = S.canon_l(sx.SymReal(1), lb, lu, mb, mu, ads, mat)
                eng.prove(f"{P}/spec.canon_l/lemma.linear_positive/{lb}:{lu}|{mb}:{mu}",
                          sx.And(sx.eq(S.canon_l(v, lb, lu, mb, mu, ads, mat), v * k), k > 0))
            one(f)

    def generic(eng):
        v = eng.real('v')
        ka, kb, kc = eng.real('ka', positive=True), eng.real('kb', positive=True), eng.real('kc', positive=True)
        F = lambda x, y: x / y  # factor a->b for canon = v*k
        eng.prove(f"{P}/spec/lemma.identity/generic", sx.eq(F(ka, ka), 1))
        eng.prove(f"{P}/spec/lemma.there_and_back/generic", sx.eq(F(ka, kb) * F(kb, ka), 1))
        eng.prove(f"{P}/spec/lemma.path_independence/generic", sx.eq(F(ka, kb) * F(kb, kc), F(ka, kc)))
        eng.prove(f"{P}/spec/lemma.scaling/generic", sx.eq(F(ka, kb) * (kc * v), kc * (F(ka, kb) * v)))
        # canary: a false lemma must be refuted
        c = eng.prove(f"{P}/spec/canary", sx.eq(F(ka, kb) * F(kb, kc), F(kc, ka)))
        eng.obligations.pop()
        if c.verdict != 'refuted':
            raise RuntimeError("canary lemma was not refuted: engine unsound or vacuous")
    one(generic)
    return obs


# ---------------------------------------------------------------------------
# thorough: every triple a->b->c through the real code equals a->c (redundant with lemmas + ensures)
# ---------------------------------------------------------------------------

def triple_block(block):
    st = _prepare()
    T = st['T']
    obs = []
    for (kind, a, b, c) in block:
        eng = sx.Engine(max_paths=16)
        cfg = f"{a}→{b}→{c}"

        def run():
            ads = stubs.AdsorbateStub(stubs.sym_ads(eng), T)
            v = eng.real('v')
            Tm = eng.real('T', positive=True)
            if kind == 'p':
                f = st['fns']['c_pressure']
                g = lambda x, r1, r2: f(x, r1[0], r2[0], r1[1], r2[1], adsorbate=ads, temp=Tm)
            else:
                f = st['fns']['c_material']
                mat = stubs.MaterialStub(stubs.sym_mat(eng))
                g = lambda x, r1, r2: f(x, r1[0], r2[0], r1[1], r2[1], material=mat)
            eng.prove(f"{P}/triples.{kind}/compose/{cfg}", sx.eq(g(g(v, a, b), b, c), g(v, a, c)))

        for path in eng.explore(run):
            for o in path.obligations:
                d = o.to_dict()
                d['name'] += f"/p{path.idx}"
                obs.append(d)
    return obs


# ---------------------------------------------------------------------------

def run(rep):
    tier = rep.tier
    rep.level = 'proof'
    rep.fn('pygaps.units.converter_unit.c_unit', 'pygaps.units.converter_mode.c_pressure',
           'pygaps.units.converter_mode.c_loading', 'pygaps.units.converter_mode.c_material',
           'pygaps.units.converter_mode.c_temperature')
    rep.inlined += ['converter_unit._check_unit', 'converter_mode._check_basis']
    rep.assume('binary64 arithmetic treated as exact real arithmetic; float literals read as the decimals they spell',
               'numpy/pandas arithmetic on arrays is element-wise (object arrays of length 2 are executed)',
               'Adsorbate/Material getters replaced by contract stubs (rho = rhobar*M, all constants > 0); '
               'the real getters are verified against the CoolProp stub separately (adsorbate_getters)',
               'unit magnitudes: the structure of the spec is instantiated with the code tables, which are proved '
               'equal to SI to the last digit written (si.last_digit obligations)')
    rep.trust('CPython 3.12', 'z3 5.1.0', 'pgv.sx operator overloading', 'pgv.lift literal lifting')
    table_obligations(rep)

    jobs = []
    pc = pressure_configs(tier)
    lc = loading_configs(tier)
    mc = material_configs(tier)
    arr_p = [c + (2,) for c in pc if _p_valid(c[0], c[1]) and _p_valid(c[2], c[3]) and c[4] == 'T']
    arr_m = [c + (2,) for c in mc if _m_valid(c[0], c[1]) and _m_valid(c[2], c[3])]
    arr_l = [c + (2,) for c in lc if _l_valid(c[0], c[1]) and _l_valid(c[2], c[3])
             and ((_frac(c[0]) == _frac(c[2])) or _m_valid(c[4], c[5]))]
    if tier == 'quick':
        arr_l = arr_l[::7]
    for blk in par.chunks([c + (0,) for c in pc] + arr_p, 16):
        jobs.append(('p', blk))
    for blk in par.chunks([c + (0,) for c in lc] + arr_l, 64):
        jobs.append(('l', blk))
    for blk in par.chunks([c + (0,) for c in mc] + arr_m, 16):
        jobs.append(('m', blk))
    jobs.append(('t', None))
    jobs.append(('u', None))
    jobs.append(('lemma', None))
    if tier == 'thorough':
        pr = S.pressure_reprs()
        mr = S.material_reprs()
        tr = [('p', a, b, c) for a in pr for b in pr for c in pr] + [('m', a, b, c) for a in mr for b in mr for c in mr]
        for blk in par.chunks(tr, 64):
            jobs.append(('triple', blk))
    obs, crashes = par.pmap(_dispatch, jobs)
    rep.extend(obs)
    if crashes:
        rep.crash = crashes[0]
    from pgv.checks import adsorbate_getters
    adsorbate_getters.run_into(rep, P)
    rep.shape_bounded = {'N': 2, 'what': 'array arguments: object arrays of length 2 (element-wise lifting)',
                         'obligations': sum(1 for o in rep.obs if '|arr' in o['name'])}
    rep.notes.append('exhaustive over configurations (10 pressure, 27 loading x 19 material, 19 material representations '
                     'and invalid arguments in every position), symbolic over values and adsorbate/material constants')


def _dispatch(job):
    kind, blk = job
    return {'p': pressure_block, 'l': loading_block, 'm': material_block, 't': temperature_block,
            'u': unit_block, 'lemma': lemma_block, 'triple': triple_block}[kind](blk)
