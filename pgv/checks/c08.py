"""C08 -- the SQLite store behaves as a keyed collection over any operation history.

Contract level (discharged): the SQL builders produce exactly the statement grammar (exhaustive over column lists
<= 3); per operation the recorded statement sequence obeys: existence check first and refusal when absent, a delete
issues a DELETE for every dependent table with the same key, an upload writes the main row before its property
and data rows, nothing is written after a refusal; retrieval rebuilds the item from exactly {row, properties, data}
(retrieved == stored, deletable through itself); static reads clause (which module state an operation consults).
History quantifier (bounded stand-in): every operation sequence up to a stated length over a small universe on
real database files, compared step by step with a dictionary model (outcome kind, every *_from_db result, raw tables).
"""
from __future__ import annotations

import ast
import inspect
import itertools
import os
import shutil
import tempfile

from pgv import par, sqlfault as SF
from pgv.util import static_ob

P = 'C08'


def builders_block(_b):
    import pygaps.utilities.sqlite_utilities as U
    obs = []
    cols = ['a', 'b_c', 'd1']
    n = 0
    bad = []
    for k in range(1, 4):
        for cs in itertools.permutations(cols, k):
            cs = list(cs)
            n += 1
            if U.build_insert('t', cs) != 'INSERT INTO "t" (' + ', '.join(cs) + ') VALUES (' + ', '.join(':' + c for c in cs) + ')':
                bad.append(('insert', cs))
            if U.build_delete('t', cs) != 'DELETE FROM "t" WHERE ' + ' AND '.join(f"{c} = :{c}" for c in cs):
                bad.append(('delete', cs))
            if U.build_select('t', cs) != 'SELECT ' + ', '.join(cs) + ' FROM "t"':
                bad.append(('select', cs))
            for ws in ([cols[0]], cols[:2]):
                if U.build_select('t', cs, ws) != 'SELECT ' + ', '.join(cs) + ' FROM "t" WHERE ' + ' AND '.join(f"{w} = :{w}" for w in ws):
                    bad.append(('select-where', cs, ws))
                if U.build_update('t', cs, ws) != 'UPDATE "t" SET ' + ', '.join(f"{c} = :{c}" for c in cs) + ' WHERE ' + ' AND '.join(f"{w} = :{w}" for w in ws):
                    bad.append(('update', cs, ws))
    obs.append(static_ob(f"{P}/sqlite_utilities.build_insert+select+update+delete/builders.statement_grammar/exhaustive_upto_3_columns", not bad,
                         f"{n} column lists; mismatches: {bad[:3]}", backend='eval', replay={'kind': 'c08.builders'}))
    # executing the built statements against sqlite gives the keyed-row semantics (one-table sanity of the grammar)
    import sqlite3
    con = sqlite3.connect(':memory:')
    con.execute('CREATE TABLE "t" (a TEXT UNIQUE, b_c TEXT, d1 TEXT)')
    con.execute(U.build_insert('t', ['a', 'b_c']), {'a': 'k', 'b_c': 'v'})
    con.execute(U.build_update('t', ['b_c'], ['a']), {'a': 'k', 'b_c': 'w'})
    got = con.execute(U.build_select('t', ['b_c'], ['a']), {'a': 'k'}).fetchone()
    con.execute(U.build_delete('t', ['a']), {'a': 'k'})
    gone = con.execute(U.build_select('t', ['b_c'], ['a']), {'a': 'k'}).fetchone()
    obs.append(static_ob(f"{P}/sqlite_utilities.builders/builders.insert_update_select_delete_roundtrip/sqlite", got == ('w',) and gone is None, '', backend='eval'))
    return obs


def _kinds(rec):
    """(verb, table) per executed statement"""
    out = []
    for e in rec.events:
        if e[0] in ('execute', 'execute!'):
            sql = e[-1].strip()
            verb = sql.split()[0].upper()
            import re
            m = re.search(r'(?:INTO|FROM|UPDATE)\s+["\'`]?([A-Za-z_]+)', sql, re.I)
            out.append((verb, m.group(1) if m else '?'))
    return out


def sequences_block(_b):
    """statement-sequence contracts of every operation (recorded on real files, fault free)"""
    import pygaps
    import pygaps.parsing.sqlite as S
    from pgv.checks import c09
    pygaps.logger.disabled = True
    obs = []
    real = S.sqlite3
    tmp = tempfile.mkdtemp(prefix='pgv-c08-')
    try:
        tpl = c09.make_template(tmp)
        reg0 = c09._registries()

        def run(setup, op, o):
            c09._restore(reg0)
            db = os.path.join(tmp, 'seq.db')
            shutil.copyfile(tpl, db)
            setup(S, db, o)
            rec = SF.Recorder(tmp)
            S.sqlite3 = SF.Sqlite3Proxy(rec, SF.Plan())
            try:
                try:
                    op(S, db, o)
                    out = 'return'
                except Exception as exc:
                    out = type(exc).__name__
            finally:
                S.sqlite3 = real
                for c in rec.connections:
                    try:
                        c._conn.close()
                    except Exception:
                        pass
            return out, _kinds(rec), db

        sc = {n: (s, f) for n, s, f in c09.scenarios()}
        none = lambda S_, db, o: None
        # uploads: main row first, then dependent rows
        for name, main, deps in (('adsorbate_to_db', 'adsorbates', ['adsorbate_properties']), ('material_to_db', 'materials', ['material_properties']),
                                 ('isotherm_to_db.point', 'isotherms', ['isotherm_properties', 'isotherm_data']),
                                 ('isotherm_to_db.model', 'isotherms', ['isotherm_properties', 'isotherm_data'])):
            o = c09._mk_objects()
            out, ks, _db = run(*sc[name], o)
            ins = [t for (v, t) in ks if v == 'INSERT']
            ok = out == 'return' and main in ins and all(d in ins for d in deps) and all(ins.index(main) < ins.index(d) for d in deps)
            obs.append(static_ob(f"{P}/sqlite.{name.split('.')[0]}/upload.main_row_before_dependent_rows/{name}", ok, f"{out}; inserts {ins}", backend='trace',
                                 replay={'kind': 'c08.history'}))
        # deletes: existence check first, DELETE in every dependent table, dependents before the main row
        for name, main, deps in (('adsorbate_delete_db', 'adsorbates', ['adsorbate_properties']), ('material_delete_db', 'materials', ['material_properties']),
                                 ('isotherm_delete_db', 'isotherms', ['isotherm_properties', 'isotherm_data'])):
            o = c09._mk_objects()
            out, ks, _db = run(*sc[name], o)
            dels = [t for (v, t) in ks if v == 'DELETE']
            ok = out == 'return' and ks and ks[0][0] == 'SELECT' and set(dels) == set([main] + deps) and dels[-1] == main
            obs.append(static_ob(f"{P}/sqlite.{name}/delete.existence_check_then_every_dependent_table_then_main_row/{name}", ok, f"{out}; {ks}", backend='trace',
                                 replay={'kind': 'c08.history'}))
            # absent item: refused, and nothing written
            o = c09._mk_objects()
            out, ks, _db = run(none, sc[name][1], o)
            ok = out == 'ParsingError' and not any(v in ('INSERT', 'DELETE', 'UPDATE') for (v, _t) in ks)
            obs.append(static_ob(f"{P}/sqlite.{name}/delete.absent_item_refused_without_writes/{name}", ok, f"{out}; {ks}", backend='trace',
                                 replay={'kind': 'c08.history'}))
        # duplicates and overwrites of absent items are refused without further writes
        for name in ('adsorbate_to_db', 'material_to_db', 'isotherm_to_db.point'):
            o = c09._mk_objects()
            setup, op = sc[name]

            def twice(S_, db, o_, setup=setup, op=op):
                setup(S_, db, o_)
                op(S_, db, o_)
            out, ks, _db = run(twice, op, o)
            ok = out == 'ParsingError' and sum(1 for (v, _t) in ks if v == 'INSERT') <= 1
            obs.append(static_ob(f"{P}/sqlite.{name.split('.')[0]}/upload.duplicate_refused_after_first_rejected_statement/{name}", ok, f"{out}; {ks}", backend='trace',
                                 replay={'kind': 'c08.history'}))
        for name in ('adsorbate_to_db.overwrite', 'material_to_db.overwrite'):
            o = c09._mk_objects()
            out, ks, _db = run(none, sc[name][1], o)
            ok = out == 'ParsingError' and not any(v in ('INSERT', 'DELETE', 'UPDATE') for (v, _t) in ks)
            obs.append(static_ob(f"{P}/sqlite.{name.split('.')[0]}/upload.overwrite_of_absent_item_refused_without_writes/{name}", ok, f"{out}; {ks}", backend='trace',
                                 replay={'kind': 'c08.history'}))
        # retrieval: retrieved == stored, and the retrieved object deletes the stored one
        for kind in ('point', 'model', 'base'):
            o = c09._mk_objects()
            c09._restore(reg0)
            db = os.path.join(tmp, f'ret_{kind}.db')
            shutil.copyfile(tpl, db)
            S.isotherm_to_db(o[kind], db_path=db, verbose=False)
            got = S.isotherms_from_db(db_path=db, verbose=False)
            ok = len(got) == 1 and got[0] == o[kind] and type(got[0]) is type(o[kind]) and got[0].to_dict() == o[kind].to_dict()
            detail = ''
            if not ok and got:
                a, b = got[0].to_dict(), o[kind].to_dict()
                detail = f"differences: {[k for k in set(a) | set(b) if a.get(k) != b.get(k)]}"
            obs.append(static_ob(f"{P}/sqlite.isotherms_from_db/retrieve.equal_to_stored_isotherm/{kind}", ok, detail, backend='trace', replay={'kind': 'c08.history'}))
            if kind == 'point' and got:
                a_, b_ = got[0].data_raw.reset_index(drop=True), o[kind].data_raw.reset_index(drop=True)
                same_data = sorted(a_.columns) == sorted(b_.columns) and all(
                    [float(x) for x in a_[c]] == [float(x) for x in b_[c]] for c in a_.columns)
                obs.append(static_ob(f"{P}/sqlite.isotherms_from_db/retrieve.every_data_column_and_branch_mark/{kind}", bool(same_data),
                                     f"columns {list(got[0].data_raw.columns)}", backend='trace', replay={'kind': 'c08.history'}))
            try:
                S.isotherm_delete_db(got[0], db_path=db, verbose=False)
                out = 'return'
            except Exception as exc:
                out = type(exc).__name__
            left = S.isotherms_from_db(db_path=db, verbose=False)
            obs.append(static_ob(f"{P}/sqlite.isotherm_delete_db/retrieve.retrieved_isotherm_deletes_the_stored_one/{kind}", out == 'return' and not left, out,
                                 backend='trace', replay={'kind': 'c08.history'}))
        for kind, up, frm in (('ads', S.adsorbate_to_db, S.adsorbates_from_db), ('mat', S.material_to_db, S.materials_from_db)):
            o = c09._mk_objects()
            c09._restore(reg0)
            db = os.path.join(tmp, f'ret_{kind}.db')
            shutil.copyfile(tpl, db)
            up(o[kind], db_path=db, verbose=False)
            got = [x for x in frm(db_path=db, verbose=False) if x.name == o[kind].name]
            want = o[kind].to_dict()
            gd = got[0].to_dict() if got else {}
            if 'alias' in want:
                want['alias'], gd['alias'] = sorted(want['alias']), sorted(gd.get('alias', []))
            obs.append(static_ob(f"{P}/sqlite.{'adsorbates' if kind == 'ads' else 'materials'}_from_db/retrieve.equal_content/{kind}", len(got) == 1 and gd == want,
                                 f"{gd} vs {want}", backend='trace', replay={'kind': 'c08.history'}))
        c09._restore(reg0)
    finally:
        S.sqlite3 = real
        shutil.rmtree(tmp, ignore_errors=True)
    return obs


def static_block(_b):
    """reads clause: the effect of an operation may depend on its arguments and on the target file only"""
    import pygaps.parsing.sqlite as S
    from pgv import framecheck as FC
    an = FC.Analyzer()
    an.add_module(S)
    an.analyze_all()
    obs = []
    for qual, s in sorted(an.summaries.items()):
        fn = qual.split('.')[-1]
        if fn.startswith('_') or an.funcs[qual][2] is not None or fn == 'with_connection':
            continue
        node = an.funcs[qual][0]
        # module-level registries consulted in a *condition* (decide what is written)
        cond_reads = []
        for n in ast.walk(node):
            if isinstance(n, ast.If):
                for m in ast.walk(n.test):
                    if isinstance(m, ast.Name) and m.id in ('ADSORBATE_LIST', 'MATERIAL_LIST'):
                        # deciding *writes to the file* (a nested *_to_db call in the body)
                        if any(isinstance(c, ast.Call) and isinstance(c.func, ast.Name) and c.func.id.endswith('_to_db') for b in n.body for c in ast.walk(b)):
                            cond_reads.append((m.id, n.lineno))
        obs.append(static_ob(f"{P}/sqlite.{fn}/reads.file_effect_independent_of_in_memory_registries/static", not cond_reads,
                             f"registry consulted to decide database writes: {cond_reads}", replay={'kind': 'c08.registry'}))
    return obs


def _dispatch(job):
    kind, arg = job
    return {'builders': builders_block, 'seq': sequences_block, 'static': static_block}[kind](arg)


def run(rep):
    rep.level = 'other'
    rep.fn('pygaps.utilities.sqlite_utilities.build_insert/build_select/build_update/build_delete',
           'pygaps.parsing.sqlite._delete_by_id/_upload_one_all_columns/_get_all_no_id and every public *_to_db / *_from_db / *_delete_db')
    rep.assume('SQL semantics of the four statement shapes and of UNIQUE / NOT NULL / FOREIGN KEY (real sqlite3 library)',
               'statement-sequence contracts are recorded on one representative item per operation (adsorbate with list-valued alias, '
               'material with two properties, point/model/base isotherm with metadata)',
               'the history quantifier is bounded: all sequences up to the stated length over a small universe, compared with a dictionary model')
    rep.trust('CPython 3.12', 'sqlite3 library', 'pgv.sqlfault recorder')
    obs, crashes = par.pmap(_dispatch, [('builders', None), ('seq', None), ('static', None)])
    rep.extend(obs)
    if crashes:
        rep.crash = crashes[0]
    from pgv.replayers import c08 as R
    n = 0
    for res in R.history_cases(rep.seed, thorough=rep.tier == 'thorough'):
        rep.add_bounded(f"{P}/bounded.history/{res['name']}", res['ok'], res['detail'],
                        replay={'kind': 'c08.bulk'} if '|bulk:' in res['name'] else {'kind': 'c08.value'} if 'retrieved_equals_stored' in res['name'] else {'kind': 'c08.positional'} if 'positionally' in res['name'] else {'kind': 'c08.fresh'} if 'fresh_process' in res['name'] else {'kind': 'c08.refused_midway'} if 'refused_after_partial' in res['name'] else {'kind': 'c08.odd_path'} if 'special_characters' in res['name'] else {'kind': 'c08.criteria', 'name': res['name']} if 'retrieval_by_criteria' in res['name'] else {'kind': 'c08.like_named', 'name': res['name']} if 'material_without_properties' in res['name'] else {'kind': 'c08.sequence', 'ops': res.get('ops')})
        n += 1
    rep.extra_cov['explanation'] = (f"builders, per-operation statement sequences, retrieval equality and the static reads clause are discharged "
                                    f"obligations; equivalence with a dictionary model over operation histories is bounded ({n} histories this run) and "
                                    f"never counted as proved")
