"""C16 -- mesopore size distributions conserve volume and follow the Kelvin equation.

The real psd_pygapsdh / psd_bjh / psd_dollimore_heal recurrences run on symbolic volume / pressure arrays
(n <= 5) with the thickness and Kelvin models as arbitrary increasing functions (fresh symbols) and with the
real zero-thickness model; psd_mesoporous is run with a recording isotherm stub for the window and the
cumulative curve; the Kelvin equations are compared with the published form by sympy.
"""
from __future__ import annotations

import itertools
from fractions import Fraction as F

import numpy

from pgv import lift, npproxy, par, stubs, sx
from pgv.util import collect, static_ob

P = 'C16'
R_GAS = F('8.31446261815324')
_ST = {}


def _prep():
    if _ST:
        return _ST
    import pygaps
    pygaps.logger.disabled = True
    import pygaps.characterisation.models_kelvin as MK
    import pygaps.characterisation.models_thickness as MT
    import pygaps.characterisation.psd_meso as PM
    from pygaps.utilities import exceptions as E
    import scipy.constants as sc
    consts = type('constants', (), {'gas_constant': F(repr(sc.gas_constant)), 'R': F(repr(sc.R))})()
    px = npproxy.NumpyProxy()
    for n in ('psd_mesoporous', 'psd_pygapsdh', 'psd_bjh', 'psd_dollimore_heal'):
        setattr(PM, n, lift.lifted_source_function(getattr(PM, n)))
    PM.numpy = px
    PM.logger.disabled = True
    for n in ('kelvin_radius', 'kelvin_radius_kjs', 'get_meniscus_geometry'):
        setattr(MK, n, lift.lifted_source_function(getattr(MK, n)))
    MK._KELVIN_MODELS['Kelvin'] = MK.kelvin_radius
    MK._KELVIN_MODELS['Kelvin-KJS'] = MK.kelvin_radius_kjs
    MK.numpy = px
    MK.constants = consts
    MT.thickness_zero = lift.lifted_source_function(MT.thickness_zero)
    MT._THICKNESS_MODELS['zero thickness'] = MT.thickness_zero
    MT.numpy = px
    _ST.update(PM=PM, MK=MK, MT=MT, E=E, px=px)
    return _ST


def _arr(vals):
    a = numpy.empty(len(vals), dtype=object)
    for i, v in enumerate(vals):
        a[i] = v
    return a


METHODS = [('psd_pygapsdh', 'slit'), ('psd_pygapsdh', 'cylinder'), ('psd_pygapsdh', 'sphere'), ('psd_bjh', 'cylinder'), ('psd_dollimore_heal', 'cylinder')]


def recurrence_block(args):
    method, geom, n, tmode = args
    st = _prep()
    PM, MT = st['PM'], st['MT']
    base = f"{P}/psd_meso.{method}"
    cfg = f"geometry={geom}|n={n}|thickness={tmode}"
    replay = {'kind': 'c16.recurrence', 'method': method, 'geometry': geom, 'n': n, 'thickness': tmode}
    eng = sx.Engine(max_paths=64, div0='assume')

    def run():
        ps = [eng.real(f'p{i}', positive=True) for i in range(n)]
        Vs = [eng.real(f'V{i}', positive=True) for i in range(n)]
        rK = [eng.real(f'rK{i}', positive=True) for i in range(n)]
        for i in range(1, n):
            eng.assume(ps[i] > ps[i - 1])
            eng.assume(Vs[i] >= Vs[i - 1])
            eng.assume(rK[i] > rK[i - 1])  # Kelvin radius increases with pressure
        eng.assume(ps[-1] < 1)
        if tmode == 'zero':
            tmodel = MT.thickness_zero
            ts = [sx.SymReal(0)] * n
        else:
            ts = [eng.real(f't{i}', positive=True) for i in range(n)]
            for i in range(1, n):
                eng.assume(ts[i] > ts[i - 1])
            tmodel = None
        by_p = {id(p): i for i, p in enumerate(ps)}

        def lookup(vals):
            def f(parr):
                return _arr([vals[by_p[id(q)]] for q in parr])
            return f
        res = getattr(PM, method)(_arr(Vs), _arr(ps), geom, tmodel or lookup(ts), lookup(rK))
        x = {'replay': replay}
        w = list(res['pore_widths'])
        vol = list(res['pore_volumes'])
        dist = list(res['pore_distribution'])
        eng.prove(f"{base}/meso.one_value_per_pressure_interval/{cfg}", len(w) == n - 1 and len(vol) == n - 1 and len(dist) == n - 1, extra=x)
        if len(w) != n - 1:
            return
        full = [2 * (rK[i] + ts[i]) for i in range(n)]
        lower = sx.And(*[sx.eq(w[i], full[i]) for i in range(n - 1)])
        upper = sx.And(*[sx.eq(w[i], full[i + 1]) for i in range(n - 1)])
        # widths are twice (Kelvin radius + thickness) at the measured pressures (either end of each interval, consistently)
        eng.prove(f"{base}/meso.widths_are_twice_kelvin_radius_plus_thickness/{cfg}", sx.Or(lower, upper), extra=x)
        eng.prove(f"{base}/meso.widths_increase_with_pressure/{cfg}", sx.And(*[w[i] < w[i + 1] for i in range(n - 2)]) if n > 2 else True, extra=x)
        dw = [full[i + 1] - full[i] for i in range(n - 1)]
        eng.prove(f"{base}/meso.distribution_times_width_increment_is_pore_volume/{cfg}",
                  sx.And(*[sx.eq(dist[i] * dw[i], vol[i]) for i in range(n - 1)]), extra=x)
        if tmode == 'zero':
            eng.prove(f"{base}/meso.zero_thickness_pore_volumes_are_volume_increments/{cfg}",
                      sx.And(*[sx.eq(vol[i], Vs[i + 1] - Vs[i]) for i in range(n - 1)]), extra=x)
            eng.prove(f"{base}/meso.zero_thickness_volumes_sum_to_total_change/{cfg}", sx.eq(sum(vol[1:], vol[0]), Vs[-1] - Vs[0]), extra=x)
            # single condensation step => single peak at that step's Kelvin width
            for k in range(n - 1):
                step_only = sx.And(*[sx.eq(Vs[i + 1], Vs[i]) for i in range(n - 1) if i != k] + [Vs[k + 1] > Vs[k]])
                peak = sx.And(*[sx.eq(dist[i], 0) for i in range(n - 1) if i != k] + [dist[k] > 0])
                eng.prove(f"{base}/meso.single_step_gives_single_peak/{cfg}|step={k}", sx.Implies(step_only, peak), extra=x)

    return collect(eng, run, base, cfg)


class IsoM:
    def __init__(self, eng, tag=''):
        self.eng = eng
        self.temperature = eng.real('T' + tag, positive=True)
        self.calls = []
        outer = self
        self.M, self.rho, self.gamma = eng.real('M' + tag, positive=True), eng.real('rho' + tag, positive=True), eng.real('gamma' + tag, positive=True)

        class A:
            def molar_mass(s):
                return outer.M

            def liquid_density(s, T):
                outer.calls.append(('liquid_density', T))
                return outer.rho

            def surface_tension(s, T):
                outer.calls.append(('surface_tension', T))
                return outer.gamma
        self.adsorbate = A()


def driver_block(args):
    method, n, lim = args
    st = _prep()
    PM, E = st['PM'], st['E']
    base = f"{P}/psd_meso.psd_mesoporous"
    cfg = f"model={method}|n={n}|limits={lim}"
    replay = {'kind': 'c16.driver', 'model': method, 'n': n}
    eng = sx.Engine(max_paths=4000, div0='assume')

    def run():
        from pgv.checks.c14 import _window_ok
        ps = [eng.real(f'p{i}', positive=True) for i in range(n)]
        Vs = [eng.real(f'V{i}', positive=True) for i in range(n)]
        for i in range(1, n):
            eng.assume(ps[i] > ps[i - 1])
            eng.assume(Vs[i] >= Vs[i - 1])
        eng.assume(ps[-1] < 1)
        iso = IsoM(eng)
        rec = {}

        def fake_ordered(isotherm, branch, lunits, punits):
            rec.update(branch=branch, lunits=lunits, punits=punits)
            return _arr(ps), _arr(Vs)
        PM.get_iso_loading_and_pressure_ordered = fake_ordered
        rK = {id(p): eng.real(f'rK{i}', positive=True) for i, p in enumerate(ps)}
        kel = lambda parr, **kw: _arr([rK[id(q)] for q in parr])
        lo = eng.real('lo', positive=True) if lim in ('both', 'lo') else None
        hi = eng.real('hi', positive=True) if lim in ('both', 'hi') else None
        limits = (lo, hi)
        try:
            res = PM.psd_mesoporous(iso, psd_model=method, pore_geometry='cylinder', branch='des', thickness_model='zero thickness',
                                    kelvin_model=kel, p_limits=limits)
            out = 'return'
        except E.CalculationError:
            out = 'CalculationError'
        x = {'replay': replay, 'observed': out}
        inside = [sx.And(*([p > lo] if lo is not None else []) + ([p < hi] if hi is not None else [])) if (lo is not None or hi is not None) else True for p in ps]
        if out == 'CalculationError':
            cnt = sum(((sx.SymBool(sx._b(c))._r() if c is not True else sx.SymReal(1)) for c in inside[1:]),
                      (sx.SymBool(sx._b(inside[0]))._r() if inside[0] is not True else sx.SymReal(1)))
            eng.prove(f"{base}/window.refuses_only_with_fewer_than_three_points/{cfg}", cnt < 3, extra=x)
            return
        mn, mx = (int(v) for v in res['limits'])
        eng.prove(f"{base}/window.points_inside_limits_selected_outside_not/{cfg}", _window_ok(eng, ps, lo, hi, mn, mx), extra=x)
        eng.prove(f"{base}/protocol.liquid_volume_cm3_and_relative_pressure_requested/{cfg}",
                  rec.get('lunits') == {'loading_basis': 'volume_liquid', 'loading_unit': 'cm3'} and rec.get('punits') == {'pressure_mode': 'relative'}
                  and rec.get('branch') == 'des', extra=x)
        eng.prove(f"{base}/protocol.thermodynamic_properties_at_isotherm_temperature/{cfg}", all(c[1] is iso.temperature for c in iso.calls), extra=x)
        cum = list(res['pore_volume_cumulative'])
        vol = list(res['pore_volumes'])
        eng.prove(f"{base}/meso.cumulative_ends_at_volume_at_highest_pressure_used/{cfg}", sx.eq(cum[-1], Vs[mx]), extra=x)
        eng.prove(f"{base}/meso.cumulative_is_running_sum_of_pore_volumes/{cfg}",
                  sx.And(*[sx.eq(cum[i + 1] - cum[i], vol[i + 1]) for i in range(len(cum) - 1)]) if len(cum) > 1 else True, extra=x)

    return collect(eng, run, base, cfg)


def history_block(args):
    """The Kelvin model a calculation uses is built from *its* isotherm, branch and pore geometry -- whatever was calculated
    before in the same process (two calls in one path, independent symbols; the named Kelvin model is a recording stand-in)."""
    method, first, second = args
    st = _prep()
    PM, MK, E = st['PM'], st['MK'], st['E']
    base = f"{P}/psd_meso.psd_mesoporous"
    cfg = f"model={method}|{':'.join(second)}|after:{':'.join(first)}"
    eng = sx.Engine(max_paths=4000, div0='assume')
    table = {('ads', 'slit'): 'hemicylindrical', ('ads', 'cylinder'): 'cylindrical', ('des', 'slit'): 'hemicylindrical', ('des', 'cylinder'): 'hemispherical',
             ('ads', 'sphere'): 'hemispherical', ('des', 'sphere'): 'hemispherical'}

    def run():
        n = 3
        real_models = dict(MK._KELVIN_MODELS)
        calls = []

        def rec_kelvin(parr, **kw):
            calls.append(kw)
            return _arr([eng.real(f'rK{len(calls)}_{i}', positive=True) for i in range(len(parr))])
        MK._KELVIN_MODELS['Kelvin'] = rec_kelvin
        try:
            isos = []
            outs = []
            for tag, (branch, geom, *men) in (('a', first), ('b', second)):
                ps = [eng.real(f'p{tag}{i}', positive=True) for i in range(n)]
                Vs = [eng.real(f'V{tag}{i}', positive=True) for i in range(n)]
                for i in range(1, n):
                    eng.assume(ps[i] > ps[i - 1])
                    eng.assume(Vs[i] >= Vs[i - 1])
                eng.assume(ps[-1] < 1)
                iso = IsoM(eng, tag)
                isos.append(iso)
                PM.get_iso_loading_and_pressure_ordered = lambda isotherm, br, lu, pu, ps=ps, Vs=Vs: (_arr(ps), _arr(Vs))
                mark = len(calls)
                try:
                    PM.psd_mesoporous(iso, psd_model=method, pore_geometry=geom, branch=branch, thickness_model='zero thickness', kelvin_model='Kelvin',
                                      **({'meniscus_geometry': men[0]} if men else {}))
                    outs.append(('return', mark))
                except E.CalculationError:
                    outs.append(('CalculationError', mark))
        finally:
            MK._KELVIN_MODELS.clear()
            MK._KELVIN_MODELS.update(real_models)
        x = {'replay': {'kind': 'c16.history', 'model': method, 'first': list(first), 'second': list(second)}}
        iso = isos[1]
        mine = calls[outs[1][1]:]
        eng.prove(f"{base}/history.kelvin_model_evaluated_in_second_calculation/{cfg}", outs[1][0] != 'return' or len(mine) > 0, extra=x)
        # (a meniscus geometry named by the caller is the one used; the branch / pore-geometry table only fills in a missing one)
        want = {'meniscus_geometry': second[2] if len(second) > 2 else table[tuple(second[:2])], 'temperature': iso.temperature, 'liquid_density': iso.rho, 'adsorbate_molar_mass': iso.M,
                'adsorbate_surface_tension': iso.gamma}
        ok = all(set(kw) == set(want) and all((kw[k] is v) or (isinstance(v, str) and kw[k] == v) for k, v in want.items()) for kw in mine)
        eng.prove(f"{base}/history.kelvin_model_built_from_this_isotherm_branch_and_geometry/{cfg}", ok,
                  extra=dict(x, observed=str([{k: str(v) for k, v in kw.items()} for kw in mine[:1]])))

    return collect(eng, run, base, cfg)


def kelvin_block(_b):
    import sympy as sp
    from pgv.checks import models_common as MC
    st = _prep()
    MK, E = st['MK'], st['E']
    px = st['px']
    obs = []
    px._mode, px._sp = 'sympy', sp
    try:
        s_, T, rho, M, g = sp.symbols('s T rho M gamma', positive=True)
        p = 1 / (1 + s_)
        Rg = sp.Rational(str(R_GAS))
        for geom, f in (('cylindrical', 2), ('hemispherical', 1), ('hemicylindrical', sp.Rational(1, 2))):
            r = MK.kelvin_radius(p, geom, T, rho, M, g)
            want = -2 * g * (M / rho) / (f * Rg * T * sp.log(p))
            v, d = MC.cas_is_zero(r - want)
            obs.append({'name': f"{P}/models_kelvin.kelvin_radius/kelvin.equation/{geom}", 'verdict': v, 'backend': 'sympy', 'time': 0.0,
                        'model': d if v == 'refuted' else None, 'detail': str(d), 'pc': '', 'extra': {'replay': {'kind': 'c16.kelvin', 'geometry': geom}}})
            pos = sp.simplify(r).is_positive
            obs.append(static_ob(f"{P}/models_kelvin.kelvin_radius/kelvin.radius_positive_below_saturation/{geom}", bool(pos), str(sp.simplify(r)), backend='sympy'))
            dr = sp.simplify(sp.diff(r, s_))  # p decreases with s: radius must decrease with s
            obs.append(static_ob(f"{P}/models_kelvin.kelvin_radius/kelvin.radius_increases_with_pressure/{geom}", bool(dr.is_negative), str(dr), backend='sympy'))
        r = MK.kelvin_radius_kjs(p, 'cylindrical', T, rho, M, g)
        want = -2 * g * (M / rho) / (Rg * T * sp.log(p)) + sp.Rational(3, 10)
        v, d = MC.cas_is_zero(r - want)
        obs.append({'name': f"{P}/models_kelvin.kelvin_radius_kjs/kelvin.equation_plus_0.3nm/cylindrical", 'verdict': v, 'backend': 'sympy', 'time': 0.0,
                    'model': d if v == 'refuted' else None, 'detail': str(d), 'pc': '', 'extra': {}})
        for geom in ('hemispherical', 'hemicylindrical'):
            try:
                MK.kelvin_radius_kjs(p, geom, T, rho, M, g)
                out = 'return'
            except E.ParameterError:
                out = 'ParameterError'
            obs.append(static_ob(f"{P}/models_kelvin.kelvin_radius_kjs/raises.ParameterError_other_meniscus/{geom}", out == 'ParameterError', out, backend='eval'))
    finally:
        px._mode = 'sx'
    # meniscus table (exhaustive) -- Rouquerol / standard convention
    table = {('ads', 'slit'): 'hemicylindrical', ('ads', 'cylinder'): 'cylindrical', ('ads', 'halfopen-cylinder'): 'hemispherical',
             ('ads', 'sphere'): 'hemispherical', ('des', 'slit'): 'hemicylindrical', ('des', 'cylinder'): 'hemispherical',
             ('des', 'halfopen-cylinder'): 'hemispherical', ('des', 'sphere'): 'hemispherical'}
    for (b, gm), want in table.items():
        obs.append(static_ob(f"{P}/models_kelvin.get_meniscus_geometry/table/{b}|{gm}", MK.get_meniscus_geometry(b, gm) == want, '', backend='eval'))
    for b, gm in (('xx', 'slit'), ('ads', 'xx')):
        try:
            MK.get_meniscus_geometry(b, gm)
            out = 'return'
        except E.ParameterError:
            out = 'ParameterError'
        obs.append(static_ob(f"{P}/models_kelvin.get_meniscus_geometry/raises.ParameterError/{b}|{gm}", out == 'ParameterError', out, backend='eval'))
    # get_kelvin_model binds the keyword arguments it is given
    km = MK.get_kelvin_model('Kelvin', meniscus_geometry='cylindrical', temperature=1, liquid_density=2, adsorbate_molar_mass=3, adsorbate_surface_tension=4)
    obs.append(static_ob(f"{P}/models_kelvin.get_kelvin_model/binds_arguments/Kelvin", km.func is MK.kelvin_radius and km.keywords == dict(
        meniscus_geometry='cylindrical', temperature=1, liquid_density=2, adsorbate_molar_mass=3, adsorbate_surface_tension=4), '', backend='eval'))
    kms = [MK.get_kelvin_model(nm, meniscus_geometry=g_, temperature=10 + i, liquid_density=20 + i, adsorbate_molar_mass=30 + i, adsorbate_surface_tension=40 + i)
           for i, (nm, g_) in enumerate((('Kelvin', 'cylindrical'), ('Kelvin', 'hemispherical'), ('Kelvin-KJS', 'cylindrical'), ('Kelvin', 'cylindrical')))]
    ok = all(k.keywords == dict(meniscus_geometry=g_, temperature=10 + i, liquid_density=20 + i, adsorbate_molar_mass=30 + i, adsorbate_surface_tension=40 + i)
             for i, (k, g_) in enumerate(zip(kms, ('cylindrical', 'hemispherical', 'cylindrical', 'cylindrical'))))
    obs.append(static_ob(f"{P}/models_kelvin.get_kelvin_model/binds_arguments/every_call_its_own", ok, str([k.keywords for k in kms])[:300], backend='eval',
                         replay={'kind': 'c16.history', 'model': 'BJH', 'first': ['des', 'cylinder'], 'second': ['ads', 'cylinder']}))
    try:
        MK.get_kelvin_model('nope')
        out = 'return'
    except E.ParameterError:
        out = 'ParameterError'
    obs.append(static_ob(f"{P}/models_kelvin.get_kelvin_model/raises.ParameterError/unknown", out == 'ParameterError', out, backend='eval'))
    return obs


def _dispatch(job):
    kind, arg = job
    return {'rec': recurrence_block, 'drv': driver_block, 'kelvin': kelvin_block, 'hist': history_block}[kind](arg)


def run(rep):
    rep.level = 'proof'
    rep.fn('pygaps.characterisation.psd_meso.psd_pygapsdh/psd_bjh/psd_dollimore_heal/psd_mesoporous',
           'pygaps.characterisation.models_kelvin.kelvin_radius/kelvin_radius_kjs/get_meniscus_geometry/get_kelvin_model',
           'pygaps.characterisation.models_thickness.thickness_zero')
    rep.assume('thickness and Kelvin models are arbitrary strictly increasing positive functions of the pressure (fresh symbols per point)',
               'numpy slicing, diff, cumsum, searchsorted executed by real numpy on object arrays',
               'the property says "at the measured pressures": the lower or the upper end of every interval is accepted (consistently)',
               'real arithmetic; sympy trusted for the Kelvin equations')
    rep.trust('CPython 3.12', 'z3 5.1.0', 'sympy 1.14', 'pgv.sx', 'pgv.lift', 'pgv.npproxy')
    nmax = 5 if rep.tier == 'quick' else 6
    jobs = []
    for (m, g) in METHODS:
        for n in range(2, nmax + 1):
            for tm in ('zero', 'any'):
                jobs.append(('rec', (m, g, n, tm)))
    for m in ('pygaps-DH', 'BJH', 'DH'):
        for lim in ('both', 'lo', 'hi'):
            jobs.append(('drv', (m, 4, lim)))
    jobs.append(('kelvin', None))
    for m in ('pygaps-DH', 'BJH', 'DH'):
        for first, second in ((('ads', 'cylinder'), ('des', 'cylinder')), (('des', 'cylinder'), ('ads', 'cylinder')), (('des', 'slit'), ('des', 'cylinder')),
                              (('des', 'cylinder'), ('des', 'cylinder'))):
            if m != 'pygaps-DH' and 'slit' in (first[1], second[1]):
                continue
            jobs.append(('hist', (m, first, second)))
    for m, first, second in (('pygaps-DH', ('des', 'slit'), ('des', 'slit', 'hemispherical')), ('pygaps-DH', ('ads', 'sphere'), ('ads', 'sphere', 'cylindrical')),
                             ('pygaps-DH', ('des', 'cylinder', 'cylindrical'), ('des', 'cylinder')), ('BJH', ('ads', 'cylinder'), ('ads', 'cylinder', 'hemispherical')),
                             ('DH', ('des', 'cylinder'), ('des', 'cylinder', 'hemicylindrical')), ('pygaps-DH', ('ads', 'slit', 'cylindrical'), ('ads', 'slit', 'hemispherical'))):
        jobs.append(('hist', (m, first, second)))
    obs, crashes = par.pmap(_dispatch, jobs)
    rep.extend(obs)
    if crashes:
        rep.crash = crashes[0]
    from pgv.replayers import c16 as R16
    for res in R16.steep_step_cases():
        rep.add_bounded(f"{P}/bounded.{res['name']}", res['ok'], res['detail'], replay={'kind': 'c16.steep', 'name': res['name']})
    for res in R16.real_isotherm_cases():
        rep.add_bounded(f"{P}/bounded.{res['name']}", res['ok'], res['detail'], replay={'kind': 'c16.real', 'name': res['name']})
    for res in R16.model_isotherm_cases():
        rep.add_bounded(f"{P}/bounded.{res['name']}", res['ok'], res['detail'], replay={'kind': 'c16.model_isotherm', 'name': res['name']})
    for res in R16.own_properties_cases():
        rep.add_bounded(f"{P}/bounded.{res['name']}", res['ok'], res['detail'], replay={'kind': 'c16.own_properties', 'name': res['name']})
    rep.shape_bounded = {'N': nmax, 'what': f'volume/pressure arrays of 2..{nmax} symbolic points', 'obligations': sum(1 for o in obs if '/psd_meso.' in o['name'])}
