"""C17 -- Horvath-Kawazoe pore widths solve the method's potential equation.

Proved (contract level): the slit-pore potential closure built by psd_horvath_kawazoe equals the published HK
equation for all widths and parameters (polynomial normal form with sympy on the captured closure); the objective
handed to scipy.optimize.minimize_scalar is (exp(phi(L)) [x Cheng-Yang term] - p)^2 on (bound, 50); dispersion
constants follow Kirkwood-Mueller; the tail (cumulative volume, finite-difference distribution, averaged widths).
Bounded (never counted as proved): cylinder / sphere / Rege-Yang potentials and the minimiser's convergence.
"""
from __future__ import annotations

from fractions import Fraction as F

import numpy

from pgv import lift, npproxy, par, stubs, sx
from pgv.util import collect, static_ob

P = 'C17'
_ST = {}


def _prep():
    if _ST:
        return _ST
    import pygaps
    pygaps.logger.disabled = True
    import pygaps.characterisation.psd_micro as PMi
    from pygaps.utilities import exceptions as E
    import scipy.constants as sc
    consts = type('constants', (), {})()
    for k in ('Avogadro', 'gas_constant', 'electron_mass', 'speed_of_light', 'pi'):
        setattr(consts, k, F(repr(getattr(sc, k))))
    for n in ('psd_horvath_kawazoe', '_solve_hk', '_solve_hk_cy', '_dispersion_from_dict', '_kirkwood_muller_dispersion_ads',
              '_kirkwood_muller_dispersion_mat', '_N_over_RT'):
        setattr(PMi, n, lift.lifted_source_function(getattr(PMi, n)))
    PMi.constants = consts
    PMi.numpy = npproxy.NumpyProxy()
    _ST.update(PMi=PMi, E=E, consts=consts, sc=sc)
    return _ST


def slit_block(_b):
    import sympy as sp
    st = _prep()
    PMi = st['PMi']
    px = PMi.numpy
    px._mode, px._sp = 'sympy', sp
    obs = []
    try:
        names = 'd_a d_s n_a n_s al_a al_s ch_a ch_s T rho M L'
        d_a, d_s, n_a, n_s, al_a, al_s, ch_a, ch_s, T, rho, M, L = sp.symbols(names, positive=True)
        ads = {'molecular_diameter': d_a, 'polarizability': al_a, 'magnetic_susceptibility': ch_a, 'surface_density': n_a,
               'liquid_density': rho, 'adsorbate_molar_mass': M}
        mat = {'molecular_diameter': d_s, 'polarizability': al_s, 'magnetic_susceptibility': ch_s, 'surface_density': n_s}
        cap = {}
        w_syms = [sp.Symbol(f'w{i}', positive=True) for i in range(3)]

        def fake_solve(pressure, hk_fun, bound, geo):
            cap.update(fun=hk_fun, bound=bound, geo=geo, pressure=pressure)
            return list(w_syms)
        real_solve = PMi._solve_hk
        PMi._solve_hk = fake_solve
        ps = [sp.Symbol(f'p{i}', positive=True) for i in range(3)]
        ls = [sp.Symbol(f'l{i}', positive=True) for i in range(3)]
        tail_skipped = None
        try:
            avg_w, dist, vcum = PMi.psd_horvath_kawazoe(ps, ls, T, 'slit', ads, mat, use_cy=False)
        except TypeError as exc:
            if 'truth value of Relational' not in str(exc):
                raise
            # the tail branches on (or masks by) a comparison of symbolic widths: outside what the sympy run can follow -- its three
            # obligations are undecided here, the bounded clauses on real runs decide
            tail_skipped = exc
            avg_w = dist = vcum = None
        finally:
            PMi._solve_hk = real_solve
        c = st['consts']
        me, c0, NA, R = [sp.Rational(str(getattr(c, k))) for k in ('electron_mass', 'speed_of_light', 'Avogadro', 'gas_constant')]
        s27 = sp.Rational(1, 10 ** 27)
        # Kirkwood-Mueller dispersion constants (inputs scaled by 1e-27 as documented)
        A_a = sp.Rational(3, 2) * me * c0 ** 2 * (al_a * s27) * (ch_a * s27)
        A_s = 6 * me * c0 ** 2 * (al_a * s27) * (al_s * s27) / ((al_a * s27) / (ch_a * s27) + (al_s * s27) / (ch_s * s27))
        d0 = (d_a + d_s) / 2  # = d/2 with d = d_a + d_s
        sig = sp.Rational('0.8583742') * d0
        published = NA / (R * T) * (n_a * A_a + n_s * A_s) / ((sig * sp.Rational(1, 10 ** 9)) ** 4 * (L - 2 * d0)) * (
            sig ** 4 / (3 * (L - d0) ** 3) - sig ** 10 / (9 * (L - d0) ** 9) - sig ** 4 / (3 * d0 ** 3) + sig ** 10 / (9 * d0 ** 9))
        got = cap['fun'](L)
        num = sp.expand(sp.together(got - published).as_numer_denom()[0])
        obs.append(static_ob(f"{P}/psd_micro.psd_horvath_kawazoe/hk.slit_potential_is_published_equation/symbolic", num == 0,
                             'polynomial normal form of (closure - published) numerator: ' + ('0' if num == 0 else str(num)[:200]), backend='sympy',
                             replay={'kind': 'c17.slit'}))
        obs.append(static_ob(f"{P}/psd_micro.psd_horvath_kawazoe/hk.slit_solver_bound_is_sum_of_diameters/symbolic",
                             sp.simplify(cap['bound'] - (d_a + d_s)) == 0 and cap['geo'] == 1 and list(cap['pressure']) == ps, str(cap['bound']), backend='sympy'))
        lit = sp.Rational('0.8583742')
        obs.append(static_ob(f"{P}/psd_micro.psd_horvath_kawazoe/hk.sigma_constant_is_two_fifths_pow_one_sixth/last_digit",
                             bool(abs(lit - sp.Rational(2, 5) ** sp.Rational(1, 6)) < sp.Rational(1, 10 ** 7)),
                             str(sp.N(sp.Rational(2, 5) ** sp.Rational(1, 6), 12)), backend='sympy'))
        if tail_skipped is not None:
            for tail_ in ('hk.tail_widths_are_internuclear_minus_adsorbent_diameter_averaged_pairwise/n=3', 'hk.tail_cumulative_volume_is_loading_as_liquid_volume/n=3',
                          'hk.tail_distribution_is_finite_difference_derivative/n=3'):
                o = static_ob(f"{P}/psd_micro.psd_horvath_kawazoe/{tail_}", False, f"not evaluated: {tail_skipped}"[:160], backend='sympy')
                o['verdict'] = 'unsupported'
                obs.append(o)
        else:
            ok_w = all(sp.simplify(avg_w[i] - ((w_syms[i] - d_s) + (w_syms[i + 1] - d_s)) / 2) == 0 for i in range(2))
            obs.append(static_ob(f"{P}/psd_micro.psd_horvath_kawazoe/hk.tail_widths_are_internuclear_minus_adsorbent_diameter_averaged_pairwise/n=3",
                                 ok_w, str(list(avg_w)), backend='sympy', replay={'kind': 'c17.tail'}))
            V = [ls[i] * M / rho / 1000 for i in range(3)]
            ok_v = all(sp.simplify(vcum[i] - V[i + 1]) == 0 for i in range(2))
            obs.append(static_ob(f"{P}/psd_micro.psd_horvath_kawazoe/hk.tail_cumulative_volume_is_loading_as_liquid_volume/n=3", ok_v, str(list(vcum)),
                                 backend='sympy', replay={'kind': 'c17.tail'}))
            ok_d = all(sp.simplify(dist[i] - (V[i + 1] - V[i]) / (w_syms[i + 1] - w_syms[i])) == 0 for i in range(2))
            obs.append(static_ob(f"{P}/psd_micro.psd_horvath_kawazoe/hk.tail_distribution_is_finite_difference_derivative/n=3", ok_d, str(list(dist)),
                                 backend='sympy', replay={'kind': 'c17.tail'}))
        a1, a2 = PMi._dispersion_from_dict(ads, mat)
        obs.append(static_ob(f"{P}/psd_micro._dispersion_from_dict/hk.kirkwood_mueller_adsorbate/symbolic", sp.simplify(a1 - A_a) == 0, str(a1), backend='sympy'))
        obs.append(static_ob(f"{P}/psd_micro._dispersion_from_dict/hk.kirkwood_mueller_adsorbent/symbolic", sp.simplify(a2 - A_s) == 0, str(a2), backend='sympy'))
        obs.append(static_ob(f"{P}/psd_micro._N_over_RT/hk.avogadro_over_RT/symbolic", sp.simplify(PMi._N_over_RT(T) - NA / (R * T)) == 0, '', backend='sympy'))
    finally:
        px._mode = 'sx'
    return obs


class _Res:
    def __init__(self, x):
        self.x = x
        self.success = True


def objective_block(args):
    which, = args
    st = _prep()
    PMi = st['PMi']
    base = f"{P}/psd_micro.{which}"
    eng = sx.Engine(max_paths=64, div0='assume')
    replay = {'kind': 'c17.objective', 'which': which}

    def run():
        calls = []

        class Opt:
            @staticmethod
            def minimize_scalar(fun, method=None, bounds=None, **kw):
                x = eng.real(f'Lsol{len(calls)}', positive=True)
                probe = eng.real('Lprobe', positive=True)
                # the closure is probed *now*: it reads loop variables of the caller (late binding)
                calls.append({'fun': fun, 'method': method, 'bounds': bounds, 'kw': kw, 'x': x, 'at_probe': fun(probe)})
                return _Res(x)
        PMi.optimize = Opt
        phi = sx.z3.Function('phi', sx.z3.RealSort(), sx.z3.RealSort())
        hk = lambda l: sx.SymReal(phi(sx.SymReal.lift(l)))
        ps = [eng.real('p0', positive=True), eng.real('p1', positive=True)]
        bound = eng.real('bound', positive=True)
        if which == '_solve_hk':
            res = PMi._solve_hk(numpy.array(ps, dtype=object), hk, bound, 1)
        else:
            ls = numpy.array([eng.real('l0', positive=True), eng.real('l1', positive=True)], dtype=object)
            eng.assume(ls[0] < ls[1])
            res = PMi._solve_hk_cy(numpy.array(ps, dtype=object), ls, hk, bound, 1)
        x = {'replay': replay}
        eng.prove(f"{base}/hk.one_minimisation_per_pressure_until_cutoff/n=2", 1 <= len(calls) <= 2 and len(res) == len(calls)
                  and all(res[i] is calls[i]['x'] for i in range(len(calls))), extra=x)
        if len(calls) == 1:
            eng.prove(f"{base}/hk.stops_only_beyond_cutoff_width/n=2", calls[0]['x'] > 10, extra=x)
        for k, c in enumerate(calls):
            eng.prove(f"{base}/hk.bounded_search_between_minimum_width_and_50nm/point={k}",
                      c['method'] == 'bounded' and c['bounds'][0] is bound and c['bounds'][1] == 50, extra=x)
            probe = eng.real('Lprobe', positive=True)
            got = c['at_probe']
            if which == '_solve_hk':
                want_inner = sx.sym_exp(hk(probe)) - ps[k]
            else:
                cov = ls[k] / (ls[1] * F('1.01'))  # coverage = loading / (max(loading) * 1.01); loadings increasing
                sf = 1 + 1 / cov * sx.sym_log(1 - cov)
                want_inner = sx.sym_exp(hk(probe) - sf) - ps[k]
            eng.prove(f"{base}/hk.objective_is_squared_residual_of_potential_equation/point={k}", sx.eq(got, want_inner * want_inner), extra=x)

    return collect(eng, run, base, which)


class _IsoHK:
    """contract stand-in for an isotherm handed to psd_microporous: adsorbate getters return this object's own symbols"""

    def __init__(self, eng, tag, complete=True):
        self.temperature = eng.real('T' + tag, positive=True)
        self.props = {k: eng.real(k[:6] + tag, positive=True) for k in ('molecular_diameter', 'polarizability', 'magnetic_susceptibility', 'surface_density')}
        if not complete:
            del self.props['surface_density']
        self.rho, self.M = eng.real('rho' + tag, positive=True), eng.real('M' + tag, positive=True)
        self.rho_calls = []
        outer = self

        class A:
            def __str__(s):
                return 'nitrogen'  # the same adsorbate name for every isotherm

            def get_prop(s, name):
                from pygaps.utilities.exceptions import ParameterError
                if name not in outer.props:
                    raise ParameterError(name)
                return outer.props[name]

            def liquid_density(s, T):
                outer.rho_calls.append(T)
                return outer.rho

            def molar_mass(s):
                return outer.M
        self.adsorbate = A()


def driver_block(args):
    """psd_microporous hands the kernel the parameters of *this* isotherm (database properties, liquid density at this
    temperature), this isotherm's branch data inside the limits and the named material model -- whatever ran before."""
    model, explicit = args
    st = _prep()
    PMi, E = st['PMi'], st['E']
    if not getattr(PMi, '__driver_lifted__', False):
        PMi.psd_microporous = lift.lifted_source_function(PMi.psd_microporous)
        PMi.__driver_lifted__ = True
    base = f"{P}/psd_micro.psd_microporous"
    cfg = f"model={model}|adsorbate_model={'given' if explicit else 'from_isotherm'}"
    eng = sx.Engine(max_paths=2000)

    def run():
        n = 4
        calls = []

        def rec(pressure, loading, temperature, pore_geometry, adsorbate_properties, material_properties, use_cy=False):
            calls.append(dict(pressure=list(pressure), loading=list(loading), temperature=temperature, geometry=pore_geometry,
                              ads=adsorbate_properties, mat=material_properties, use_cy=use_cy))
            w = [eng.real(f'w{len(calls)}_{i}', positive=True) for i in range(len(pressure))]
            return w, w, w
        saved = (PMi.psd_horvath_kawazoe, PMi.psd_horvath_kawazoe_ry, PMi.get_iso_loading_and_pressure_ordered)
        PMi.psd_horvath_kawazoe = PMi.psd_horvath_kawazoe_ry = rec
        outs, isos, datas, given = [], [], [], []
        try:
            for tag in ('a', 'b'):
                ps = [eng.real(f'p{tag}{i}', positive=True) for i in range(n)]
                ls = [eng.real(f'l{tag}{i}', positive=True) for i in range(n)]
                for i in range(1, n):
                    eng.assume(ps[i] > ps[i - 1])
                eng.assume(ps[-1] < F(1, 5))  # inside the default upper limit 0.2
                iso = _IsoHK(eng, tag)
                req = {}

                def fake(isotherm, branch, lu, pu, ps=ps, ls=ls, req=req):
                    req.update(branch=branch, lu=lu, pu=pu)
                    a, b = numpy.empty(n, dtype=object), numpy.empty(n, dtype=object)
                    a[:], b[:] = ps, ls
                    return a, b
                PMi.get_iso_loading_and_pressure_ordered = fake
                am = {k: eng.real('g_' + k[:6] + tag, positive=True) for k in ('molecular_diameter', 'polarizability', 'magnetic_susceptibility', 'surface_density',
                                                                               'liquid_density', 'adsorbate_molar_mass')} if explicit else None
                mark = len(calls)
                try:
                    PMi.psd_microporous(iso, psd_model=model, pore_geometry='slit', branch='ads', material_model='AlSiOxideIon', adsorbate_model=am)
                    outs.append(('return', mark))
                except (E.CalculationError, E.ParameterError) as exc:
                    outs.append((type(exc).__name__, mark))
                except (sx.Unsupported, sx._Infeasible):
                    raise
                except Exception as exc:  # e.g. the driver reaching for something an isotherm's adsorbate does not promise
                    outs.append((f"other:{type(exc).__name__}: {str(exc)[:80]}", mark))
                isos.append(iso), datas.append((ps, ls, req)), given.append(am)
        finally:
            PMi.psd_horvath_kawazoe, PMi.psd_horvath_kawazoe_ry, PMi.get_iso_loading_and_pressure_ordered = saved
        x = {'replay': {'kind': 'c17.history', 'model': model, 'explicit': explicit}}
        for k, tag in ((0, 'first'), (1, 'second_after_another_isotherm_of_the_same_adsorbate')):
            iso, (ps, ls, req), am = isos[k], datas[k], given[k]
            mine = calls[outs[k][1]:(outs[k + 1][1] if k + 1 < len(outs) else None)]
            eng.prove(f"{base}/driver.returns_and_runs_the_kernel_once/{cfg}|{tag}", outs[k][0] == 'return' and len(mine) == 1, extra=dict(x, observed=outs[k][0]))
            if len(mine) != 1:
                continue
            c = mine[0]
            if explicit:
                ok = c['ads'] is am or (set(c['ads']) == set(am) and all(c['ads'][q] is am[q] for q in am))
                eng.prove(f"{base}/driver.given_adsorbate_model_used_as_given/{cfg}|{tag}", ok, extra=x)
                eng.prove(f"{base}/driver.no_database_lookup_when_model_given/{cfg}|{tag}", not iso.rho_calls, extra=x)
            else:
                want = dict(iso.props, liquid_density=iso.rho, adsorbate_molar_mass=iso.M)
                ok = set(c['ads']) == set(want) and all(c['ads'][q] is want[q] for q in want)
                eng.prove(f"{base}/driver.adsorbate_parameters_are_this_isotherms/{cfg}|{tag}", ok,
                          extra=dict(x, observed=str({q: str(v) for q, v in c['ads'].items()})[:300]))
                eng.prove(f"{base}/driver.liquid_density_at_isotherm_temperature/{cfg}|{tag}", len(iso.rho_calls) >= 1 and all(t is iso.temperature for t in iso.rho_calls), extra=x)
            eng.prove(f"{base}/driver.temperature_and_geometry_passed/{cfg}|{tag}", c['temperature'] is iso.temperature and c['geometry'] == 'slit'
                      and c['use_cy'] == model.endswith('CY'), extra=x)
            eng.prove(f"{base}/driver.molar_mmol_relative_pressure_requested/{cfg}|{tag}", req.get('branch') == 'ads' and req.get('lu') == {'loading_basis': 'molar', 'loading_unit': 'mmol'}
                      and req.get('pu') == {'pressure_mode': 'relative'}, extra=x)
            eng.prove(f"{base}/driver.all_points_inside_default_limits_passed_in_order/{cfg}|{tag}",
                      len(c['pressure']) == n and all(a is b for a, b in zip(c['pressure'], ps)) and all(a is b for a, b in zip(c['loading'], ls)), extra=x)
            import pygaps.characterisation.models_hk as MH
            eng.prove(f"{base}/driver.named_material_model_passed/{cfg}|{tag}", c['mat'] == MH.get_hk_model('AlSiOxideIon'), extra=x)

    obs = collect(eng, run, base, cfg)
    if not explicit and model == 'HK':
        # an adsorbate without the database properties is refused with a parameter error
        eng2 = sx.Engine(max_paths=50)

        def run2():
            iso = _IsoHK(eng2, 'z', complete=False)
            try:
                PMi.psd_microporous(iso, psd_model='HK')
                out = 'return'
            except E.ParameterError:
                out = 'ParameterError'
            except sx.Unsupported:
                raise
            except Exception as exc:
                out = f"went on past the parameter look-up: {type(exc).__name__}"
            eng2.prove(f"{base}/driver.missing_adsorbate_property_refused/{cfg}", out == 'ParameterError', extra={'observed': out})
        obs += collect(eng2, run2, base, cfg)
    return obs


def _dispatch(job):
    kind, arg = job
    return {'slit': slit_block, 'obj': objective_block, 'drv': driver_block}[kind](arg)


def run(rep):
    rep.level = 'other'
    rep.fn('pygaps.characterisation.psd_micro.psd_microporous (driver: parameters, data request, window, kernel call; two calls per path)',
           'pygaps.characterisation.psd_micro.psd_horvath_kawazoe (slit closure `potential`, tail)', 'pygaps.characterisation.psd_micro._solve_hk',
           'pygaps.characterisation.psd_micro._solve_hk_cy', 'pygaps.characterisation.psd_micro._dispersion_from_dict / _kirkwood_muller_dispersion_* / _N_over_RT')
    rep.assume('scipy.optimize.minimize_scalar(bounded): returns a minimiser of the objective inside the bounds (assumed; convergence is bounded only)',
               'the published slit HK equation as transcribed in this file (Horvath & Kawazoe 1983, sigma = (2/5)^(1/6) d0)',
               'polarizability / susceptibility inputs scaled by 1e-27 as the code documents; scipy.constants lifted to decimals',
               'sympy polynomial normal form is trusted')
    rep.trust('CPython 3.12', 'sympy 1.14', 'z3 5.1.0', 'pgv.sx', 'pgv.lift')
    jobs = [('slit', None), ('obj', ('_solve_hk',)), ('obj', ('_solve_hk_cy',))] + [('drv', (m, e)) for m in ('HK', 'HK-CY', 'RY', 'RY-CY') for e in (False, True)]
    obs, crashes = par.pmap(_dispatch, jobs)
    rep.extend(obs)
    if crashes:
        rep.crash = crashes[0]
    from pgv.replayers import c17 as R
    for res in R.bounded_cases(rep.seed, thorough=rep.tier == 'thorough'):
        rep.add_bounded(f"{P}/bounded.{res['name']}", res['ok'], res['detail'], replay={'kind': 'c17.bounded', 'name': res['name'], 'seed': rep.seed})
    rep.extra_cov['explanation'] = ('slit-pore potential, solver objectives, dispersion constants and the tail are discharged obligations; '
                                    'cylinder / sphere / Rege-Yang potentials (int() and 2000-term series on the width) and the '
                                    'minimiser itself are outside the symbolic engine and are covered by the bounded cases only '
                                    '(published-equation round trip for slit widths, monotonicity, tail identities on real runs)')
