"""C10 -- model equations are mutually inverse, monotone, bounded, with the right zero point and Henry limit.

z3 (nlsat) on the real methods for rational / sqrt models; sympy (CAS) on the same methods for
transcendental ones; numerical inverses through the scipy.optimize contract stub; ModelIsotherm
wrappers through the accessor contract of C03 (model as uninterpreted function).
"""
from __future__ import annotations

import numpy

from pgv import par, stubs, sx
from pgv.checks import models_common as MC
from pgv.util import collect, static_ob

P = 'C10'
Z3_MODELS = ['Henry', 'Langmuir', 'DSLangmuir', 'BET', 'GAB', 'Quadratic', 'TemkinApprox']
CAS_INVERSE = ['Freundlich', 'Toth', 'DR', 'DA']
NUM_INVERSE = {'TSLangmuir': 'pressure', 'TemkinApprox': 'pressure', 'JensenSeaton': 'pressure',
               'Virial': 'loading', 'FHVST': 'loading', 'WVST': 'loading'}
SATURATION = {'Langmuir': lambda p: p['n_m'], 'DSLangmuir': lambda p: p['n_m1'] + p['n_m2'],
              'TSLangmuir': lambda p: p['n_m1'] + p['n_m2'] + p['n_m3'], 'Toth': lambda p: p['n_m'], 'DR': lambda p: p['n_m'],
              'DA': lambda p: p['n_m']}
HENRY = {'Henry': lambda p: p['K'], 'Langmuir': lambda p: p['n_m'] * p['K'], 'DSLangmuir': lambda p: p['n_m1'] * p['K1'] + p['n_m2'] * p['K2'],
         'TSLangmuir': lambda p: p['n_m1'] * p['K1'] + p['n_m2'] * p['K2'] + p['n_m3'] * p['K3'], 'BET': lambda p: p['n_m'] * p['C'],
         'GAB': lambda p: p['n_m'] * p['C'] * p['K'], 'Quadratic': lambda p: p['n_m'] * p['Ka'], 'TemkinApprox': lambda p: p['n_m'] * p['K'],
         'Toth': lambda p: p['n_m'] * p['K'], 'JensenSeaton': lambda p: p['K']}


def _validity(eng, name, m, p):
    """p inside the model's validity range (below the BET/GAB pole; Quadratic/Temkin where the equation is monotone)"""
    pr = m.params
    if name == 'BET':
        eng.assume(sx.And(pr['N'] * p < 1, 1 - pr['N'] * p + pr['C'] * p > 0))
    if name == 'GAB':
        eng.assume(pr['K'] * p < 1)
    if name == 'Quadratic':
        eng.assume(sx.And(pr['Ka'] >= 0, pr['Kb'] >= 0))  # property: monotone only for non-negative constants
    if name == 'TemkinApprox':
        eng.assume(pr['tht'] <= 3)


def _scalar(x):
    if isinstance(x, numpy.ndarray) and x.ndim == 0:
        return x[()]
    return x


DEGENERATE = {'BET': ('N==C', lambda pr: sx.eq(pr['N'], pr['C'])), 'GAB': ('C==1', lambda pr: sx.eq(pr['C'], 1)),
              'Quadratic': ('Kb==0', lambda pr: sx.eq(pr['Kb'], 0))}


def z3_block(name):
    obs = []
    base = f"{P}/{MC.MODELS[name]}.{name}"
    ok, detail = MC.bounds_ok(name)
    obs.append(static_ob(f"{base}/bounds.declared_match_domain/static", ok, detail, backend='eval'))
    if name in DEGENERATE:
        # the closed-form inverse divides by an expression that vanishes on a parameter set inside the bounds:
        # the generic case and that case are separate configurations of every obligation
        obs += _z3_case(name, 'generic', lambda pr: sx.Not(DEGENERATE[name][1](pr)))
        obs += _z3_case(name, 'degenerate:' + DEGENERATE[name][0], DEGENERATE[name][1])
    else:
        obs += _z3_case(name, 'generic', None)
    return obs


def _z3_case(name, case, case_cond):
    st = MC.use_mode('sx')
    E = st['E']
    obs = []
    base = f"{P}/{MC.MODELS[name]}.{name}"
    replay = {'kind': 'c10.model', 'model': name, 'case': case}

    def mk(eng):
        m = MC.sx_model(eng, name)
        if case_cond is not None:
            eng.assume(case_cond(m.params))
        if name == 'Quadratic':
            eng.assume(m.params['Ka'] + m.params['Kb'] > 0)  # not the identically-zero model
        return m

    # inverse: pressure(loading(p)) == p
    if name != 'TemkinApprox':
        eng = sx.Engine(div0='nan', max_paths=256)

        def run():
            m = mk(eng)
            p = eng.real('p', positive=True)
            _validity(eng, name, m, p)
            L = _scalar(m.loading(p))
            back = _scalar(m.pressure(L))
            eng.prove(f"{base}/inverse.pressure_of_loading/scalar|{case}", sx.eq(back, p), extra={'replay': dict(replay, clause='inverse_pl')})
        obs += collect(eng, run, base, 'inverse_pl|' + case, replay=dict(replay, clause='inverse_pl'))

        # converse: loading(pressure(n)) == n for loadings the model can reach
        eng = sx.Engine(div0='nan', max_paths=256)

        def run2():
            m = mk(eng)
            n = eng.real('n', positive=True)
            pr = m.params
            if name in SATURATION:
                eng.assume(n < SATURATION[name](pr))
            if name == 'Quadratic':
                eng.assume(sx.And(pr['Ka'] >= 0, pr['Kb'] >= 0, n < 2 * pr['n_m']))
            pp = _scalar(m.pressure(n))
            if isinstance(pp, sx.NaNValue):
                eng.prove(f"{base}/inverse.loading_of_pressure/scalar|{case}", False, extra={'replay': dict(replay, clause='inverse_lp'), 'observed': 'NaN'})
                return
            # the returned pressure must lie in the validity range, then map back
            if name == 'BET':
                eng.prove(f"{base}/inverse.pressure_in_validity_range/scalar|{case}", sx.And(pp > 0, pr['N'] * pp < 1), extra={'replay': dict(replay, clause='inverse_lp')})
            if name == 'GAB':
                eng.prove(f"{base}/inverse.pressure_in_validity_range/scalar|{case}", sx.And(pp > 0, pr['K'] * pp < 1), extra={'replay': dict(replay, clause='inverse_lp')})
            back = _scalar(m.loading(pp))
            eng.prove(f"{base}/inverse.loading_of_pressure/scalar|{case}", sx.eq(back, n), extra={'replay': dict(replay, clause='inverse_lp')})
        obs += collect(eng, run2, base, 'inverse_lp|' + case, replay=dict(replay, clause='inverse_lp'))

    # zero point, sign, monotonicity, saturation bound
    eng = sx.Engine(div0='nan', max_paths=256)

    def run3():
        m = mk(eng)
        pr = m.params
        if name == 'Quadratic':
            eng.assume(sx.And(pr['Ka'] >= 0, pr['Kb'] >= 0))  # the equation is invertible only where it is monotone
        z = _scalar(m.loading(sx.SymReal(0)))
        eng.prove(f"{base}/zero.loading_at_zero_pressure/scalar|{case}", sx.eq(z, 0), extra={'replay': dict(replay, clause='zero')})
        if name != 'TemkinApprox':
            zp = _scalar(m.pressure(sx.SymReal(0)))
            eng.prove(f"{base}/zero.pressure_at_zero_loading/scalar|{case}", sx.eq(zp, 0), extra={'replay': dict(replay, clause='zero_p')})
        p1 = eng.real('p1', positive=True)
        p2 = eng.real('p2', positive=True)
        eng.assume(p1 < p2)
        _validity(eng, name, m, p2)
        _validity(eng, name, m, p1)
        L1, L2 = _scalar(m.loading(p1)), _scalar(m.loading(p2))
        eng.prove(f"{base}/sign.loading_nonnegative/scalar|{case}", L1 >= 0, extra={'replay': dict(replay, clause='sign')})
        eng.prove(f"{base}/monotone.loading_nondecreasing/two_point|{case}", L1 <= L2, extra={'replay': dict(replay, clause='monotone')})
        if name in SATURATION:
            eng.prove(f"{base}/bounded.by_saturation_capacity/scalar|{case}", L2 <= SATURATION[name](pr), extra={'replay': dict(replay, clause='bounded')})
    obs += collect(eng, run3, base, 'shape|' + case, replay=dict(replay, clause='zero_p'))

    # arrays: object arrays of length 3 incl. a zero element, and 0-d
    if name != 'TemkinApprox':
        eng = sx.Engine(div0='nan', max_paths=512)

        def run4():
            m = mk(eng)
            p = eng.real('p', positive=True)
            _validity(eng, name, m, p)
            arr = numpy.empty(3, dtype=object)
            arr[0], arr[1], arr[2] = sx.SymReal(0), p, p
            L = m.loading(arr)
            back = m.pressure(numpy.array(list(L), dtype=object))
            okshape = isinstance(back, numpy.ndarray) and back.shape == (3,)
            eng.prove(f"{base}/inverse.pressure_of_loading/array3_with_zero|{case}", okshape and sx.And(
                sx.eq(back[0], 0), sx.eq(back[1], p), sx.eq(back[2], p)), extra={'replay': dict(replay, clause='inverse_pl_array')})
            z = numpy.empty((), dtype=object)
            z[()] = p
            L0 = _scalar(m.loading(z))
            z2 = numpy.empty((), dtype=object)
            z2[()] = L0
            b0 = _scalar(m.pressure(z2))
            eng.prove(f"{base}/inverse.pressure_of_loading/array0d|{case}", sx.eq(b0, p), extra={'replay': dict(replay, clause='inverse_pl')})
        obs += collect(eng, run4, base, 'arrays|' + case)
    return obs


# ---------------------------------------------------------------------------------
# CAS: transcendental forward/inverse pairs, Henry limits, monotonicity
# ---------------------------------------------------------------------------------

def cas_block(name):
    import sympy as sp
    st = MC.use_mode('cas')
    obs, bounded = [], []
    base = f"{P}/{MC.MODELS[name]}.{name}"
    ok, detail = MC.bounds_ok(name)
    obs.append(static_ob(f"{base}/bounds.declared_match_domain/static", ok, detail, backend='eval'))
    m, syms = MC.cas_model(name)
    replay = {'kind': 'c10.model', 'model': name}

    def emit(clause, cfg, residual, extra_replay=None):
        v, d = MC.cas_is_zero(residual)
        nm = f"{base}/{clause}/{cfg}"
        if v == 'unknown' and 'vanishes' in str(d):
            bounded.append({'name': nm, 'ok': True, 'detail': str(d)})
            return
        obs.append({'name': nm, 'verdict': v, 'backend': 'sympy' if v == 'proved' else 'sympy+mpmath', 'time': 0.0,
                    'model': d if v == 'refuted' else None, 'detail': str(d), 'pc': '', 'extra': {'replay': dict(replay, clause=clause, **(extra_replay or {}))}})

    if name in CAS_INVERSE:
        if name in ('DR', 'DA'):
            s = sp.Symbol('s', positive=True)
            p = 1 / (1 + s)  # 0 < p < 1 (relative pressure)
        else:
            p = sp.Symbol('p', positive=True)
        L = m.loading(p)
        emit('inverse.pressure_of_loading', 'scalar', m.pressure(L) - p)
        # converse on reachable loadings
        if name == 'Freundlich':
            n = sp.Symbol('n', positive=True)
        else:
            u = sp.Symbol('u', positive=True)
            n = syms['n_m'] / (1 + u)  # 0 < n < n_m
        emit('inverse.loading_of_pressure', 'scalar', m.loading(m.pressure(n)) - n)
    # sign / monotone / bounded / zero / Henry for every CAS-capable forward equation
    if name in ('Freundlich', 'Toth', 'DR', 'DA', 'JensenSeaton', 'TSLangmuir'):
        if name in ('DR', 'DA'):
            s = sp.Symbol('s', positive=True)
            p = 1 / (1 + s)
            L = m.loading(p)
            dL = sp.diff(L, s) * (-(1 + s) ** 2)  # dL/dp = dL/ds * ds/dp, ds/dp = -(1+s)^2
        else:
            p = sp.Symbol('p', positive=True)
            L = m.loading(p)
            dL = sp.diff(L, p)
        for clause, expr in (('sign.loading_nonnegative', L), ('monotone.dloading_dp_nonnegative', dL)):
            e = sp.simplify(expr)
            sign = e.is_nonnegative
            if sign is None:
                sign = sp.factor(e).is_nonnegative
            if sign is None and name in ('DR', 'DA'):
                # L = n_m*exp(-A^m): positive; dL/dp = L * m*A^(m-1) * (RT/e)/p > 0 -- check the quotient dL/L
                q = sp.simplify(expr / L) if clause.startswith('monotone') else None
                sign = q.is_nonnegative if q is not None else None
            obs.append({'name': f"{base}/{clause}/symbolic", 'verdict': 'proved' if sign else ('refuted' if sign is False else 'unknown'),
                        'backend': 'sympy', 'time': 0.0, 'model': None, 'detail': f"sympy sign analysis of {str(e)[:120]}", 'pc': '',
                        'extra': {'replay': dict(replay, clause=clause)}})
        if name in SATURATION:
            bound = SATURATION[name](m.params)
            e = sp.simplify(bound - L)
            sign = e.is_nonnegative
            if sign is None:
                # 1 - L/n_m >= 0  <=>  (L/n_m) <= 1: check via the known form
                r = sp.simplify(L / bound)
                if name == 'Toth':
                    # r = Kp/(1+(Kp)^t)^(1/t) <= 1  <=>  (Kp)^t <= 1 + (Kp)^t
                    sign = True if sp.simplify(r ** syms['t'] - (syms['K'] * p) ** syms['t'] / (1 + (syms['K'] * p) ** syms['t'])) == 0 else None
                elif name in ('DR', 'DA'):
                    sign = sp.simplify(sp.log(r)).is_nonpositive
                elif name == 'TSLangmuir':
                    sign = sp.factor(sp.together(e)).is_nonnegative
            obs.append({'name': f"{base}/bounded.by_saturation_capacity/symbolic", 'verdict': 'proved' if sign else ('refuted' if sign is False else 'unknown'),
                        'backend': 'sympy', 'time': 0.0, 'model': None, 'detail': str(e)[:160], 'pc': '', 'extra': {'replay': dict(replay, clause='bounded')}})
        if name not in ('DR', 'DA'):
            z = sp.limit(L, p, 0, '+')
            emit('zero.loading_at_zero_pressure', 'limit', z)
    if name in HENRY and name not in MC_Z3_HENRY_DONE:
        p = sp.Symbol('p', positive=True)
        L = m.loading(p)
        try:
            lim = MC.with_timeout(60, lambda: sp.limit(L / p, p, 0, '+'))
            emit('henry.limit_loading_over_pressure', 'limit', lim - HENRY[name](m.params))
        except (MC.Timeout, NotImplementedError) as exc:
            obs.append({'name': f"{base}/henry.limit_loading_over_pressure/limit", 'verdict': 'unknown', 'backend': 'sympy', 'time': 0.0,
                        'model': None, 'detail': f"sympy limit: {type(exc).__name__}", 'pc': '', 'extra': {}})
    return obs, bounded


MC_Z3_HENRY_DONE = set()


def henry_block(_b):
    """Henry limits for all models that have one (sympy limit on the real loading method)"""
    import sympy as sp
    MC.use_mode('cas')
    obs, bounded = [], []
    for name in HENRY:
        base = f"{P}/{MC.MODELS[name]}.{name}"
        m, syms = MC.cas_model(name)
        p = sp.Symbol('p', positive=True)
        L = m.loading(p)
        try:
            lim = MC.with_timeout(60, lambda: sp.limit(L / p, p, 0, '+'))
            v, d = MC.cas_is_zero(lim - HENRY[name](m.params))
        except (MC.Timeout, NotImplementedError) as exc:
            v, d = 'unknown', f"sympy limit: {type(exc).__name__}"
        obs.append({'name': f"{base}/henry.limit_loading_over_pressure/limit", 'verdict': v, 'backend': 'sympy', 'time': 0.0,
                    'model': d if v == 'refuted' else None, 'detail': str(d), 'pc': '', 'extra': {'replay': {'kind': 'c10.model', 'model': name, 'clause': 'henry'}}})
    return obs, bounded


# ---------------------------------------------------------------------------------
# numerical inverses: residual closure == forward(x) - target; failure => CalculationError; returns the solver's x
# ---------------------------------------------------------------------------------

def numinv_block(name):
    st = MC.use_mode('sx')
    E = st['E']
    which = NUM_INVERSE[name]
    fwd = 'loading' if which == 'pressure' else 'pressure'
    base = f"{P}/{MC.MODELS[name]}.{name}"
    mod = st['mods'][name]
    obs = []
    # VST equations have poles (cov = 1, ...): the closure obligations are stated where the equation is defined
    eng = sx.Engine(div0='assume' if name in ('FHVST', 'WVST') else 'nan', max_paths=64)
    replay = {'kind': 'c10.numinv', 'model': name}

    def run():
        opt = stubs.OptimizeStub()
        mod.optimize = opt
        m = MC.sx_model(eng, name)
        target = eng.real('target', positive=True)
        try:
            res = getattr(m, which)(target)
            out = 'return'
        except E.CalculationError:
            out = 'CalculationError'
        except sx.Unsupported:
            raise
        except Exception as exc:
            out = f"other:{type(exc).__name__}"
        call = opt.calls[0] if opt.calls else None
        eng.prove(f"{base}/numinv.one_solver_call/{which}", len(opt.calls) == 1, extra={'replay': replay})
        if call is None:
            return
        if call['success']:
            eng.prove(f"{base}/numinv.returns_solver_x/{which}", out == 'return' and res is call['x'], extra={'replay': replay, 'observed': out})
            # closure handed to the solver, evaluated at a fresh point, is forward(x) - target (squared for minimize)
            x = eng.real('xprobe', positive=True)
            f_x = _scalar(call['fun'](x))
            direct = _scalar(getattr(m, fwd)(x)) - target
            want = direct * direct if call['kind'] == 'minimize' else direct
            if isinstance(f_x, sx.NaNValue) or isinstance(want, sx.NaNValue):
                # the forward equation is undefined at the probe (pole): both sides must be undefined together
                eng.prove(f"{base}/numinv.residual_is_forward_minus_target/{which}",
                          isinstance(f_x, sx.NaNValue) and isinstance(want, sx.NaNValue), extra={'replay': replay})
            else:
                eng.prove(f"{base}/numinv.residual_is_forward_minus_target/{which}", sx.eq(f_x, want), extra={'replay': replay})
            if call['kind'] == 'root':
                back = _scalar(getattr(m, fwd)(res))
                if not isinstance(back, sx.NaNValue):
                    eng.prove(f"{base}/numinv.forward_of_result_is_target/{which}", sx.eq(back, target), extra={'replay': replay})
        else:
            eng.prove(f"{base}/numinv.raises_on_failure/{which}", out == 'CalculationError', extra={'replay': replay, 'observed': out})
    obs += collect(eng, run, base, 'numinv')

    # the inverse has no memory: a second evaluation on the same model object hands the solver the same kind of start point
    # as a first evaluation on a fresh object, and the model object is not modified by an evaluation
    eng2 = sx.Engine(div0='assume' if name in ('FHVST', 'WVST') else 'nan', max_paths=64)

    def run2():
        opt = stubs.OptimizeStub(outcomes=('ok',))
        mod.optimize = opt
        m = MC.sx_model(eng2, name)
        before = dict(vars(m))
        t1, t2 = eng2.real('target1', positive=True), eng2.real('target2', positive=True)
        try:
            getattr(m, which)(t1)
            getattr(m, which)(t2)
            fresh = MC.sx_model(eng2, name)
            getattr(fresh, which)(t2)
        except E.CalculationError:
            return
        x_ = {'replay': dict(replay, kind='c10.numinv_history')}
        after = dict(vars(m))
        same = set(before) == set(after) and all(after[k] is before[k] or (not isinstance(after[k], (sx.SymReal, sx.SymBool)) and not isinstance(before[k], (sx.SymReal, sx.SymBool)) and _plain_eq(after[k], before[k])) for k in before)
        eng2.prove(f"{base}/numinv.model_object_unchanged_by_evaluation/{which}", same,
                   extra=dict(x_, observed=str(sorted(set(after) ^ set(before)) or [k for k in before if after.get(k) is not before[k]])[:200]))
        if len(opt.calls) == 3:
            a, b = opt.calls[1]['x0'], opt.calls[2]['x0']
            fa, fb = numpy.asarray(a, dtype=object).ravel(), numpy.asarray(b, dtype=object).ravel()
            eng2.prove(f"{base}/numinv.start_point_independent_of_earlier_evaluations/{which}", len(fa) == len(fb) and sx.And(*[sx.eq(u, v) for u, v in zip(fa, fb)]), extra=x_)
    obs += collect(eng2, run2, base, 'numinv_history')
    return obs


def _plain_eq(a, b):
    try:
        r = a == b
        return bool(r.all()) if hasattr(r, 'all') else bool(r)
    except Exception:
        return False


def purity_block(_b):
    """static frame clause: loading / pressure / spreading_pressure of every model write no attribute of the model object"""
    import importlib
    from pgv import framecheck as FC
    from pgv.util import static_ob
    an = FC.Analyzer()
    for name, modname in MC.MODELS.items():
        an.add_module(importlib.import_module(f"pygaps.modelling.{modname}"))
    an.add_module(importlib.import_module('pygaps.modelling.base_model'))
    an.analyze_all()
    obs = []
    for qual, sm in sorted(an.summaries.items()):
        node, mname, cls = an.funcs[qual]
        fname = qual.split('.')[-1]
        if cls is None or fname not in ('loading', 'pressure', 'spreading_pressure', 'toth_correction'):
            continue
        fields = sorted(sm.self_fields)
        gw = list(sm.globals_written)
        obs.append(static_ob(f"{P}/{mname.replace('pygaps.modelling.', '')}.{cls}.{fname}/modifies.nothing/static", not fields and not gw and not sm.writes.get('self'),
                             f"self fields {fields}; module state {gw}; {sm.writes.get('self')}"))
    return obs


def wrappers_block(_b):
    """ModelIsotherm.loading_at / pressure_at give the bare model's values after unit conversion (C03 accessor contract)"""
    from pgv.checks import c03
    cfgs = [c for c in c03.at_cfgs('quick') if c[1] == 'model' and not (c[4] in ('fraction', 'percent') and c[10] != (None, None))
            and not (c[9][0] in ('fraction', 'percent') and c[10] != (None, None))]
    obs = c03.at_block(cfgs)
    for o in obs:
        o['name'] = o['name'].replace('C03/', f'{P}/', 1)
        if o.get('extra', {}).get('replay'):
            o['extra']['replay'] = dict(o['extra']['replay'])
    return obs


def _dispatch(job):
    kind, arg = job
    if kind == 'z3':
        return ('obs', z3_block(arg), [])
    if kind == 'cas':
        o, b = cas_block(arg)
        return ('obs', o, b)
    if kind == 'henry':
        o, b = henry_block(arg)
        return ('obs', o, b)
    if kind == 'numinv':
        return ('obs', numinv_block(arg), [])
    if kind == 'purity':
        return ('obs', purity_block(arg), [])
    if kind == 'wrap':
        return ('obs', wrappers_block(arg), [])


def _dispatch_flat(job):
    k, o, b = _dispatch(job)
    for x in b:
        o.append({'__bounded__': x})
    return o


def run(rep):
    rep.level = 'proof'
    rep.fn(*[f"pygaps.modelling.{mod}.{name}.loading/pressure" for name, mod in MC.MODELS.items()],
           'pygaps.core.modelisotherm.ModelIsotherm.loading_at/pressure_at')
    rep.assume('real arithmetic for floats; float literals lifted to the decimals they spell',
               'numpy log/exp/sqrt/power/isnan/nan_to_num contract (pgv.npproxy); the undefined result of x/0 is an unknown value',
               'scipy.optimize.root: success => f(x) = 0; minimize: success => x returned (nothing else); failure => nothing',
               'sympy simplification/limit/sign analysis is trusted (rewriting system, not kernel-checked)',
               'parameters strictly inside the declared bounds (open intervals); validity ranges as in the property quantifier')
    rep.trust('CPython 3.12', 'z3 5.1.0 (nlsat)', 'sympy 1.14', 'pgv.sx', 'pgv.lift', 'pgv.npproxy')
    jobs = [('z3', n) for n in Z3_MODELS] + [('cas', n) for n in ('Freundlich', 'Toth', 'DR', 'DA', 'JensenSeaton', 'TSLangmuir')] + \
        [('henry', None)] + [('numinv', n) for n in NUM_INVERSE] + [('wrap', None), ('purity', None)]
    obs, crashes = par.pmap(_dispatch_flat, jobs)
    for o in obs:
        if '__bounded__' in o:
            b = o['__bounded__']
            rep.add_bounded(b['name'], b['ok'], b['detail'])
        else:
            rep.add(o)
    if crashes:
        rep.crash = crashes[0]
    from pgv.replayers import c10 as R10
    for res in R10.model_isotherm_fraction_cases():
        rep.add_bounded(f"{P}/bounded.{res['name']}", res['ok'], res['detail'], replay={'kind': 'c10.fraction', 'name': res['name']})
    for res in R10.order_cases():
        rep.add_bounded(f"{P}/bounded.{res['name']}", res['ok'], res['detail'], replay={'kind': 'c10.order_case', 'name': res['name']})
    for res in R10.key_order_cases():
        rep.add_bounded(f"{P}/bounded.{res['name']}", res['ok'], res['detail'], replay={'kind': 'c10.key_order', 'name': res['name']})
    for res in R10.long_array_cases():
        rep.add_bounded(f"{P}/bounded.{res['name']}", res['ok'], res['detail'], replay={'kind': 'c10.long', 'name': res['name']})
    for res in R10.point_generation_cases():
        rep.add_bounded(f"{P}/bounded.{res['name']}", res['ok'], res['detail'], replay={'kind': 'c10.points', 'name': res['name']})
    for res in R10.zero_point_cases():
        rep.add_bounded(f"{P}/bounded.{res['name']}", res['ok'], res['detail'], replay={'kind': 'c10.zero', 'name': res['name']})
    for res in R10.argument_form_cases():
        rep.add_bounded(f"{P}/bounded.{res['name']}", res['ok'], res['detail'], replay={'kind': 'c10.form', 'name': res['name']})
    rep.notes.append('closed forms decided for all parameters and pressures; numerical inverses decided at the call-site/contract level')
