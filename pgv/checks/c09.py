"""C09 -- database operations are atomic under statement failures and process death.

Every public write operation of pygaps.parsing.sqlite runs on a real database file behind the recording,
fault-injecting sqlite3 proxy (pgv.sqlfault): for every statement position k and every fault kind
{IntegrityError, InterfaceError, OperationalError raised by statement k; process death before / after statement k;
OperationalError / death before / after commit} the durable content seen by an independent connection
(after sqlite's own crash recovery) must be either the pre-state or the complete effect, the latter only if the call
returned or died after commit; the transaction protocol (one connection, one cursor, one commit after the body,
no commit after a failure, nested calls share the cursor) is checked on every trace; the operation must be
repeatable afterwards.  The space {operation} x {k} x {kind} is enumerated exhaustively.
"""
from __future__ import annotations

import os
import shutil
import tempfile

from pgv import par, sqlfault as SF
from pgv.util import static_ob

P = 'C09'
KINDS = ['IntegrityError', 'InterfaceError', 'OperationalError', 'die_before', 'die_after']
COMMIT_KINDS = ['OperationalError', 'die_before', 'die_after']


def _mk_objects():
    import pandas
    import pygaps
    pygaps.logger.disabled = True
    ads = pygaps.Adsorbate('pgv_ads', formula='X_{2}', molar_mass=10.0, alias=['pgv_a1', 'pgv_a2'])
    ads2 = pygaps.Adsorbate('pgv_ads', formula='Y', molar_mass=11.0)
    mat = pygaps.Material('pgv_mat', density=2.0, batch='b1')
    mat2 = pygaps.Material('pgv_mat', density=3.0)
    common = dict(material='pgv_mat', adsorbate='pgv_ads', temperature=300, pressure_mode='absolute', pressure_unit='bar',
                  loading_basis='molar', loading_unit='mmol', material_basis='mass', material_unit='g', temperature_unit='K',
                  comment='hello', flag=True)
    df = pandas.DataFrame({'pressure': [0.1, 0.2, 0.3, 0.2], 'loading': [1.0, 2.0, 3.0, 2.5], 'enthalpy': [5.0, 4.0, 3.0, 3.5]})
    point = pygaps.PointIsotherm(isotherm_data=df, pressure_key='pressure', loading_key='loading', **common)
    import pygaps.modelling as pgm
    m = pgm.get_isotherm_model('Henry')
    m.params = {'K': 2.0}
    m.pressure_range = (0.0, 1.0)
    m.loading_range = (0.0, 2.0)
    m.rmse = 0.0
    model = pygaps.ModelIsotherm(model=m, **common)
    base = pygaps.core.baseisotherm.BaseIsotherm(**common)
    return dict(ads=ads, ads2=ads2, mat=mat, mat2=mat2, point=point, model=model, base=base)


def scenarios():
    """(name, setup(S, db, obj), operation(S, db, obj))  -- S = pygaps.parsing.sqlite"""
    def up_all(S, db, o):
        S.adsorbate_to_db(o['ads'], db_path=db, verbose=False)
        S.material_to_db(o['mat'], db_path=db, verbose=False)

    def up_iso(S, db, o):
        up_all(S, db, o)
        S.isotherm_to_db(o['point'], db_path=db, verbose=False, autoinsert_material=False, autoinsert_adsorbate=False)

    none = lambda S, db, o: None
    return [
        ('adsorbate_to_db', none, lambda S, db, o: S.adsorbate_to_db(o['ads'], db_path=db, verbose=False)),
        ('adsorbate_to_db.overwrite', up_all, lambda S, db, o: S.adsorbate_to_db(o['ads2'], db_path=db, overwrite=True, verbose=False)),
        ('adsorbate_delete_db', up_all, lambda S, db, o: S.adsorbate_delete_db(o['ads'], db_path=db, verbose=False)),
        ('material_to_db', none, lambda S, db, o: S.material_to_db(o['mat'], db_path=db, verbose=False)),
        ('material_to_db.overwrite', up_all, lambda S, db, o: S.material_to_db(o['mat2'], db_path=db, overwrite=True, verbose=False)),
        ('material_delete_db', up_all, lambda S, db, o: S.material_delete_db(o['mat'], db_path=db, verbose=False)),
        ('isotherm_to_db.point.autoinsert', none, lambda S, db, o: S.isotherm_to_db(o['point'], db_path=db, verbose=False)),
        ('isotherm_to_db.point', up_all, lambda S, db, o: S.isotherm_to_db(o['point'], db_path=db, verbose=False, autoinsert_material=False, autoinsert_adsorbate=False)),
        ('isotherm_to_db.model', up_all, lambda S, db, o: S.isotherm_to_db(o['model'], db_path=db, verbose=False, autoinsert_material=False, autoinsert_adsorbate=False)),
        ('isotherm_to_db.base', up_all, lambda S, db, o: S.isotherm_to_db(o['base'], db_path=db, verbose=False, autoinsert_material=False, autoinsert_adsorbate=False)),
        ('isotherm_delete_db', up_iso, lambda S, db, o: S.isotherm_delete_db(o['point'], db_path=db, verbose=False)),
        ('adsorbate_property_type_to_db', none, lambda S, db, o: S.adsorbate_property_type_to_db({'type': 'pgv_t', 'unit': 'u'}, db_path=db, verbose=False)),
        ('adsorbate_property_type_delete_db', lambda S, db, o: S.adsorbate_property_type_to_db({'type': 'pgv_t'}, db_path=db, verbose=False),
         lambda S, db, o: S.adsorbate_property_type_delete_db('pgv_t', db_path=db, verbose=False)),
        ('material_property_type_to_db', none, lambda S, db, o: S.material_property_type_to_db({'type': 'pgv_t', 'unit': 'u'}, db_path=db, verbose=False)),
        ('material_property_type_delete_db', lambda S, db, o: S.material_property_type_to_db({'type': 'pgv_t'}, db_path=db, verbose=False),
         lambda S, db, o: S.material_property_type_delete_db('pgv_t', db_path=db, verbose=False)),
        ('isotherm_type_to_db', none, lambda S, db, o: S.isotherm_type_to_db({'type': 'pgv_kind'}, db_path=db, verbose=False)),
        ('isotherm_type_delete_db', lambda S, db, o: S.isotherm_type_to_db({'type': 'pgv_kind'}, db_path=db, verbose=False),
         lambda S, db, o: S.isotherm_type_delete_db('pgv_kind', db_path=db, verbose=False)),
        # isotherm_property_type_to_db / _delete_db are not enumerated: the schema created by sqlite_db_pragmas has no
        # "isotherm_properties_type" table, so these two operations fail with OperationalError before writing anything
        # (observation recorded in DESIGN.md; not an atomicity question)
    ]


def make_template(tmp):
    import pygaps
    import pygaps.parsing.sqlite as S
    from pygaps.utilities.sqlite_db_pragmas import PRAGMAS
    from pygaps.utilities.sqlite_utilities import db_execute_general
    path = os.path.join(tmp, 'template.db')
    for pragma in PRAGMAS:
        db_execute_general(pragma, path)
    for t in ('isotherm', 'pointisotherm', 'modelisotherm'):
        S.isotherm_type_to_db({'type': t}, db_path=path, verbose=False)
    # some unrelated prior content that must stay intact
    S.adsorbate_to_db(pygaps.Adsorbate('pgv_prior_ads', molar_mass=1.0), db_path=path, verbose=False)
    S.material_to_db(pygaps.Material('pgv_prior_mat', density=1.0), db_path=path, verbose=False)
    return path


def _registries():
    import pygaps
    return list(pygaps.ADSORBATE_LIST), list(pygaps.MATERIAL_LIST)


def _restore(reg):
    import pygaps
    pygaps.ADSORBATE_LIST[:] = reg[0]
    pygaps.MATERIAL_LIST[:] = reg[1]


def run_scenario(idx):
    import pygaps
    import pygaps.parsing.sqlite as S
    pygaps.logger.disabled = True
    name, setup, op = scenarios()[idx]
    obs = []
    base = f"{P}/sqlite.{name.split('.')[0]}"
    real_sqlite3 = S.sqlite3
    tmp = tempfile.mkdtemp(prefix='pgv-c09-')
    samples = []
    try:
        tpl = make_template(tmp)
        reg0 = _registries()
        o = _mk_objects()
        pre_db = os.path.join(tmp, 'pre.db')
        shutil.copyfile(tpl, pre_db)
        setup(S, pre_db, o)
        reg_pre = _registries()
        pre = SF.dump(pre_db)

        def attempt(plan):
            _restore(reg_pre)
            db = os.path.join(tmp, 'run.db')
            for suf in ('', '-journal', '-wal', '-shm'):
                if os.path.exists(db + suf):
                    os.remove(db + suf)
            shutil.copyfile(pre_db, db)
            crash = os.path.join(tmp, 'crash')
            shutil.rmtree(crash, ignore_errors=True)
            os.makedirs(crash)
            rec = SF.Recorder(crash)
            S.sqlite3 = SF.Sqlite3Proxy(rec, plan)
            try:
                try:
                    op(S, db, o)
                    out = 'return'
                except SF.Die:
                    out = 'died'
                except Exception as exc:
                    out = f"raise:{type(exc).__name__}"
            finally:
                S.sqlite3 = real_sqlite3
                for c in rec.connections:
                    try:
                        c._conn.close()
                    except Exception:
                        pass
            state = SF.dump(rec.crash_copy if rec.dead else db)
            return out, rec, state, db

        out0, rec0, post, _db = attempt(SF.Plan())
        n = rec0.n_exec
        cfg0 = f"{name}|no-fault"
        obs.append(static_ob(f"{base}/txn.fault_free_run_returns_and_changes_the_store/{cfg0}", out0 == 'return' and post != pre,
                             f"outcome {out0}, {n} statements", backend='fault-enum'))
        bad = SF.check_protocol(rec0.events)
        obs.append(static_ob(f"{base}/txn.protocol_one_connection_one_commit_after_body/{cfg0}", not bad and ('commit',) in rec0.events, '; '.join(bad), backend='fault-enum'))
        samples.append({'operation': name, 'statements': n, 'trace': [e[0] + (f"#{e[1]}" if len(e) > 1 and isinstance(e[1], int) else '') for e in rec0.events][:30]})
        plans = [SF.Plan(k, kind) for k in range(n) for kind in KINDS] + [SF.Plan('commit', kind) for kind in COMMIT_KINDS]
        for plan in plans:
            cfg = f"{name}|{plan!r}"
            replay = {'kind': 'c09.fault', 'scenario': idx, 'at': plan.at, 'fault': plan.kind}
            out, rec, state, db = attempt(plan)
            committed = ('commit',) in rec.events
            if state == pre:
                atomic = True
            elif state == post:
                atomic = out == 'return' or (out == 'died' and committed)
            else:
                atomic = False
            diff = ''
            if not atomic:
                diff = '; '.join(f"{t}: {len(pre[t] or [])}->{len(state[t] or [])} rows (complete: {len(post[t] or [])})" for t in SF.TABLES if state[t] != pre[t])
            obs.append(static_ob(f"{base}/atomic.all_or_nothing/{cfg}", atomic, f"outcome {out}; {diff}", backend='fault-enum', replay=replay))
            obs.append(static_ob(f"{base}/atomic.complete_effect_only_after_commit/{cfg}", not (state == post and state != pre) or committed,
                                 f"outcome {out}", backend='fault-enum', replay=replay))
            bad = SF.check_protocol(rec.events)
            obs.append(static_ob(f"{base}/txn.protocol/{cfg}", not bad, '; '.join(bad), backend='fault-enum', replay=replay))
            if plan.kind in ('IntegrityError', 'InterfaceError') and plan.at != 'commit':
                # a rejected statement must surface as a pyGAPS parsing error unless the operation deliberately tolerates it
                obs.append(static_ob(f"{base}/raises.ParsingError_or_tolerated/{cfg}", out in ('raise:ParsingError', 'return'), out, backend='fault-enum', replay=replay))
            # repeatability: from the durable state after the fault the same operation completes
            if state == pre and not rec.dead:
                S.sqlite3 = real_sqlite3
                _restore(reg_pre)
                try:
                    op(S, db, o)
                    again = 'return'
                except Exception as exc:
                    again = f"raise:{type(exc).__name__}: {exc}"[:120]
                ok = again == 'return' and SF.dump(db) == post
                obs.append(static_ob(f"{base}/atomic.operation_repeatable_after_failure/{cfg}", ok, again, backend='fault-enum', replay=replay))
        _restore(reg0)
    finally:
        S.sqlite3 = real_sqlite3
        shutil.rmtree(tmp, ignore_errors=True)
    return obs + [{'__sample__': s} for s in samples]


def static_block(_b):
    """bodies: every statement through the cursor received; no commit / connect / executescript inside a body;
    every nested *_db call passes cursor=cursor"""
    import ast
    import inspect
    import pygaps.parsing.sqlite as S
    obs = []
    tree = ast.parse(inspect.getsource(S))
    public = [n for n in tree.body if isinstance(n, ast.FunctionDef) and any(
        (isinstance(d, ast.Name) and d.id == 'with_connection') for d in n.decorator_list)]
    names = {n.name for n in public}
    for fn in public:
        bad = []
        for node in ast.walk(fn):
            if isinstance(node, ast.Call):
                f = node.func
                if isinstance(f, ast.Attribute) and f.attr in ('commit', 'rollback', 'executescript', 'connect'):
                    bad.append(f"line {node.lineno}: {ast.unparse(f)}()")
                if isinstance(f, ast.Name) and f.id in names:
                    kws = {k.arg: k.value for k in node.keywords}
                    if not ('cursor' in kws and isinstance(kws['cursor'], ast.Name) and kws['cursor'].id == 'cursor'):
                        bad.append(f"line {node.lineno}: nested call {f.id}(...) without cursor=cursor")
        obs.append(static_ob(f"{P}/sqlite.{fn.name}/txn.body_uses_received_cursor_only/static", not bad, '; '.join(bad)))
    # wrapper: commit in the else branch of the try, rollback in handlers, close in finally
    w = [n for n in tree.body if isinstance(n, ast.FunctionDef) and n.name == 'with_connection'][0]
    src = ast.unparse(w)
    tr = [n for n in ast.walk(w) if isinstance(n, ast.Try)]
    ok = len(tr) == 1 and any('commit' in ast.unparse(s) for s in tr[0].orelse) and any('close' in ast.unparse(s) for s in tr[0].finalbody) \
        and not any('commit' in ast.unparse(s) for s in tr[0].finalbody + tr[0].body) and all('commit' not in ast.unparse(h) for h in tr[0].handlers)
    obs.append(static_ob(f"{P}/sqlite.with_connection/txn.commit_only_in_else_close_in_finally/static", ok, ''))
    return obs


def _dispatch(job):
    kind, arg = job
    if kind == 'scenario':
        return run_scenario(arg)
    return static_block(arg)


def run(rep):
    rep.level = 'fault_enumeration'
    rep.fn('pygaps.parsing.sqlite.with_connection', *[f"pygaps.parsing.sqlite.{n.split('.')[0]}" for n, _s, _o in scenarios()])
    rep.assume("sqlite's rollback journal makes commit atomic and discards uncommitted work on close or process death (real sqlite3 "
               "library performs the recovery on the copied files)",
               "Python's sqlite3 opens a transaction implicitly before DML (legacy isolation level, as used by pygaps)",
               'process death is emulated by copying database + journal at the instant of death and making every later call a no-op; '
               'the thorough tier cross-checks with real os._exit in subprocesses',
               'one fault per operation (single-fault hypothesis)')
    rep.trust('CPython 3.12', 'sqlite3 library', 'pgv.sqlfault proxy')
    jobs = [('scenario', i) for i in range(len(scenarios()))] + [('static', None)]
    obs, crashes = par.pmap(_dispatch, jobs)
    samples = [o['__sample__'] for o in obs if '__sample__' in o]
    obs = [o for o in obs if '__sample__' not in o]
    rep.extend(obs)
    if crashes:
        rep.crash = crashes[0]
    from pgv.replayers import c09 as R
    res = R.big_transaction_case()
    rep.add_bounded(f"{P}/bounded.real_process_exit/{res['name']}", res['ok'], res['detail'], replay={'kind': 'c09.big'})
    if rep.tier == 'thorough':
        for res in R.real_exit_cases():
            rep.add_bounded(f"{P}/bounded.real_process_exit/{res['name']}", res['ok'], res['detail'])

    keys = set(o['name'].split('/')[-1] for o in obs)
    rep.extra_cov.update({'exhaustive': True, 'evaluations': len(obs), 'distinct_nontrivial': len(keys),
                          'rule': 'every public write operation x every statement position k x {IntegrityError, InterfaceError, OperationalError, '
                                  'death before k, death after k} + {OperationalError, death before, death after} at commit; distinct = distinct '
                                  '(operation, position, kind); non-trivial = the fault-free run changes the store (checked)',
                          'samples': samples[:6]})
    rep.notes.append('fault enumeration on the real code with the real sqlite3 library; protocol obligations checked on every trace')
