"""C20 -- shipped adsorbates resolve uniquely; their thermodynamic data are consistent.

(1) registry: exhaustive evaluation over the finite shipped data (adsorbates.json and default.db): alias sets
    pairwise disjoint, both sources equal, every name / alias in four letter-case variants resolves through the real
    Adsorbate.find / __eq__ to exactly that adsorbate, and an isotherm created with the string is linked to it;
    adsorbates_from_db groups repeated alias rows into a list.
(2) getter contracts (shared with C01): unit argument honoured on the calculated and the dictionary path; when the
    backend fails the user value is returned, otherwise CalculationError -- on every exception path (SX with a
    failing CoolProp stub).
(3) bounded: CoolProp physics over the backend-linked fluids (rho = rhobar M, p_t < p_sat < p_c, p_sat increasing,
    dh_vap > 0, unit argument).
"""
from __future__ import annotations

import json
import os
import sqlite3

from pgv import par
from pgv.util import static_ob

P = 'C20'


def _variants(s):
    out = {s, s.lower(), s.upper(), s.title(), s.swapcase()}
    return sorted(out)


def registry_block(_b):
    import pygaps
    import pygaps.core.baseisotherm as B
    from pygaps.core.adsorbate import Adsorbate
    from pygaps.utilities.exceptions import ParameterError
    pygaps.logger.disabled = True
    obs = []
    src = os.path.dirname(pygaps.data.__file__)
    js = json.load(open(os.path.join(src, 'adsorbates.json'), encoding='utf8'))
    # JSON source: alias sets (incl. the name) lower-cased, pairwise disjoint
    sets = {}
    for a in js:
        al = a.get('alias') or []
        al = [al] if isinstance(al, str) else list(al)
        sets[a['name']] = set(x.lower() for x in al) | {a['name'].lower()}
    owners = {}
    for n, s in sets.items():
        for x in s:
            owners.setdefault(x, []).append(n)
    clashes = {k: v for k, v in owners.items() if len(v) > 1}
    obs.append(static_ob(f"{P}/data.adsorbates_json/registry.alias_sets_pairwise_disjoint/exhaustive", not clashes,
                         f"{len(js)} adsorbates, {len(owners)} names+aliases; clashes: {clashes}", backend='eval',
                         replay={'kind': 'c20.registry'}))
    names = [a['name'] for a in js]
    obs.append(static_ob(f"{P}/data.adsorbates_json/registry.names_unique/exhaustive", len(set(n.lower() for n in names)) == len(names), '', backend='eval'))
    # packaged database = JSON source
    con = sqlite3.connect(os.path.join(src, 'default.db'))
    rows = con.execute("select a.name, p.type, p.value from adsorbates a left join adsorbate_properties p on a.id = p.ads_id").fetchall()
    con.close()
    dbsets = {}
    for n, t, v in rows:
        dbsets.setdefault(n, {n.lower()})
        if t == 'alias':
            dbsets[n].add(str(v).lower())
    obs.append(static_ob(f"{P}/data.default_db/registry.same_adsorbates_and_aliases_as_json/exhaustive", dbsets == sets,
                         f"only in db: {sorted(set(dbsets) - set(sets))[:5]}, only in json: {sorted(set(sets) - set(dbsets))[:5]}, "
                         f"alias differences: {[n for n in sets if n in dbsets and sets[n] != dbsets[n]][:5]}", backend='eval',
                         replay={'kind': 'c20.registry'}))
    # loaded registry (what the library uses) -- adsorbates_from_db groups alias rows into lists
    loaded = {a.name: set(a.alias) for a in pygaps.ADSORBATE_LIST if a.name in sets}
    obs.append(static_ob(f"{P}/sqlite.adsorbates_from_db/registry.alias_rows_grouped_into_list/exhaustive", loaded == sets,
                         str([n for n in sets if loaded.get(n) != sets[n]][:5]), backend='eval', replay={'kind': 'c20.registry'}))
    obs.append(static_ob(f"{P}/core.adsorbate.Adsorbate.__init__/registry.aliases_lower_case/exhaustive",
                         all(x == x.lower() for a in pygaps.ADSORBATE_LIST for x in a.alias), '', backend='eval'))
    # every name / alias in every case variant designates exactly that adsorbate (real find / __eq__), and links isotherms
    bad_find, bad_unique, bad_link, n_q = [], [], [], 0
    by_name = {a.name: a for a in pygaps.ADSORBATE_LIST}
    for n, s in sets.items():
        for x in sorted(s):
            for v in _variants(x):
                n_q += 1
                try:
                    got = Adsorbate.find(v)
                except ParameterError:
                    got = None
                except Exception as exc:
                    got = f"{type(exc).__name__}"
                if got is not by_name.get(n):
                    bad_find.append((v, n, getattr(got, 'name', got)))
                try:
                    matches = [a.name for a in pygaps.ADSORBATE_LIST if a == v]
                except Exception as exc:
                    matches = [f"{type(exc).__name__}"]
                if matches != [n]:
                    bad_unique.append((v, matches))
            try:
                iso = B.BaseIsotherm(material='pgv_m', adsorbate=x.upper(), temperature=300, pressure_mode='absolute', pressure_unit='bar',
                                     loading_basis='molar', loading_unit='mmol', material_basis='mass', material_unit='g', temperature_unit='K')
                if iso.adsorbate is not by_name.get(n):
                    bad_link.append((x, n, iso.adsorbate.name))
            except Exception as exc:
                bad_link.append((x, n, f"{type(exc).__name__}"))
    obs.append(static_ob(f"{P}/core.adsorbate.Adsorbate.find/registry.every_name_and_alias_any_case_resolves_to_its_adsorbate/exhaustive",
                         not bad_find, f"{n_q} look-ups; failures: {bad_find[:5]}", backend='eval', replay={'kind': 'c20.registry'}))
    obs.append(static_ob(f"{P}/core.adsorbate.Adsorbate.__eq__/registry.every_name_and_alias_designates_exactly_one/exhaustive",
                         not bad_unique, f"failures: {bad_unique[:5]}", backend='eval', replay={'kind': 'c20.registry'}))
    obs.append(static_ob(f"{P}/core.baseisotherm.BaseIsotherm.adsorbate/registry.isotherm_linked_to_resolved_adsorbate/exhaustive",
                         not bad_link, f"failures: {bad_link[:5]}", backend='eval', replay={'kind': 'c20.registry'}))
    # unknown strings are not resolved to anything
    for bogus in ('pgv_not_an_adsorbate', '', 'nitrogen2'):
        try:
            Adsorbate.find(bogus)
            out = 'return'
        except ParameterError:
            out = 'ParameterError'
        except Exception as exc:
            out = type(exc).__name__
        obs.append(static_ob(f"{P}/core.adsorbate.Adsorbate.find/raises.ParameterError_unknown_name/{bogus or 'empty'}", out == 'ParameterError', out, backend='eval'))
    # the packaged database is written and read through parsing.sqlite: storing an adsorbate (again) leaves the in-memory
    # adsorbate -- its alias list in particular -- and the resolution of every name / alias variant as they were
    import shutil
    import tempfile
    import pygaps.parsing.sqlite as SQ
    from pgv.checks import c09
    tmp = tempfile.mkdtemp(prefix='pgv-c20-')
    reg0 = c09._registries()
    try:
        db = os.path.join(tmp, 'copy.db')
        shutil.copyfile(os.path.join(src, 'default.db'), db)
        bad_store = []
        for nm in ('nitrogen', 'argon', 'carbon dioxide', 'water', 'n-butane'):
            ads = Adsorbate.find(nm)
            before = (sorted(ads.alias), {k: (sorted(v) if isinstance(v, list) else v) for k, v in ads.to_dict().items()})
            try:
                SQ.adsorbate_to_db(ads, db_path=db, overwrite=True, verbose=False)
            except Exception as exc:
                bad_store.append((nm, f"store refused: {type(exc).__name__}"))
                continue
            after = (sorted(ads.alias), {k: (sorted(v) if isinstance(v, list) else v) for k, v in ads.to_dict().items()})
            if after != before:
                bad_store.append((nm, f"aliases {before[0]} -> {after[0]}" if after[0] != before[0] else 'properties changed'))
            for x in sets[ads.name]:
                for v in _variants(x):
                    try:
                        if Adsorbate.find(v) is not ads:
                            bad_store.append((nm, f"find({v!r}) is another object"))
                    except ParameterError:
                        bad_store.append((nm, f"find({v!r}) no longer resolves"))
            back = [a for a in SQ.adsorbates_from_db(db_path=db, verbose=False) if a.name == ads.name]
            if len(back) != 1 or set(x.lower() for x in back[0].alias) != set(x.lower() for x in before[0]):
                bad_store.append((nm, f"stored copy has aliases {sorted(back[0].alias) if back else None}"))
        obs.append(static_ob(f"{P}/parsing.sqlite.adsorbate_to_db/registry.storing_leaves_adsorbate_and_resolution_unchanged/5_shipped_adsorbates", not bad_store,
                             str(bad_store[:4]), backend='eval', replay={'kind': 'c20.store'}))
    finally:
        c09._restore(reg0)
        shutil.rmtree(tmp, ignore_errors=True)
    # str.lower on the shipped data: ASCII only (the case lemma)
    non_ascii = [x for s in sets.values() for x in s if not x.isascii()]
    obs.append(static_ob(f"{P}/data.adsorbates_json/registry.names_and_aliases_ascii/exhaustive", not non_ascii, str(non_ascii[:5]), backend='eval'))
    return obs


def _dispatch(job):
    kind, arg = job
    if kind == 'registry':
        return registry_block(arg)
    from pgv.checks import adsorbate_getters
    return adsorbate_getters.dispatch((kind, arg))


def run(rep):
    rep.level = 'proof'
    rep.fn('pygaps.core.adsorbate.Adsorbate.__init__ / __eq__ / find', 'pygaps.core.baseisotherm.BaseIsotherm.adsorbate (setter)',
           'pygaps.parsing.sqlite.adsorbates_from_db', 'pygaps.data.load_data', 'shipped data: adsorbates.json, default.db')
    rep.assume('the registry obligations are exhaustive evaluations over the finite shipped data with the real functions (no abstraction)',
               'case variants: as given, lower, upper, title, swapcase; str.lower on ASCII data (checked)',
               'CoolProp AbstractState contract for the getter obligations (stub); real CoolProp physics is bounded only')
    rep.trust('CPython 3.12', 'z3 5.1.0', 'pgv.sx', 'sqlite3 (reading default.db)')
    from pgv.checks import adsorbate_getters
    jobs = [('registry', None)] + adsorbate_getters.jobs(P, which=('getters',))
    obs, crashes = par.pmap(_dispatch, jobs)
    rep.extend(obs)
    if crashes:
        rep.crash = crashes[0]
    from pgv.replayers import c20 as R
    for res in R.physics_cases(rep.seed, thorough=rep.tier == 'thorough'):
        rep.add_bounded(f"{P}/bounded.coolprop/{res['name']}", res['ok'], res['detail'], replay={'kind': 'c20.physics', 'name': res['name']})
    for res in R.stored_constant_cases():
        rep.add_bounded(f"{P}/bounded.{res['name']}", res['ok'], res['detail'], replay={'kind': 'c20.stored'})
    rep.extra_cov['exhaustive'] = True
