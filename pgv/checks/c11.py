"""C11 -- spreading pressure equals the integral of loading over ln p.

Analytic models (CAS on the real methods): p * dPi/dp == loading(p) and Pi(0+) == 0, which with the
fundamental theorem of calculus (stated lemma) gives Pi(p) = int_0^p n/p' dp', additivity and
monotonicity where loading >= 0.  quad-based models: the call is quad(f, 0, p)[0] with
f(x) == loading(x)/x (closure check).  Point isotherms (SX, n <= 4 points): result == Henry segment +
exact segment integrals of the piecewise-linear interpolant; unit arguments.  ModelIsotherm: the
argument reaches the model converted by the C01 factor.
"""
from __future__ import annotations

import itertools

import numpy

from pgv import isostub as I, npproxy, par, spec_si as S, stubs, sx
from pgv.checks import models_common as MC
from pgv.util import collect, static_ob

P = 'C11'
ANALYTIC = ['Henry', 'Langmuir', 'DSLangmuir', 'TSLangmuir', 'Quadratic', 'BET', 'GAB', 'TemkinApprox', 'Freundlich']
QUAD = ['Toth', 'JensenSeaton', 'DR', 'DA']


def analytic_block(name):
    import sympy as sp
    MC.use_mode('cas')
    obs, bounded = [], []
    base = f"{P}/{MC.MODELS[name]}.{name}.spreading_pressure"
    m, syms = MC.cas_model(name)
    replay = {'kind': 'c10.model', 'model': name}
    if name in ('BET', 'GAB'):
        # validity range below the pole: N p < 1  (p = 1/(N (1+s)))
        s_ = sp.Symbol('s', positive=True)
        pole = m.params['N'] if name == 'BET' else m.params['K']
        p = 1 / (pole * (1 + s_))
        Pi = m.spreading_pressure(p)
        dPi_dp = sp.diff(Pi, s_) / sp.diff(p, s_)
        var, lim_at = s_, sp.oo
    else:
        p = sp.Symbol('p', positive=True)
        Pi = m.spreading_pressure(p)
        dPi_dp = sp.diff(Pi, p)
        var, lim_at = p, 0
    L = m.loading(p)
    v, d = MC.cas_is_zero(p * dPi_dp - L)
    nm = f"{base}/spreading.p_times_derivative_is_loading/symbolic"
    if v == 'unknown' and 'vanishes' in str(d):
        bounded.append({'name': nm, 'ok': True, 'detail': str(d)})
    else:
        obs.append({'name': nm, 'verdict': v, 'backend': 'sympy' if v == 'proved' else 'sympy+mpmath', 'time': 0.0,
                    'model': d if v == 'refuted' else None, 'detail': str(d), 'pc': '', 'extra': {'replay': dict(replay, clause='spreading.derivative')}})
    try:
        lim = MC.with_timeout(60, lambda: sp.limit(Pi, var, lim_at, '+' if lim_at == 0 else '-'))
        v, d = MC.cas_is_zero(lim)
        if v == 'refuted':
            d = dict(d or {}, limit=str(sp.simplify(lim)))
    except (MC.Timeout, NotImplementedError) as exc:
        v, d = 'unknown', f"sympy limit: {type(exc).__name__}"
    obs.append({'name': f"{base}/spreading.limit_zero_pressure_is_zero/limit", 'verdict': v, 'backend': 'sympy', 'time': 0.0,
                'model': d if v == 'refuted' else None, 'detail': str(d), 'pc': '', 'extra': {'replay': dict(replay, clause='limit0')}})
    return obs, bounded


def quad_block(name):
    st = MC.use_mode('sx')
    mod = st['mods'][name]
    base = f"{P}/{MC.MODELS[name]}.{name}.spreading_pressure"
    eng = sx.Engine(div0='nan', max_paths=64)
    replay = {'kind': 'c10.model', 'model': name, 'clause': 'spreading.quad'}

    def run():
        integ = stubs.IntegrateStub()
        mod.integrate = integ
        m = MC.sx_model(eng, name)
        p = eng.real('p', positive=True)
        if name in ('DR', 'DA'):
            eng.assume(p < 1)
        res = m.spreading_pressure(p)
        # the integral of n(p')/p' over (0, p] may be handed to the quadrature in p' or, by the change of variable u = ln p'
        # (calculus lemma, assumed), as the integral of n(e^u) over (-inf, ln p]
        c = integ.calls[0] if len(integ.calls) == 1 else None
        linear = c is not None and not isinstance(c['a'], float) and c['a'] == 0 and c['b'] is p
        logform = c is not None and isinstance(c['a'], float) and c['a'] == float('-inf') and sx.eq(c['b'], sx.sym_log(p)) is not False
        eng.prove(f"{base}/quad.one_call_from_zero_to_p/callsite", bool(linear) or (bool(logform) and sx.eq(c['b'], sx.sym_log(p))),
                  extra={'replay': replay, 'observed': None if c is None else f"[{c['a']}, {c['b']}]"})
        if c is None:
            return
        eng.prove(f"{base}/quad.returns_integral_value/callsite", res is c['value'], extra={'replay': replay})
        x = eng.real('x', positive=True)
        if name in ('DR', 'DA'):
            eng.assume(x < 1)
        if linear:
            fx = c['f'](x)
            want = m.loading(x) / x
        else:
            fx = c['f'](sx.sym_log(x))  # the integrand at u = ln x must be n(x)
            want = m.loading(x)
        eng.prove(f"{base}/quad.integrand_is_loading_over_pressure/closure", sx.eq(fx, want), extra={'replay': replay})

    return collect(eng, run, base, 'quad')


# ---------------------------------------------------------------------------------
# point isotherms
# ---------------------------------------------------------------------------------

def _prep_point():
    st = I.prepare()
    if 'c11' not in st:
        import pygaps.utilities.isotherm_interpolator as II
        II.interp1d = stubs.Interp1dStub
        st['PI'].numpy = npproxy.NumpyProxy()
        st['c11'] = True
    return st


def point_block(block):
    st = _prep_point()
    E, T = st['E'], st['T']
    obs = []
    for item in block:
        (n, where, fill, unit_kw), history = item[:4], (item[4] if len(item) > 4 else None)
        cfg = f"n={n}|query={where}|fill={fill}|units={'+'.join(f'{k}={v}' for k, v in unit_kw.items()) or 'stored'}" + (f"|after:{history}" if history else '')
        base = f"{P}/PointIsotherm.spreading_pressure_at"
        replay = {'kind': 'c11.point', 'n': n, 'where': where, 'fill': fill, 'unit_kw': unit_kw, 'history': history}
        eng = sx.Engine(max_paths=512)

        def run():
            stubs.Interp1dStub.instances.clear()
            stubs.Interp1dStub.mode = 'linear'
            lab = dict(pressure_mode='absolute', pressure_unit='bar', loading_basis='molar', loading_unit='mmol',
                       material_basis='mass', material_unit='g', temperature_unit='K')
            extra_row = 1 if history == 'origin_point_measured' else 0
            iso = I.make_iso(eng, lab, n=n + extra_row, frame=True, branch=[0] * (n + extra_row))
            iso.l_interpolator = iso.p_interpolator = None
            if extra_row:
                # the data start with a measured point at zero pressure and zero loading: it adds nothing to the integral
                iso.data_raw.cols['pressure'] = [sx.SymReal(0)] + list(iso.data_raw.cols['pressure'])[1:]
                iso.data_raw.cols['loading'] = [sx.SymReal(0)] + list(iso.data_raw.cols['loading'])[1:]
            ps, ls = list(iso.data_raw.cols['pressure'])[extra_row:], list(iso.data_raw.cols['loading'])[extra_row:]
            for i in range(n):
                eng.assume(ps[i] > (ps[i - 1] if i else 0))
                eng.assume(ls[i] > (ls[i - 1] if i else 0))
            if history == 'desorption_branch_stored_high_to_low':
                # the same points marked as desorption and stored in measurement order (decreasing pressure)
                iso.data_raw.cols['pressure'] = list(ps)[::-1]
                iso.data_raw.cols['loading'] = list(ls)[::-1]
                iso.data_raw.cols['branch'] = [1] * n
            elif history == 'origin_point_measured':
                pass
            elif history:
                # the isotherm was used before (its interpolator exists) and then converted in place by the real method:
                # the integral is that of the data as stored *now*
                q0 = eng.real('q0', positive=True)
                eng.assume((q0 > ps[0]) & (q0 < ps[-1]))
                iso.spreading_pressure_at(q0)
                if history == 'used+convert_loading(unit_to=mol)':
                    iso.convert_loading(unit_to='mol')
                elif history == 'used+convert_pressure(unit_to=kPa)':
                    iso.convert_pressure(unit_to='kPa')
                elif history == 'used+convert_material(unit_to=kg)':
                    iso.convert_material(unit_to='kg')
                ps, ls = iso.data_raw.cols['pressure'], iso.data_raw.cols['loading']
            # the query is given in the requested representation; data in that representation:
            fp = sx.SymReal(T.U_P['bar'] / T.U_P[unit_kw['pressure_unit']]) if 'pressure_unit' in unit_kw else sx.SymReal(1)
            fl = sx.SymReal(T.U_N['mmol'] / T.U_N[unit_kw['loading_unit']]) if 'loading_unit' in unit_kw else sx.SymReal(1)
            P_ = [x * fp for x in ps]
            L_ = [x * fl for x in ls]
            q = eng.real('q', positive=True)
            if where == 'below':
                eng.assume(q < P_[0])
            elif where == 'at_first':
                eng.assume(sx.eq(q, P_[0]))
            elif where == 'at_last':
                eng.assume(sx.eq(q, P_[-1]))
            elif where == 'above':
                eng.assume(q > P_[-1])
            else:
                k = int(where.split(':')[1])
                eng.assume((q > P_[k]) & (q < P_[k + 1]))
            try:
                r = iso.spreading_pressure_at(q, interp_fill=fill, **unit_kw, **({'branch': 'des'} if history == 'desorption_branch_stored_high_to_low' else {}))
                out = 'return'
            except E.CalculationError:
                out = 'CalculationError'
            except sx.Unsupported:
                raise
            except Exception as exc:
                out = f"other:{type(exc).__name__}: {str(exc)[:60]}"
            x = {'replay': replay, 'observed': out}
            if where == 'above' and fill is None:
                eng.prove(f"{base}/point.refused_above_range_without_fill/{cfg}", out == 'CalculationError', extra=x)
                return
            eng.prove(f"{base}/point.returns/{cfg}", out == 'return', extra=x)
            if out != 'return':
                return
            r = r.item() if isinstance(r, numpy.ndarray) and r.ndim == 0 else r
            # spec: Henry segment up to P_0, then exact integrals of the linear interpolant a_i + b_i p over ln p
            H = L_[0] / P_[0]
            if where == 'below':
                want = H * q
            else:
                want = L_[0]  # = H * P_0
                if where == 'at_first':
                    kmax, last = 0, None
                elif where == 'at_last':
                    kmax, last = n - 1, None
                elif where == 'above':
                    kmax, last = n - 1, 'above'
                else:
                    kmax, last = int(where.split(':')[1]), 'partial'
                for i in range(kmax):
                    b = (L_[i + 1] - L_[i]) / (P_[i + 1] - P_[i])
                    a = L_[i] - b * P_[i]
                    want = want + b * (P_[i + 1] - P_[i]) + a * sx.sym_log(P_[i + 1] / P_[i])
                if last == 'partial':
                    b = (L_[kmax + 1] - L_[kmax]) / (P_[kmax + 1] - P_[kmax])
                    a = L_[kmax] - b * P_[kmax]
                    want = want + b * (q - P_[kmax]) + a * sx.sym_log(q / P_[kmax])
                elif last == 'above':
                    if fill == 'extrapolate':
                        b = (L_[-1] - L_[-2]) / (P_[-1] - P_[-2])
                        a = L_[-1] - b * P_[-1]
                        want = want + b * (q - P_[-1]) + a * sx.sym_log(q / P_[-1])
                    else:
                        return  # other fill rules: the interpolant beyond the data is the user's constant; not specified here
            eng.prove(f"{base}/point.henry_plus_segment_integrals/{cfg}", sx.eq(r, want), extra=x)

        obs += collect(eng, run, base, cfg)
    stubs.Interp1dStub.mode = 'uf'
    return obs


def point_cfgs(tier):
    out = []
    nmax = 4 if tier == 'quick' else 5
    for n in range(2, nmax + 1):
        wheres = ['below', 'at_first', 'at_last', 'above'] + [f'between:{k}' for k in range(n - 1)]
        for w in wheres:
            for fill in (None, 'extrapolate'):
                out.append((n, w, fill, {}))
        if n == 3:
            for w in ('below', 'between:0', 'between:1', 'at_last'):
                for h in ('used+convert_loading(unit_to=mol)', 'used+convert_pressure(unit_to=kPa)', 'used+convert_material(unit_to=kg)', 'desorption_branch_stored_high_to_low', 'origin_point_measured'):
                    out.append((n, w, None, {}, h))
        for w in ('below', 'between:0', 'at_last'):
            out.append((n, w, None, {'pressure_unit': 'Pa'}))
            out.append((n, w, None, {'loading_unit': 'mol'}))
            out.append((n, w, None, {'pressure_unit': 'kPa', 'loading_unit': 'mol'}))
    return out


def segment_lemma_block(_b):
    """CAS lemma: on a segment with n(p) = a + b p,  d/dp [ b (p - p0) + a ln(p/p0) ] * p == a + b p, and the
    piece is 0 at p = p0 (continuity at the knots); the Henry piece H p satisfies p d/dp == H p."""
    import sympy as sp
    a, b, p, p0, H = sp.symbols('a b p p0 H', positive=True)
    piece = b * (p - p0) + a * sp.log(p / p0)
    obs = []
    for nm, e in (('segment.p_times_derivative_is_interpolant', p * sp.diff(piece, p) - (a + b * p)),
                  ('segment.continuous_at_knot', piece.subs(p, p0)),
                  ('henry_segment.p_times_derivative_is_loading', p * sp.diff(H * p, p) - H * p),
                  ('henry_segment.zero_at_zero_pressure', sp.limit(H * p, p, 0, '+'))):
        v, d = MC.cas_is_zero(e)
        obs.append({'name': f"{P}/PointIsotherm.spreading_pressure_at/lemma.{nm}/symbolic", 'verdict': v, 'backend': 'sympy', 'time': 0.0,
                    'model': None, 'detail': str(d), 'pc': '', 'extra': {}})
    return obs


# ---------------------------------------------------------------------------------
# ModelIsotherm.spreading_pressure_at: argument converted by the C01 factor for every (input mode, stored mode)
# ---------------------------------------------------------------------------------

def model_iso_block(_b):
    from pgv.checks import c03
    st = c03._prep()
    E, T = st['E'], st['T']
    obs = []
    base = f"{P}/ModelIsotherm.spreading_pressure_at"
    reqs = [(None, None)] + [(m, u) for (m, u) in S.pressure_reprs()] + [('absolute', None), ('relative', 'Pa'), (None, 'kPa'), ('xx', None), ('absolute', 'xx')]
    for (pm, pu), (rm, ru) in itertools.product(S.pressure_reprs(), reqs):
        lab = dict(c03.DEF, pressure_mode=pm, pressure_unit=pu)
        status, R = c03.complete((pm, pu), (rm, ru), S.PRESSURE_MODES)
        kind = c03.classify([status])
        cfg = f"{pm}:{pu}→mode={rm},unit={ru}"
        replay = {'kind': 'c11.modeliso', 'labels': lab, 'kwargs': {'pressure_mode': rm, 'pressure_unit': ru}, 'expect': kind}
        eng = sx.Engine(max_paths=16)

        def run():
            iso = c03._make(eng, 'model', lab)
            ads = iso._adsorbate._a
            q = eng.real('q', positive=True)
            out = c03._outcome(E, lambda: iso.spreading_pressure_at(q, pressure_mode=rm, pressure_unit=ru))

            def conds(res):
                calls = [r for r in iso.model.results if r[0] == 'spreading_pressure']
                yield ('ensures.one_model_call', len(calls) == 1)
                if len(calls) != 1:
                    return
                arg, val = calls[0][1], calls[0][2]
                one = sx.SymReal(1)
                q_st = q * S.canon_p(one, R[0], R[1], ads, T) / S.canon_p(one, pm, pu, ads, T)
                yield ('ensures.argument_in_stored_representation', sx.eq(arg, q_st))
                r = res.item() if isinstance(res, numpy.ndarray) and res.ndim == 0 else res
                yield ('ensures.returns_model_value', r is val)
            c03._judge(eng, base, cfg, kind, out, replay, conds)
        obs += collect(eng, run, base, cfg)
    return obs


def _dispatch_flat(job):
    kind, arg = job
    if kind == 'analytic':
        o, b = analytic_block(arg)
        return o + [{'__bounded__': x} for x in b]
    if kind == 'quad':
        return quad_block(arg)
    if kind == 'point':
        return point_block(arg)
    if kind == 'lemma':
        return segment_lemma_block(arg)
    if kind == 'modeliso':
        return model_iso_block(arg)


def run(rep):
    rep.level = 'proof'
    rep.fn(*[f"pygaps.modelling.{MC.MODELS[n]}.{n}.spreading_pressure" for n in ANALYTIC + QUAD],
           'pygaps.core.pointisotherm.PointIsotherm.spreading_pressure_at', 'pygaps.core.modelisotherm.ModelIsotherm.spreading_pressure_at')
    rep.assume('the symbolic point isotherms have strictly increasing pressures AND loadings (the property does not require monotone loadings: '
               'isotherms whose loading passes through a maximum are covered by the bounded closed-form clause only)')
    rep.assume('fundamental theorem of calculus: p*dPi/dp = n(p) and Pi(0+) = 0 imply Pi(p) = integral_0^p n/p dp (stated lemma)',
               'scipy.integrate.quad(f, a, b)[0] = integral of f over [a, b]',
               'interp1d kind=linear contract on strictly increasing knots; pandas API contract (pdstub)',
               'ln is an uninterpreted function with exp(ln x) = x, ln 1 = 0, sign facts; identical ln terms are compared syntactically',
               'real arithmetic for floats; sympy rewriting and limits are trusted')
    rep.trust('CPython 3.12', 'z3 5.1.0', 'sympy 1.14', 'pgv.sx', 'pgv.lift', 'pgv.npproxy')
    jobs = [('analytic', n) for n in ANALYTIC] + [('quad', n) for n in QUAD] + [('lemma', None), ('modeliso', None)]
    pc = point_cfgs(rep.tier)
    for blk in par.chunks(pc, 12):
        jobs.append(('point', blk))
    obs, crashes = par.pmap(_dispatch_flat, jobs)
    for o in obs:
        if '__bounded__' in o:
            b = o['__bounded__']
            rep.add_bounded(b['name'], b['ok'], b['detail'])
        else:
            rep.add(o)
    if crashes:
        rep.crash = crashes[0]
    from pgv.replayers import c11 as R11
    for res in R11.array_query_cases():
        rep.add_bounded(f"{P}/bounded.{res['name']}", res['ok'], res['detail'], replay={'kind': 'c11.array', 'name': res['name']})
    for res in R11.branch_integral_cases():
        rep.add_bounded(f"{P}/bounded.{res['name']}", res['ok'], res['detail'], replay={'kind': 'c11.branch_integral', 'name': res['name']})
    for res in R11.stored_dtype_cases():
        rep.add_bounded(f"{P}/bounded.{res['name']}", res['ok'], res['detail'], replay={'kind': 'c11.dtype', 'name': res['name']})
    rep.shape_bounded = {'N': 4 if rep.tier == 'quick' else 5, 'what': 'point-isotherm spreading pressure on 2..N symbolic increasing points',
                         'obligations': sum(1 for o in obs if '/point.' in o.get('name', ''))}
