"""C18 -- kernel (DFT) fitting is non-negative and reproduces the isotherm.

Contract level (discharged; SX with a 3-pore x 4-pressure kernel of opaque interpolators, scipy.optimize.minimize and
bspline as contract stubs): kernel_loading(x)_i = sum_j K_j(p_i) x_j; objective = sum of squared residuals; bounds (0, None)
and the x >= 0 constraint are passed, start at zero; failure => CalculationError; an interpolator ValueError =>
CalculationError; reported fitted isotherm == kernel_loading(result.x); distribution = x / width increments; cumulative
= running sum of distribution x increments (non-decreasing for x >= 0); psd_dft requests the kernel's units and selects
the points inside the limits.  Bounded: reproduction of exact mixtures, smoothing orders, out-of-window points, range refusal.
"""
from __future__ import annotations

import numpy
import z3

from pgv import lift, npproxy, par, stubs, sx
from pgv.util import collect, static_ob

P = 'C18'
_ST = {}


def _prep():
    if _ST:
        return _ST
    import pygaps
    pygaps.logger.disabled = True
    import pygaps.characterisation.psd_kernel as PK
    from pygaps.utilities import exceptions as E
    PK.psd_dft_kernel_fit = lift.lifted_source_function(PK.psd_dft_kernel_fit)
    PK.psd_dft = lift.lifted_source_function(PK.psd_dft)
    PK.numpy = npproxy.NumpyProxy()
    _ST.update(PK=PK, E=E)
    return _ST


def fit_block(args):
    mode, = args
    st = _prep()
    PK, E = st['PK'], st['E']
    base = f"{P}/psd_kernel.psd_dft_kernel_fit"
    cfg = f"optimiser={mode}"
    replay = {'kind': 'c18.fit'}
    eng = sx.Engine(max_paths=64, div0='assume')

    def run():
        widths = [0.5, 1.0, 2.5]
        npnt = 4
        K = {w: [eng.real(f'K_{j}_{i}', nonneg=True) for i in range(npnt)] for j, w in enumerate(widths)}
        ps = numpy.array([eng.real(f'p{i}', positive=True) for i in range(npnt)], dtype=object)
        ls = numpy.array([eng.real(f'l{i}', nonneg=True) for i in range(npnt)], dtype=object)
        calls = {'interp': [], 'min': [], 'bspline': []}

        def interp(w):
            def f(pressure):
                calls['interp'].append((w, pressure))
                if mode == 'interp_error' and w == widths[1]:
                    raise ValueError("A value in x_new is above the interpolation range.")
                return numpy.array(K[w], dtype=object)
            return f
        PK._load_kernel = lambda path: {w: interp(w) for w in widths}

        class Opt:
            @staticmethod
            def minimize(fun, x0, **kw):
                x = numpy.array([eng.real(f'x{j}', nonneg=True) for j in range(len(x0))], dtype=object)
                probe = numpy.array([eng.real(f'xp{j}') for j in range(len(x0))], dtype=object)
                calls['min'].append({'fun': fun, 'x0': x0, 'kw': kw, 'x': x, 'probe': probe, 'at_probe': fun(probe)})
                res = type('R', (), {})()
                res.x, res.success, res.message = x, mode != 'fail', 'stub'
                return res
        PK.optimize = Opt

        def bspline(xs, ys, degree=2, **kw):
            calls['bspline'].append((xs, ys, degree))
            return xs, ys  # degree 0 contract: identity (smoothing itself is bounded only)
        PK.bspline = bspline
        try:
            w_out, dist, cum, fitted = PK.psd_dft_kernel_fit(ps, ls, 'kernel-path', 0)
            out = 'return'
        except E.CalculationError:
            out = 'CalculationError'
        except sx.Unsupported:
            raise
        except Exception as exc:
            out = f"other:{type(exc).__name__}: {str(exc)[:80]}"
        x = {'replay': replay, 'observed': out}
        if mode == 'interp_error':
            eng.prove(f"{base}/dft.pressure_outside_kernel_range_refused_with_CalculationError/{cfg}", out == 'CalculationError' and not calls['min'], extra=x)
            return
        eng.prove(f"{base}/dft.every_kernel_isotherm_evaluated_at_the_isotherm_pressures/{cfg}",
                  [c[0] for c in calls['interp']] == widths and all(c[1] is ps for c in calls['interp']), extra=x)
        eng.prove(f"{base}/dft.one_minimisation/{cfg}", len(calls['min']) == 1, extra=x)
        if len(calls['min']) != 1:
            return
        c = calls['min'][0]
        kw = c['kw']
        eng.prove(f"{base}/dft.constraints_callsite_nonnegative_bounds_and_constraint/{cfg}",
                  list(kw.get('bounds', [])) == [(0, None)] * 3 and any(k.get('type') == 'ineq' and list(k['fun'](numpy.array([1.5, -2.0, 0.0]))) == [1.5, -2.0, 0.0]
                                                                         for k in kw.get('constraints', [])), extra=x)
        eng.prove(f"{base}/dft.starts_from_zero_distribution/{cfg}", list(c['x0']) == [0, 0, 0], extra=x)
        pr = c['probe']
        want = sum(((sum((K[w][i] * pr[j] for j, w in enumerate(widths[1:], 1)), K[widths[0]][i] * pr[0]) - ls[i]) ** 2 for i in range(1, npnt)),
                   (sum((K[w][0] * pr[j] for j, w in enumerate(widths[1:], 1)), K[widths[0]][0] * pr[0]) - ls[0]) ** 2)
        eng.prove(f"{base}/dft.objective_is_sum_of_squared_residuals_of_kernel_weighted_sum/{cfg}", sx.eq(c['at_probe'], want), extra=x)
        if mode == 'fail':
            eng.prove(f"{base}/dft.optimiser_failure_raises_CalculationError/{cfg}", out == 'CalculationError', extra=x)
            return
        eng.prove(f"{base}/dft.returns_on_success/{cfg}", out == 'return', extra=x)
        if out != 'return':
            return
        xs = c['x']
        eng.prove(f"{base}/dft.reported_fit_is_kernel_weighted_sum_of_result/{cfg}", len(fitted) == npnt and sx.And(*[sx.eq(
            fitted[i], sum((K[w][i] * xs[j] for j, w in enumerate(widths[1:], 1)), K[widths[0]][i] * xs[0])) for i in range(npnt)]), extra=x)
        dws = [widths[0], widths[1] - widths[0], widths[2] - widths[1]]
        eng.prove(f"{base}/dft.distribution_is_weight_over_width_increment/{cfg}", sx.And(*[sx.eq(dist[j] * sx.SymReal(dws[j]), xs[j]) for j in range(3)]), extra=x)
        eng.prove(f"{base}/dft.distribution_nonnegative/{cfg}", sx.And(*[dist[j] >= 0 for j in range(3)]), extra=x)
        run_ = [dist[0] * sx.SymReal(dws[0])]
        for j in (1, 2):
            run_.append(run_[-1] + dist[j] * sx.SymReal(dws[j]))
        eng.prove(f"{base}/dft.cumulative_is_running_integral_of_distribution/{cfg}", sx.And(*[sx.eq(cum[j], run_[j]) for j in range(3)]), extra=x)
        eng.prove(f"{base}/dft.cumulative_nondecreasing/{cfg}", sx.And(cum[0] <= cum[1], cum[1] <= cum[2]), extra=x)
        eng.prove(f"{base}/dft.smoothing_applied_to_widths_and_distribution_with_requested_order/{cfg}", len(calls['bspline']) == 1 and calls['bspline'][0][2] == 0, extra=x)
    return collect(eng, run, base, cfg)


def driver_block(args):
    n, lim = args
    st = _prep()
    PK, E = st['PK'], st['E']
    base = f"{P}/psd_kernel.psd_dft"
    cfg = f"n={n}|limits={lim}"
    eng = sx.Engine(max_paths=4000, div0='assume')

    def run():
        from pgv.checks.c14 import _window_ok
        ps = [eng.real(f'p{i}', positive=True) for i in range(n)]
        ls = [eng.real(f'l{i}', nonneg=True) for i in range(n)]
        for i in range(1, n):
            eng.assume(ps[i] > ps[i - 1])
        rec = {}

        def fake_ordered(isotherm, branch, lunits, punits):
            rec.update(branch=branch, lunits=lunits, punits=punits)
            return numpy.array(ps, dtype=object), numpy.array(ls, dtype=object)
        PK.get_iso_loading_and_pressure_ordered = fake_ordered

        def fake_fit(pressure, loading, kernel_path, order):
            rec.update(fit_p=list(pressure), fit_l=list(loading), path=kernel_path, order=order)
            return 'W', 'D', 'C', 'F'
        PK.psd_dft_kernel_fit = fake_fit
        lo = eng.real('lo', positive=True) if lim in ('both', 'lo') else None
        hi = eng.real('hi', positive=True) if lim in ('both', 'hi') else None
        try:
            res = PK.psd_dft(object(), branch='des', p_limits=(lo, hi), bspline_order=3)
            out = 'return'
        except E.CalculationError:
            out = 'CalculationError'
        x = {'replay': {'kind': 'c18.window'}, 'observed': out}
        inside = [sx.And(*([p > lo] if lo is not None else []) + ([p < hi] if hi is not None else [])) if (lo is not None or hi is not None) else True for p in ps]
        if out == 'CalculationError':
            cnt = sum(((sx.SymBool(sx._b(c))._r() if c is not True else sx.SymReal(1)) for c in inside[1:]),
                      (sx.SymBool(sx._b(inside[0]))._r() if inside[0] is not True else sx.SymReal(1)))
            eng.prove(f"{base}/window.refuses_only_with_fewer_than_three_points/{cfg}", cnt < 3, extra=x)
            return
        mn, mx = (int(v) for v in res['limits'])
        eng.prove(f"{base}/window.points_inside_limits_selected_outside_not/{cfg}", _window_ok(eng, ps, lo, hi, mn, mx), extra=x)
        eng.prove(f"{base}/window.only_selected_points_reach_the_fit/{cfg}", len(rec['fit_p']) == mx - mn + 1 and all(a is b for a, b in zip(rec['fit_p'], ps[mn:mx + 1]))
                  and all(a is b for a, b in zip(rec['fit_l'], ls[mn:mx + 1])), extra=x)
        eng.prove(f"{base}/protocol.kernel_units_requested_and_order_passed/{cfg}",
                  rec['lunits'] == {'loading_basis': 'molar', 'loading_unit': 'mmol', 'material_basis': 'mass', 'material_unit': 'g'}
                  and rec['punits'] == {'pressure_mode': 'relative', 'pressure_unit': None} and rec['branch'] == 'des' and rec['order'] == 3, extra=x)
        eng.prove(f"{base}/ensures.results_passed_through/{cfg}", (res['pore_widths'], res['pore_distribution'], res['pore_volume_cumulative'], res['kernel_loading']) == ('W', 'D', 'C', 'F'), extra=x)
    return collect(eng, run, base, cfg)


def _dispatch(job):
    kind, arg = job
    return {'fit': fit_block, 'drv': driver_block}[kind](arg)


def run(rep):
    rep.level = 'other'
    rep.fn('pygaps.characterisation.psd_kernel.psd_dft', 'pygaps.characterisation.psd_kernel.psd_dft_kernel_fit (closures kernel_loading, sum_squares)',
           'pygaps.characterisation.psd_kernel._load_kernel (cache clauses in C04)', 'pygaps.utilities.math_utilities.bspline (bounded)')
    rep.assume('scipy.optimize.minimize(SLSQP): success => x satisfies the bounds and constraints (x >= 0); nothing else is assumed',
               'kernel interpolators are arbitrary non-negative functions of the pressure (opaque values); a ValueError models a pressure outside the kernel range',
               'B-spline smoothing: identity for order 0 (stub); non-negativity after smoothing rests on the convex-hull property of B-splines (stated lemma) and is bounded only',
               'numpy multiply/square/subtract/sum/ediff1d/cumsum executed by real numpy on object arrays')
    rep.trust('CPython 3.12', 'z3 5.1.0', 'pgv.sx', 'pgv.lift')
    jobs = [('fit', (m,)) for m in ('ok', 'fail', 'interp_error')] + [('drv', (4, lim)) for lim in ('both', 'lo', 'hi', 'none')]
    obs, crashes = par.pmap(_dispatch, jobs)
    rep.extend(obs)
    if crashes:
        rep.crash = crashes[0]
    from pgv.replayers import c18 as R
    n = 0
    for res in R.kernel_cases(rep.seed, thorough=rep.tier == 'thorough'):
        rep.add_bounded(f"{P}/bounded.{res['name']}", res['ok'], res['detail'], replay={'kind': 'c18.case', 'name': res['name'], 'seed': rep.seed})
        n += 1
    rep.extra_cov['explanation'] = (f"objective, constraints call site, reported fit, distribution/cumulative glue, refusal paths and the pressure window are "
                                    f"discharged obligations; {n} bounded cases on the shipped kernel (exact mixtures, spline orders 0-3, out-of-window "
                                    f"points, range refusal) are not counted as proved")
