"""Contracts of the real `pygaps.Adsorbate` property getters against a CoolProp contract stub.

Shared by C01 (unit scalings), C04 (typestate: results independent of earlier calls),
C20 (unit argument honoured; user value else CalculationError, never a silent number).

Assumed contract of `CoolProp.AbstractState`: after `update(kind, a, b)` every getter is a
function of (kind, a, b) only (modelled by uninterpreted functions), any backend call may
raise.  The expected values below are written from the documented units of the getters
(g/mol, Pa, K, mN/m, g/cm3, mol/cm3, kJ/mol) and CoolProp's SI units -- not from the code.
"""
from __future__ import annotations

import itertools
from fractions import Fraction as F

import z3

from pgv import lift, spec_si as S, sx

_R = z3.RealSort()
UF = {n: z3.Function('cp_' + n, _R, _R, _R, _R) for n in
      ('p', 'rhomass', 'rhomolar', 'hmolar', 'surface_tension')}
TWOPHASE = 6  # token for CP.iphase_twophase
QT, PQ = 11, 22  # tokens for CP.QT_INPUTS / CP.PQ_INPUTS (concrete reals in the UF argument)


class BackendFailure(RuntimeError):
    pass


class StateStub:
    def __init__(self, owner):
        self.o = owner
        self.cur = None

    def _may_fail(self, what):
        eng = sx.cur()
        if self.o.faults and eng.branch(z3.Bool(f"fail_{what}_{len(eng.trace)}"), tag=f"fail:{what}"):
            raise BackendFailure(what)

    def update(self, kind, a, b):
        self._may_fail('update')
        self.cur = (kind, a, b)
        self.o.updates.append((kind, a, b))

    def _get(self, name):
        self._may_fail(name)
        if self.cur is None:
            self.o.typestate_violation = f"{name}() read before any update()"
            return sx.cur().fresh('stale')
        k, a, b = self.cur
        return sx.SymReal(UF[name](sx.SymReal.lift(k), sx.SymReal.lift(a), sx.SymReal.lift(b)))

    def T(self):
        # the state's own temperature: what the last QT update set; unspecified (any real) before that and after a PQ update
        self._may_fail('T')
        if self.cur is not None and self.cur[0] == QT:
            return sx.SymReal(sx.SymReal.lift(self.cur[2]))
        return sx.cur().fresh('state_T')

    def phase(self):
        # after a saturation (Q, T) update the state is on the two-phase boundary, whichever side; unspecified otherwise
        self._may_fail('phase')
        if self.cur is not None and self.cur[0] == QT:
            return TWOPHASE
        return sx.cur().fresh('state_phase')

    def Q(self):
        self._may_fail('Q')
        if self.cur is not None:
            return sx.SymReal(sx.SymReal.lift(self.cur[1] if self.cur[0] == QT else self.cur[2]))
        return sx.cur().fresh('state_Q')

    def p(self):
        return self._get('p')

    def rhomass(self):
        return self._get('rhomass')

    def rhomolar(self):
        return self._get('rhomolar')

    def hmolar(self):
        return self._get('hmolar')

    def surface_tension(self):
        return self._get('surface_tension')

    def _const(self, name):
        self._may_fail(name)
        return sx.cur().real('cp_' + name, positive=True)

    def molar_mass(self):
        return self._const('molar_mass')

    def Ttriple(self):
        return self._const('Ttriple')

    def p_critical(self):
        return self._const('p_critical')

    def T_critical(self):
        return self._const('T_critical')


class CPStub:
    """stands in for the `CoolProp` module inside pygaps.core.adsorbate"""
    QT_INPUTS = QT
    PQ_INPUTS = PQ
    iphase_twophase = TWOPHASE

    def __init__(self, faults=True):
        self.faults = faults
        self.updates = []
        self.created = []
        self.typestate_violation = None
        self.CoolProp = self

    def AbstractState(self, mode, name):
        eng = sx.cur()
        if self.faults and eng.branch(z3.Bool(f"fail_create_{len(eng.trace)}"), tag="fail:create"):
            raise BackendFailure('create')
        st = StateStub(self)
        self.created.append((mode, name))
        return st

    def PropsSI(self, what, name):
        eng = sx.cur()
        if self.faults and eng.branch(z3.Bool(f"fail_props_{len(eng.trace)}"), tag="fail:PropsSI"):
            raise BackendFailure('PropsSI')
        return eng.real('cp_' + what, positive=True)


def _uf(name, k, a, b):
    return sx.SymReal(UF[name](sx.SymReal.lift(k), sx.SymReal.lift(a), sx.SymReal.lift(b)))


# spec: getter -> (takes_temp, expected(backend value), user property key, user scale)
def _spec(eng, T_P):
    cp = lambda n: eng.real('cp_' + n, positive=True)
    return {
        'molar_mass': (False, lambda T: cp('molar_mass') * 1000, 'molar_mass', 1),
        'p_triple': (False, lambda T: cp('PTRIPLE'), 'p_triple', F(10) ** 5),
        't_triple': (False, lambda T: cp('Ttriple'), 't_triple', 1),
        'p_critical': (False, lambda T: cp('p_critical'), 'p_critical', F(10) ** 5),
        't_critical': (False, lambda T: cp('T_critical'), 't_critical', 1),
        'surface_tension': (True, lambda T: _uf('surface_tension', QT, 0, T) * 1000, 'surface_tension', 1),
        'liquid_density': (True, lambda T: _uf('rhomass', QT, 0, T) / 1000, 'liquid_density', 1),
        'liquid_molar_density': (True, lambda T: _uf('rhomolar', QT, 0, T) / F(10) ** 6, 'liquid_molar_density', 1),
        'gas_density': (True, lambda T: _uf('rhomass', QT, 1, T) / 1000, 'gas_density', 1),
        'gas_molar_density': (True, lambda T: _uf('rhomolar', QT, 1, T) / F(10) ** 6, 'gas_molar_density', 1),
        'enthalpy_liquefaction': (True, lambda T: (_uf('hmolar', QT, 1, T) - _uf('hmolar', QT, 0, T)) / 1000,
                                  'enthalpy_liquefaction', 1),
        'enthalpy_vaporisation': (True, lambda T: (_uf('hmolar', QT, 1, T) - _uf('hmolar', QT, 0, T)) / 1000,
                                  'enthalpy_liquefaction', 1),
        'saturation_pressure': (True, lambda T: _uf('p', QT, 0, T), 'saturation_pressure', 1),
        'pressure_saturation': (True, lambda T: _uf('p', QT, 0, T), 'saturation_pressure', 1),
    }


_PREP = {}


def _prepare():
    if _PREP:
        return _PREP
    import pygaps.core.adsorbate as A
    import pygaps.units.converter_unit as cu
    from pygaps.utilities.exceptions import CalculationError, ParameterError
    lift.lift_tables(cu)
    A.c_unit = lift.lifted_source_function(cu.c_unit)
    names = ['molar_mass', 'p_triple', 't_triple', 'p_critical', 't_critical', 'saturation_pressure',
             'pressure_saturation', 'surface_tension', 'liquid_density', 'liquid_molar_density', 'gas_density',
             'gas_molar_density', 'enthalpy_liquefaction', 'enthalpy_vaporisation']
    for n in names:
        lift.lift_method(A.Adsorbate, n)
    A.logger.disabled = True
    _PREP.update(A=A, cu=cu, CE=CalculationError, PE=ParameterError, names=names)
    return _PREP


UNITS = [None, 'Pa', 'bar', 'torr', 'atm', 'kPa', 'MPa', 'mbar', 'mmHg', '', 'xx']


def getter_block(block):
    """block: list of (prop, getter, has_backend, has_user, calculate, unit)"""
    st = _prepare()
    A, cu, CE, PE = st['A'], st['cu'], st['CE'], st['PE']
    obs = []
    for (P, g, has_backend, has_user, calculate, unit) in block:
        cfg = f"backend={int(has_backend)}|user={int(has_user)}|calculate={int(calculate)}" + \
            (f"|unit={unit}" if g in ('saturation_pressure', 'pressure_saturation') else '')
        eng = sx.Engine(max_paths=256)
        base = f"{P}/Adsorbate.{g}"
        replay = {'kind': 'getter.call', 'getter': g, 'has_backend': has_backend, 'has_user': has_user,
                  'calculate': calculate, 'unit': unit}

        def run():
            cp = CPStub(faults=True)
            A.CP = cp
            spec = _spec(eng, cu._PRESSURE_UNITS)
            takes_T, expected, key, uscale = spec[g]
            props = {}
            if has_backend:
                props['backend_name'] = 'X'
            if has_user:
                props[key] = eng.real('user_' + key, positive=True)
            ads = A.Adsorbate('x', **props)
            T = eng.real('T', positive=True)
            kwargs = {'calculate': calculate}
            if g in ('saturation_pressure', 'pressure_saturation'):
                kwargs['unit'] = unit
            args = (T,) if takes_T else ()
            try:
                if g == 'pressure_saturation':
                    res = ads.pressure_saturation(T, unit, calculate)
                elif g == 'enthalpy_vaporisation':
                    res = ads.enthalpy_vaporisation(T, None, calculate)
                else:
                    res = getattr(ads, g)(*args, **kwargs)
                out = ('return', res)
            except CE as exc:
                out = ('CalculationError', str(exc))
            except PE as exc:
                out = ('ParameterError', str(exc))
            except sx.Unsupported:
                raise
            except Exception as exc:
                out = ('other:' + type(exc).__name__, str(exc)[:100])
            failed = any(t[2].startswith('fail:') and t[0] for t in eng.trace)
            backend_ok = calculate and has_backend and not failed
            is_psat = g in ('saturation_pressure', 'pressure_saturation')
            bad_unit = is_psat and unit is not None and unit not in S.U_P
            scale = (lambda x: x) if (not is_psat or unit is None or bad_unit) else (
                lambda x: x / cu._PRESSURE_UNITS[unit])
            if bad_unit:
                # property: an unknown unit is refused on every path (never a silent number)
                eng.prove(f"{base}/raises.unit_refused/{cfg}", out[0] in ('ParameterError', 'CalculationError'),
                          extra={'replay': replay, 'observed': out[0]})
            elif backend_ok:
                ok_ret = out[0] == 'return'
                eng.prove(f"{base}/ensures.returns/{cfg}", ok_ret, extra={'replay': replay, 'observed': out[0]})
                if ok_ret:
                    eng.prove(f"{base}/ensures.backend_value_scaled/{cfg}", sx.eq(out[1], scale(expected(T))),
                              extra={'replay': replay})
                    eng.prove(f"{base}/typestate.update_before_read/{cfg}", cp.typestate_violation is None,
                              extra={'replay': replay, 'observed': cp.typestate_violation})
            elif has_user:
                ok_ret = out[0] == 'return'
                eng.prove(f"{base}/ensures.returns_user/{cfg}", ok_ret, extra={'replay': replay, 'observed': out[0]})
                if ok_ret:
                    eng.prove(f"{base}/ensures.user_value_scaled/{cfg}",
                              sx.eq(out[1], scale(props[key] * uscale)), extra={'replay': replay})
            else:
                eng.prove(f"{base}/raises.CalculationError/{cfg}", out[0] == 'CalculationError',
                          extra={'replay': replay, 'observed': out[0]})
            return out[0]

        for path in eng.explore(run):
            if path.outcome[0] == 'unsupported':
                obs.append({'name': f"{base}/sx.supported/{cfg}/p{path.idx}", 'verdict': 'unsupported', 'backend': 'sx',
                            'time': 0.0, 'model': None, 'detail': path.outcome[1], 'pc': path.pc, 'extra': {}})
            for o in path.obligations:
                d = o.to_dict()
                d['name'] += f"/p{path.idx}"
                obs.append(d)
    return obs


def sequence_block(block):
    """C04(4): second call on the same adsorbate object depends on its own arguments only."""
    st = _prepare()
    A, cu = st['A'], st['cu']
    obs = []
    for (P, g1, g2) in block:
        eng = sx.Engine(max_paths=64)
        base = f"{P}/Adsorbate.{g2}"

        def run():
            cp = CPStub(faults=False)
            A.CP = cp
            spec = _spec(eng, cu._PRESSURE_UNITS)
            ads = A.Adsorbate('x', backend_name='X')
            T1, T2 = eng.real('T1', positive=True), eng.real('T2', positive=True)
            x_ = {'replay': {'kind': 'getter.sequence', 'g1': g1, 'g2': g2}}
            try:
                getattr(ads, g1)(T1)
            except (sx.Unsupported, sx._Infeasible):
                raise
            except Exception as exc:
                eng.prove(f"{base}/history.independent_of_previous_call/after:{g1}", False, extra=dict(x_, observed=f"first call: {type(exc).__name__}"))
                return
            try:
                r2 = getattr(ads, g2)(T2)
            except (sx.Unsupported, sx._Infeasible):
                raise
            except Exception as exc:
                eng.prove(f"{base}/history.independent_of_previous_call/after:{g1}", False, extra=dict(x_, observed=f"{type(exc).__name__}"))
                return
            eng.prove(f"{base}/history.independent_of_previous_call/after:{g1}", sx.eq(r2, spec[g2][1](T2)), extra=x_)
            eng.prove(f"{base}/history.one_state_per_backend/after:{g1}", len(cp.created) == 1)

        for path in eng.explore(run):
            for o in path.obligations:
                d = o.to_dict()
                d['name'] += f"/p{path.idx}"
                obs.append(d)

        # three calls: g2, then g1, then g2 again -- a getter that remembers its own last argument but shares the state with
        # the others is only exposed by an intervening call
        eng3 = sx.Engine(max_paths=128)

        def run3():
            cp = CPStub(faults=False)
            A.CP = cp
            spec = _spec(eng3, cu._PRESSURE_UNITS)
            ads = A.Adsorbate('x', backend_name='X')
            Ta, Tb, Tc = eng3.real('Ta', positive=True), eng3.real('Tb', positive=True), eng3.real('Tc', positive=True)
            x_ = {'replay': {'kind': 'getter.sequence', 'g1': g1, 'g2': g2, 'third': True}}
            try:
                getattr(ads, g2)(Ta)
                getattr(ads, g1)(Tb)
                r3 = getattr(ads, g2)(Tc)
            except (sx.Unsupported, sx._Infeasible):
                raise
            except Exception as exc:
                eng3.prove(f"{base}/history.independent_of_two_previous_calls/after:{g2}+{g1}", False, extra=dict(x_, observed=type(exc).__name__))
                return
            eng3.prove(f"{base}/history.independent_of_two_previous_calls/after:{g2}+{g1}", sx.eq(r3, spec[g2][1](Tc)), extra=x_)
        for path in eng3.explore(run3):
            for o in path.obligations:
                d = o.to_dict()
                d['name'] += f"/p{path.idx}"
                obs.append(d)
    return obs


TEMP_GETTERS = ['saturation_pressure', 'surface_tension', 'liquid_density', 'liquid_molar_density',
                'gas_density', 'gas_molar_density', 'enthalpy_liquefaction']


def jobs(P, which=('getters', 'sequences')):
    st = _prepare()
    out = []
    if 'getters' in which:
        cfgs = []
        for g in st['names']:
            units = UNITS if g in ('saturation_pressure', 'pressure_saturation') else [None]
            for hb, hu, calc, unit in itertools.product((True, False), (True, False), (True, False), units):
                cfgs.append((P, g, hb, hu, calc, unit))
        out += [('getter', cfgs[i::8]) for i in range(8)]
    if 'sequences' in which:
        seq = [(P, a, b) for a in TEMP_GETTERS for b in TEMP_GETTERS]
        out += [('sequence', seq)]
    return out


def dispatch(job):
    kind, blk = job
    return getter_block(blk) if kind == 'getter' else sequence_block(blk)


def run_into(rep, P, which=('getters',)):
    from pgv import par
    obs, crashes = par.pmap(dispatch, jobs(P, which))
    rep.extend(obs)
    if crashes:
        rep.crash = crashes[0]
    st = _prepare()
    rep.fn(*[f"pygaps.core.adsorbate.Adsorbate.{n}" for n in st['names']])
    rep.assume('CoolProp.AbstractState contract: getters after update(kind,a,b) are functions of (kind,a,b) only; '
               'any backend call may raise (every call forks into success/failure)')
