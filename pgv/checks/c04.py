"""C04 -- read-only queries are pure and independent of the query history.

(1) frame by state snapshot: every accessor / interpolation / spreading-pressure call leaves every field and
    every data column unchanged, except the two interpolator caches;
(2) cache invisibility (relational): the outcome (value or exception kind) of a query issued after any other
    query equals the outcome on a fresh isotherm -- for all data and query values;
(3) static modifies/reads clauses of every characterisation / modelling / IAST / export entry point;
(4) Adsorbate typestate: a getter's result depends only on its own arguments (adsorbate_getters.sequence);
(5) module-level caches (_LOADED): written only by their loader, keyed by the loader's argument, value a
    function of the key, never written through afterwards;
(+) bounded stand-in: real pandas/scipy/CoolProp isotherms, ordered pairs of catalogue queries vs a fresh twin.
"""
from __future__ import annotations

import ast
import importlib
import inspect
import itertools
import pkgutil

from pgv import framecheck as FC, isostub as I, npproxy, par, stubs, sx
from pgv.util import collect, static_ob

P = 'C04'
DEF = dict(pressure_mode='absolute', pressure_unit='bar', loading_basis='molar', loading_unit='mmol',
           material_basis='mass', material_unit='g', temperature_unit='K')

# query catalogue: (name, method, kwargs, argument kind)
QUERIES = [
    ('loading_at', 'loading_at', {}, 'p'),
    ('loading_at.fill0', 'loading_at', {'interp_fill': 0}, 'p'),
    ('loading_at.extrapolate', 'loading_at', {'interp_fill': 'extrapolate'}, 'p'),
    ('loading_at.des', 'loading_at', {'branch': 'des'}, 'p'),
    ('loading_at.Pa', 'loading_at', {'pressure_unit': 'Pa', 'loading_unit': 'mol'}, 'p'),
    ('pressure_at', 'pressure_at', {}, 'l'),
    ('pressure_at.extrapolate', 'pressure_at', {'interp_fill': 'extrapolate'}, 'l'),
    ('pressure_at.des', 'pressure_at', {'branch': 'des'}, 'l'),
    ('spreading_pressure_at', 'spreading_pressure_at', {}, 'p'),
    ('spreading_pressure_at.fill', 'spreading_pressure_at', {'interp_fill': 'extrapolate'}, 'p'),
    ('pressure', 'pressure', {'branch': 'ads'}, None),
    ('loading', 'loading', {'branch': 'des', 'loading_unit': 'mol'}, None),
]


def _prep():
    st = I.prepare()
    if 'c04' not in st:
        import pygaps.utilities.isotherm_interpolator as II
        II.interp1d = stubs.Interp1dStub
        st['PI'].numpy = npproxy.NumpyProxy()
        st['c04'] = True
    return st


def _mk(eng):
    iso = I.make_iso(eng, DEF, n=5, frame=True, branch=[0, 0, 0, 1, 1])
    iso.l_interpolator = None
    iso.p_interpolator = None
    p, l = iso.data_raw.cols['pressure'], iso.data_raw.cols['loading']
    # strictly monotonic branches, positive data (precondition of the property)
    eng.assume((p[0] > 0) & (p[0] < p[1]) & (p[1] < p[2]) & (p[3] < p[2]) & (p[4] < p[3]) & (p[4] > 0))
    eng.assume((l[0] > 0) & (l[0] < l[1]) & (l[1] < l[2]) & (l[3] < l[2]) & (l[4] < l[3]) & (l[4] > 0))
    return iso


def _call(E, iso, q, qp, ql):
    name, method, kw, argk = q
    args = () if argk is None else ((qp,) if argk == 'p' else (ql,))
    try:
        r = getattr(iso, method)(*args, **kw)
        if hasattr(r, 'item') and getattr(r, 'ndim', 1) == 0:
            r = r.item()
        return ('return', r)
    except sx.Unsupported:
        raise
    except Exception as exc:
        return ('raise', type(exc).__name__)


def _same_outcome(a, b):
    if a[0] != b[0]:
        return False
    if a[0] == 'raise':
        return a[1] == b[1]
    return I.same_value(a[1] if not hasattr(a[1], '__len__') else list(a[1]), b[1] if not hasattr(b[1], '__len__') else list(b[1]))


def cache_block(block):
    st = _prep()
    E = st['E']
    obs = []
    for (prior, query) in block:
        cfg = f"{query[0]}|after:{prior[0] if prior else 'nothing(frame only)'}"
        base = f"{P}/PointIsotherm.{query[1]}"
        replay = {'kind': 'c04.pair', 'prior': prior[0] if prior else None, 'query': query[0]}
        eng = sx.Engine(max_paths=6000, timeout_ms=20000)

        def run():
            stubs.Interp1dStub.instances.clear()
            stubs.Interp1dStub.mode = 'linear'
            qp, ql = eng.real('qp', positive=True), eng.real('ql', positive=True)
            qp2, ql2 = eng.real('qp2', positive=True), eng.real('ql2', positive=True)
            fresh = _mk(eng)
            snap = I.snapshot(fresh)
            o1 = _call(E, fresh, query, qp, ql)
            conds = I.unchanged(snap, fresh, except_fields=('l_interpolator', 'p_interpolator'))
            eng.prove(f"{base}/frame.only_caches_written/{cfg}", I.conj(conds),
                      extra={'replay': replay, 'observed': I.first_false(conds)})
            if prior is not None:
                used = _mk(eng)
                _call(E, used, prior, qp2, ql2)
                o2 = _call(E, used, query, qp, ql)
                eng.prove(f"{base}/cache.invisible/{cfg}", _same_outcome(o1, o2),
                          extra={'replay': replay, 'observed': f"fresh: {o1[0]} {o1[1] if o1[0] == 'raise' else ''} / "
                                                               f"after {prior[0]}: {o2[0]} {o2[1] if o2[0] == 'raise' else ''}"})
        obs += collect(eng, run, base, cfg)
    stubs.Interp1dStub.mode = 'uf'
    return obs


# ---------------------------------------------------------------------------------
# (3) static frames
# ---------------------------------------------------------------------------------

ENTRY_MODULES = ['pygaps.modelling', 'pygaps.iast.pgiast', 'pygaps.parsing.json', 'pygaps.parsing.csv', 'pygaps.parsing.aif',
                 'pygaps.parsing.excel', 'pygaps.parsing.sqlite', 'pygaps.utilities.pygaps_utilities', 'pygaps.utilities.hashgen']
SUPPORT_MODULES = ['pygaps.core.pointisotherm', 'pygaps.core.modelisotherm', 'pygaps.core.baseisotherm', 'pygaps.core.adsorbate',
                   'pygaps.core.material', 'pygaps.modelling.base_model', 'pygaps.utilities.math_utilities']
OBJECT_PARAMS = ('isotherm', 'isotherms', 'iso', 'reference_isotherm', 'adsorbate', 'material', 'modelisotherm', 'self',
                 'pressure_points', 'loading_points', 'pressure', 'loading')
ACCESSORS = ['data', 'pressure', 'loading', 'other_data', 'has_branch', 'pressure_at', 'loading_at', 'spreading_pressure_at',
             'to_dict', 'iso_id', '__eq__', '__repr__', '__str__', 'to_json', 'to_csv', 'to_aif', 'to_xl', 'to_db', 'units',
             'print_info', 'plot']


def static_block(_b):
    import pygaps
    import pygaps.characterisation as ch
    pygaps.logger.disabled = True
    an = FC.Analyzer()
    names = list(SUPPORT_MODULES) + list(ENTRY_MODULES)
    for m in pkgutil.iter_modules(ch.__path__):
        names.append('pygaps.characterisation.' + m.name)
    for n in names:
        an.add_module(importlib.import_module(n))
    an.analyze_all()
    obs = []
    assumed = set()
    for qual, s in sorted(an.summaries.items()):
        node, mname, cls = an.funcs[qual]
        fname = qual.split('.')[-1]
        is_entry = (mname.startswith('pygaps.characterisation') or mname in ENTRY_MODULES) and cls is None and not fname.startswith('_')
        is_accessor = cls in ('PointIsotherm', 'ModelIsotherm', 'BaseIsotherm') and fname in ACCESSORS
        is_getter = cls == 'Adsorbate' and fname in ('saturation_pressure', 'pressure_saturation', 'molar_mass', 'liquid_density',
                                                    'gas_density', 'liquid_molar_density', 'gas_molar_density', 'surface_tension',
                                                    'enthalpy_liquefaction', 'enthalpy_vaporisation', 'p_triple', 't_triple',
                                                    'p_critical', 't_critical', 'get_prop', 'to_dict')
        if not (is_entry or is_accessor or is_getter):
            continue
        assumed |= s.assumed_pure
        if is_entry:
            # database writers legitimately update the in-memory registries; everything else may write no argument
            # every argument: the isotherm(s), their adsorbate / material, and plain data the caller passes (arrays, dicts)
            # plain data the caller passes (arrays, lists, dicts) for the calls the property quantifies over: characterisation,
            # model_iso, iast_* -- the same call with the same argument objects must give the same outcome again
            data_args = mname.startswith('pygaps.characterisation') or mname == 'pygaps.iast.pgiast' or qual == 'pygaps.modelling.model_iso'
            w = {p: v for p, v in s.writes.items() if p in OBJECT_PARAMS or p.startswith('iso')
                 or (data_args and p not in ('cursor', 'kwargs', 'plot_parameters', 'save_parameters', 'ax', 'fig'))}
            ok = not w
            detail = '; '.join(f"{p}: line {v[0][0]} {v[0][1]}" for p, v in w.items())
            obs.append(static_ob(f"{P}/{qual.replace('pygaps.', '')}/modifies.arguments_empty/static", ok, detail,
                                 replay={'kind': 'c04.static', 'function': qual, 'writes': detail}))
            gw = [g for g in s.globals_written if not (mname == 'pygaps.parsing.sqlite' and g[0] in ('ADSORBATE_LIST', 'MATERIAL_LIST'))
                  and not (g[0] == '_LOADED')]
            obs.append(static_ob(f"{P}/{qual.replace('pygaps.', '')}/modifies.module_state_empty/static", not gw, str(gw)))
        else:
            fields = {f for f in s.self_fields if f.split('.')[-1].split('[')[0] not in FC.CACHE_FIELDS
                      and not any(f.startswith('self.' + c) for c in FC.CACHE_FIELDS)}
            other = {p: v for p, v in s.writes.items() if p != 'self'}
            obs.append(static_ob(f"{P}/{qual.replace('pygaps.', '')}/modifies.self_only_caches/static", not fields and not other,
                                 f"fields {sorted(fields)} other {other}",
                                 replay={'kind': 'c04.static', 'function': qual, 'writes': str(sorted(fields))}))
    # (5) module-level caches
    for modname, loader, keyparam in (('pygaps.characterisation.psd_kernel', '_load_kernel', 'path'),
                                      ('pygaps.characterisation.models_thickness', 'load_std_isotherm', 'name')):
        mod = importlib.import_module(modname)
        tree = ast.parse(inspect.getsource(mod))
        writers = []
        for node in ast.walk(tree):
            if isinstance(node, ast.FunctionDef):
                for sub in ast.walk(node):
                    tgt = None
                    if isinstance(sub, ast.Assign):
                        tgt = sub.targets
                    elif isinstance(sub, (ast.AugAssign, ast.Delete)):
                        tgt = [sub.target] if isinstance(sub, ast.AugAssign) else sub.targets
                    for t in tgt or []:
                        b = t
                        while isinstance(b, (ast.Subscript, ast.Attribute)):
                            b = b.value
                        if isinstance(b, ast.Name) and b.id == '_LOADED' and t is not b:
                            writers.append((node.name, ast.unparse(t)))
                    if isinstance(sub, ast.Call) and isinstance(sub.func, ast.Attribute) and isinstance(sub.func.value, ast.Name) \
                            and sub.func.value.id == '_LOADED' and sub.func.attr in FC.INPLACE_METHODS:
                        writers.append((node.name, ast.unparse(sub.func)))
        ok = writers == [(loader, f"_LOADED[{keyparam}]")]
        obs.append(static_ob(f"{P}/{modname.replace('pygaps.', '')}._LOADED/cache.written_only_by_loader_under_its_key/static", ok, str(writers)))
        # the value stored is computed from the key alone: the loader reads no mutable module state besides the cache
        s = an.summaries.get(f"{modname}.{loader}")
        reads = (s.globals_read - {'_LOADED'}) if s else {'?'}
        obs.append(static_ob(f"{P}/{modname.replace('pygaps.', '')}.{loader}/cache.value_function_of_key/static", s is not None and not reads, str(reads)))
        # callers never write through the cached object
        bad = []
        for qual, cs in an.summaries.items():
            if not qual.startswith(modname + '.'):
                continue
            node = an.funcs[qual][0]
            cached_names = set()
            for sub in ast.walk(node):
                if isinstance(sub, ast.Assign) and isinstance(sub.value, ast.Call) and getattr(sub.value.func, 'id', getattr(sub.value.func, 'attr', None)) == loader:
                    for t in sub.targets:
                        if isinstance(t, ast.Name):
                            cached_names.add(t.id)
            for sub in ast.walk(node):
                tg = []
                if isinstance(sub, ast.Assign):
                    tg = sub.targets
                elif isinstance(sub, ast.AugAssign):
                    tg = [sub.target]
                for t in tg:
                    b = t
                    while isinstance(b, (ast.Subscript, ast.Attribute)):
                        b = b.value
                    if isinstance(b, ast.Name) and b.id in cached_names and t is not b:
                        bad.append((qual, ast.unparse(t)))
                if isinstance(sub, ast.Call) and isinstance(sub.func, ast.Attribute) and isinstance(sub.func.value, ast.Name) \
                        and sub.func.value.id in cached_names and sub.func.attr in FC.INPLACE_METHODS:
                    bad.append((qual, ast.unparse(sub.func)))
        obs.append(static_ob(f"{P}/{modname.replace('pygaps.', '')}._LOADED/cache.never_written_through/static", not bad, str(bad)))
    obs.append(static_ob(f"{P}/framecheck/assumed_pure_library_calls/listing", True,
                         'methods called on tracked objects and assumed pure: ' + ', '.join(sorted(assumed))))
    return obs


# ---------------------------------------------------------------------------------
# bounded stand-in (real objects)
# ---------------------------------------------------------------------------------

def bounded(rep):
    from pgv.replayers import c04 as R
    seed = rep.seed
    n = 0
    for res in R.pairs_on_real_isotherms(seed, thorough=(rep.tier == 'thorough')):
        rep.add_bounded(f"{P}/bounded.real_isotherm_pairs/{res['name']}", res['ok'], res['detail'],
                        replay={'kind': 'c04.realpair', 'name': res['name'], 'seed': seed})
        n += 1
    for res in R.model_pairs():
        rep.add_bounded(f"{P}/bounded.model_isotherm_pairs/{res['name']}", res['ok'], res['detail'], replay={'kind': 'c04.modelpair', 'name': res['name']})
    for res in R.first_in_process_cases():
        rep.add_bounded(f"{P}/bounded.{res['name']}", res['ok'], res['detail'], replay={'kind': 'c04.first', 'name': res['name']})
        n += 1
    for res in R.argument_container_cases():
        rep.add_bounded(f"{P}/bounded.{res['name']}", res['ok'], res['detail'], replay={'kind': 'c04.arguments', 'name': res['name']})
        n += 1
    for res in R.backendless_adsorbate_cases():
        rep.add_bounded(f"{P}/bounded.{res['name']}", res['ok'], res['detail'], replay={'kind': 'c04.backendless', 'name': res['name']})
        n += 1
    for res in R.fill_rule_history_cases():
        rep.add_bounded(f"{P}/bounded.{res['name']}", res['ok'], res['detail'], replay={'kind': 'c04.fill_history', 'name': res['name']})
        n += 1
    for res in R.process_state_cases():
        rep.add_bounded(f"{P}/bounded.{res['name']}", res['ok'], res['detail'], replay={'kind': 'c04.process_state', 'name': res['name']})
        n += 1
    return n


def _dispatch(job):
    kind, blk = job
    if kind == 'cache':
        return cache_block(blk)
    if kind == 'static':
        return static_block(blk)
    from pgv.checks import adsorbate_getters
    return adsorbate_getters.dispatch((kind, blk))


def run(rep):
    rep.level = 'proof'
    rep.fn('pygaps.core.pointisotherm.PointIsotherm.pressure/loading/loading_at/pressure_at/spreading_pressure_at',
           'every public function of pygaps.characterisation.*, pygaps.modelling.model_iso, pygaps.iast.pgiast.*, '
           'pygaps.parsing.isotherm_to_json/_csv/_aif/_xl/_db (static modifies clauses)',
           'pygaps.core.adsorbate.Adsorbate getters (typestate)', 'psd_kernel._load_kernel, models_thickness.load_std_isotherm (cache clauses)')
    rep.assume('pandas API contract (pgv.pdstub); interp1d kind=linear contract (Interp1dStub, strictly monotonic knots)',
               'numpy/scipy/pandas read-only APIs are pure; results of the accessor methods listed in framecheck.FRESH are fresh objects',
               'CoolProp AbstractState contract; its state object is a cache (typestate obligations)',
               'real arithmetic for floats; ln is an uninterpreted function with exp(ln x) = x')
    rep.trust('CPython 3.12', 'z3 5.1.0', 'pgv.sx', 'pgv.framecheck (conservative AST analysis)')
    pairs = [(None, q) for q in QUERIES]
    targets = [q for q in QUERIES if q[3] is not None]
    priors = QUERIES if rep.tier == 'thorough' else [q for q in QUERIES if q[0] in (
        'loading_at', 'loading_at.fill0', 'loading_at.extrapolate', 'loading_at.des', 'pressure_at', 'pressure_at.extrapolate',
        'spreading_pressure_at', 'loading_at.Pa')]
    for prior, query in itertools.product(priors, targets):
        pairs.append((prior, query))
    jobs = [('cache', [pr]) for pr in pairs]
    jobs.append(('static', None))
    from pgv.checks import adsorbate_getters
    jobs += adsorbate_getters.jobs(P, which=('sequences',))
    obs, crashes = par.pmap(_dispatch, jobs)
    rep.extend(obs)
    if crashes:
        rep.crash = crashes[0]
    nb = bounded(rep)
    rep.shape_bounded = {'N': 5, 'what': 'cache-invisibility pairs on isotherms with 3 adsorption + 2 desorption symbolic points',
                         'obligations': sum(1 for o in obs if '/cache.invisible/' in o['name'] or '/frame.only_caches_written/' in o['name'])}
    rep.notes.append(f"{len(pairs)} (prior query, query) pairs explored symbolically; {nb} bounded cases on real isotherms")
