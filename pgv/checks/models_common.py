"""Shared machinery for C10/C11: the 16 real model classes executed on z3 values (SX) or sympy symbols (CAS)."""
from __future__ import annotations

import importlib
import signal
from fractions import Fraction

from pgv import lift, npproxy, stubs, sx

MODELS = {
    'Henry': 'henry', 'Langmuir': 'langmuir', 'DSLangmuir': 'dslangmuir', 'TSLangmuir': 'tslangmuir', 'BET': 'bet', 'GAB': 'gab',
    'Freundlich': 'freundlich', 'DR': 'dr', 'DA': 'da', 'Quadratic': 'quadratic', 'TemkinApprox': 'temkinapprox', 'Toth': 'toth',
    'JensenSeaton': 'jensenseaton', 'Virial': 'virial', 'FHVST': 'fhvst', 'WVST': 'wvst',
}
# parameter domains = interior of the declared bounds (checked against param_default_bounds at run time)
DOMAIN = {
    'Henry': {'K': 'pos'}, 'Langmuir': {'K': 'pos', 'n_m': 'pos'},
    'DSLangmuir': {'n_m1': 'pos', 'K1': 'pos', 'n_m2': 'pos', 'K2': 'pos'},
    'TSLangmuir': {'n_m1': 'pos', 'n_m2': 'pos', 'n_m3': 'pos', 'K1': 'pos', 'K2': 'pos', 'K3': 'pos'},
    'BET': {'n_m': 'pos', 'C': 'pos', 'N': 'unit'}, 'GAB': {'n_m': 'pos', 'C': 'pos', 'K': 'unit'},
    'Freundlich': {'K': 'pos', 'm': 'pos'}, 'DR': {'n_m': 'pos', 'e': 'pos'}, 'DA': {'n_m': 'pos', 'e': 'pos', 'm': 'one_three'},
    'Quadratic': {'n_m': 'pos', 'Ka': 'real', 'Kb': 'real'}, 'TemkinApprox': {'n_m': 'pos', 'K': 'pos', 'tht': 'pos'},
    'Toth': {'n_m': 'pos', 'K': 'pos', 't': 'pos'}, 'JensenSeaton': {'K': 'pos', 'a': 'pos', 'b': 'pos', 'c': 'pos'},
    'Virial': {'K': 'pos', 'A': 'real', 'B': 'real', 'C': 'real'}, 'FHVST': {'n_m': 'pos', 'K': 'pos', 'a1v': 'real'},
    'WVST': {'n_m': 'pos', 'K': 'pos', 'L1v': 'real', 'Lv1': 'real'},
}
_BOUNDS = {'pos': (0, float('inf')), 'unit': (0, 1), 'one_three': (1, 3), 'real': (-float('inf'), float('inf'))}

_ST = {}


def prepare():
    if _ST:
        return _ST
    import pygaps
    pygaps.logger.disabled = True
    from pygaps.utilities import exceptions as E
    mods, classes = {}, {}
    for name, mod in MODELS.items():
        m = importlib.import_module(f"pygaps.modelling.{mod}")
        cls = getattr(m, name)
        for meth in ('loading', 'pressure', 'spreading_pressure', '__init_parameters__'):
            if meth in cls.__dict__:
                lift.lift_method(cls, meth)
        mods[name], classes[name] = m, cls
    _ST.update(mods=mods, classes=classes, E=E, px_sx=npproxy.NumpyProxy('sx'), px_cas=npproxy.NumpyProxy('sympy'))
    return _ST


def use_mode(mode):
    st = prepare()
    px = st['px_sx'] if mode == 'sx' else st['px_cas']
    for m in st['mods'].values():
        m.numpy = px
    return st


def bounds_ok(name):
    """declared param_default_bounds agree with the DOMAIN table used for the obligations"""
    st = prepare()
    cls = st['classes'][name]
    names = cls.param_names if isinstance(cls.param_names, (tuple, list)) else (cls.param_names,)
    got = dict(zip(names, [tuple(float(x) for x in b) for b in cls.param_default_bounds]))
    want = {k: tuple(float(x) for x in _BOUNDS[v]) for k, v in DOMAIN[name].items()}
    return got == want, f"declared {got} vs used {want}"


def sx_model(eng, name, suffix=''):
    st = prepare()
    cls = st['classes'][name]
    m = cls.__new__(cls)
    m.params = {}
    for k, dom in DOMAIN[name].items():
        if dom == 'pos':
            m.params[k] = eng.real(k + suffix, positive=True)
        elif dom == 'unit':
            v = eng.real(k + suffix, positive=True)
            eng.assume(v.e < 1)
            m.params[k] = v
        elif dom == 'one_three':
            v = eng.real(k + suffix, positive=True)
            eng.assume((v.e > 1) & (v.e < 3) if False else sx.z3.And(v.e > 1, v.e < 3))
            m.params[k] = v
        else:
            m.params[k] = eng.real(k + suffix)
    if name in ('DR', 'DA'):
        rt = eng.real('RT' + suffix, positive=True)
        m.minus_rt = -rt
    return m


def cas_model(name):
    import sympy as sp
    st = prepare()
    cls = st['classes'][name]
    m = cls.__new__(cls)
    m.params = {}
    syms = {}
    for k, dom in DOMAIN[name].items():
        if dom == 'pos':
            s = sp.Symbol(k, positive=True)
        elif dom == 'unit':
            u = sp.Symbol(k + '_u', positive=True)  # K = 1/(1+u) in (0,1)
            s = 1 / (1 + u)
        elif dom == 'one_three':
            u = sp.Symbol(k + '_u', positive=True)
            s = 1 + 2 / (1 + u)  # (1,3)
        else:
            s = sp.Symbol(k, real=True)
        m.params[k] = s
        syms[k] = s
    if name in ('DR', 'DA'):
        rt = sp.Symbol('RT', positive=True)
        m.minus_rt = -rt
        syms['RT'] = rt
    return m, syms


class Timeout(Exception):
    pass


def with_timeout(seconds, f, *a):
    def handler(signum, frame):
        raise Timeout()
    old = signal.signal(signal.SIGALRM, handler)
    signal.alarm(seconds)
    try:
        return f(*a)
    finally:
        signal.alarm(0)
        signal.signal(signal.SIGALRM, old)


def cas_is_zero(expr, symbols=(), seconds=40, seed=0):
    """-> ('proved'|'refuted'|'unknown', detail).  sympy rewriting; numeric witness search (mpmath) decides refutations."""
    import sympy as sp

    def attempt():
        e = sp.sympify(expr)
        if e == 0:
            return True
        for f in (sp.simplify, lambda x: sp.simplify(sp.expand_log(sp.powsimp(x, force=True), force=True)),
                  lambda x: sp.expand(sp.together(x).as_numer_denom()[0]), lambda x: sp.simplify(sp.powdenest(x, force=True)),
                  lambda x: sp.simplify(sp.logcombine(x, force=True))):
            try:
                if f(e) == 0:
                    return True
            except Exception:
                continue
        return False

    try:
        if with_timeout(seconds, attempt):
            return 'proved', 'sympy: residual simplifies to 0'
    except Timeout:
        pass
    # numeric witness search
    import random
    import mpmath
    rnd = random.Random(seed)
    e = sp.sympify(expr)
    free = sorted(e.free_symbols, key=lambda s: s.name)
    worst = None
    nz = 0
    n_eval = 0
    for it in range(90):
        vals = {}
        # moderate magnitudes first, then corners (very small / very large positive values: clamps, cut-offs and
        # piecewise definitions show only there)
        pool = [0.05, 0.3, 0.7, 1.3, 2.9, 7.5] if it < 60 else [1e-6, 1e-4, 1e-3, 1e-2, 30.0, 1e3, 1e5]
        for s in free:
            vals[s] = sp.Float(rnd.choice(pool if (it < 60 or rnd.random() < 0.5) else [0.3, 1.3, 2.9]) * rnd.uniform(0.5, 1.5), 50) if s.is_positive \
                else sp.Float(rnd.uniform(-2, 2), 50)
        try:
            v = sp.N(e.subs(vals), 40)
            if v.is_real is False or not v.is_number:
                continue
            scale = max(1, *[abs(sp.N(a.subs(vals), 30)) for a in (e.args if e.is_Add else (e,)) if a.subs(vals).is_number] or [1])
            n_eval += 1
            if abs(v) > sp.Float('1e-25') * scale:
                nz += 1
                worst = {str(k): float(x) for k, x in vals.items()}
                worst['residual'] = float(v)
        except Exception:
            continue
    if nz:
        return 'refuted', worst
    if n_eval >= 20:
        return 'unknown', f'sympy did not reduce the residual; it vanishes (1e-25) at {n_eval} random 50-digit points'
    return 'unknown', 'sympy did not reduce the residual and it could not be evaluated numerically'
