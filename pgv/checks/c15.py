"""C15 -- characterisation results do not depend on the units the isotherm is stored in.

(1) call-protocol obligation per entry point: every datum that influences the result is read through an accessor
    call that names a *complete* target representation (pressure mode [+unit]; loading basis + unit), and the stored
    pressure/loading labels are not read.  With the accessor contract of C03 (result determined by the requested
    representation alone) this gives invariance for all stored representations at once.
(2) scaling clause, relational: raw(p, k*n) vs raw(p, n) with the linregress scaling lemma (extensive x k, intensive same).
(3) bounded stand-in: real isotherms converted to other representations / JSON round trip, results compared numerically.
"""
from __future__ import annotations

import numpy
import z3

from pgv import par, stubs, sx
from pgv.util import collect, static_ob

P = 'C15'
LABELS = ('pressure_mode', 'pressure_unit', 'loading_basis', 'loading_unit')
ACCESSORS = ('pressure', 'loading', 'pressure_at', 'loading_at', 'other_data', 'spreading_pressure_at')


def _recording_class(base_cls, log):
    state = {'depth': 0}

    def wrap(name):
        orig = getattr(base_cls, name)

        def f(self, *a, **kw):
            if state['depth'] == 0:
                log.append(('call', name, dict(kw), len(a)))
            state['depth'] += 1
            try:
                return orig(self, *a, **kw)
            finally:
                state['depth'] -= 1
        return f

    def ga(self, name):
        if name in LABELS and state['depth'] == 0:
            log.append(('label', name))
        return object.__getattribute__(self, name)

    ns = {n: wrap(n) for n in ACCESSORS if hasattr(base_cls, n)}
    ns['__getattribute__'] = ga
    # conversions / exports read labels legitimately inside themselves
    for n in ('to_dict', 'convert', 'convert_pressure', 'convert_loading', 'convert_material', 'data', 'has_branch', '__init__', 'units'):
        if hasattr(base_cls, n) and not isinstance(getattr(base_cls, n), property):
            ns[n] = wrap(n)
    return type('Recording' + base_cls.__name__, (base_cls,), ns)


def _complete(call):
    _c, name, kw, _n = call
    need_p = name in ('pressure', 'pressure_at', 'loading_at', 'spreading_pressure_at')
    need_l = name in ('loading', 'pressure_at', 'loading_at')
    ok = True
    why = []
    if need_p:
        m = kw.get('pressure_mode')
        if m not in ('absolute', 'relative', 'relative%'):
            ok = False
            why.append('pressure_mode not named')
        elif m == 'absolute' and not kw.get('pressure_unit'):
            ok = False
            why.append('absolute pressure requested without unit')
    if need_l:
        b = kw.get('loading_basis')
        if not b:
            ok = False
            why.append('loading_basis not named')
        elif b not in ('fraction', 'percent') and not kw.get('loading_unit'):
            ok = False
            why.append('loading_unit not named')
    return ok, why


ENTRY = {
    'area_BET': lambda c, iso, ref: c.area_BET(iso),
    'area_langmuir': lambda c, iso, ref: c.area_langmuir(iso),
    't_plot': lambda c, iso, ref: c.t_plot(iso),
    'alpha_s': lambda c, iso, ref: c.alpha_s(iso, ref, reference_area='BET', t_limits=(0.3, 1.5)),
    'dr_plot': lambda c, iso, ref: c.dr_plot(iso, p_limits=(0, 0.1)),
    'da_plot': lambda c, iso, ref: c.da_plot(iso, exp=2.3, p_limits=(0, 0.1)),
    'psd_mesoporous': lambda c, iso, ref: c.psd_mesoporous(iso, psd_model='BJH'),
    'psd_microporous': lambda c, iso, ref: c.psd_microporous(iso, psd_model='HK'),
    'psd_dft': lambda c, iso, ref: c.psd_dft(iso),
}


def protocol_block(_b):
    import os
    import pygaps
    import pygaps.characterisation as pgc
    import pygaps.parsing as pgp
    pygaps.logger.disabled = True
    data = os.path.join(os.environ.get('PGV_REPO', '/repo'), 'docs/examples/data/characterisation')
    base = pgp.isotherm_from_json(os.path.join(data, 'MCM-41 N2 77.355.json'))
    refb = pgp.isotherm_from_json(os.path.join(data, 'SiO2 N2 77.355.json'))
    obs = []
    for name, call in ENTRY.items():
        log, rlog = [], []
        iso = type(base).from_isotherm(base, isotherm_data=base.data_raw.copy(), pressure_key=base.pressure_key, loading_key=base.loading_key)
        # the reference is a BET model isotherm of the reference material (as in the repository's own use of alpha_s)
        ref = pygaps.ModelIsotherm.from_pointisotherm(refb, model='BET')
        iso.__class__ = _recording_class(type(iso), log)
        ref.__class__ = _recording_class(type(ref), rlog)
        del log[:], rlog[:]
        try:
            call(pgc, iso, ref)
            err = ''
        except Exception as exc:
            err = f"{type(exc).__name__}: {exc}"[:160]
        b = f"{P}/characterisation.{name}"
        obs.append(static_ob(f"{b}/protocol.entry_point_runs_on_sample_isotherm/MCM-41", not err, err, backend='trace'))
        for who, lg in (('isotherm', log), ('reference_isotherm', rlog)):
            if who == 'reference_isotherm' and name != 'alpha_s':
                continue
            calls = [e for e in lg if e[0] == 'call' and e[1] in ACCESSORS]
            labels = sorted(set(e[1] for e in lg if e[0] == 'label'))
            obs.append(static_ob(f"{b}/protocol.data_read_through_accessors/{who}", len(calls) >= 1, f"{len(calls)} accessor calls", backend='trace'))
            for k, c in enumerate(calls):
                ok, why = _complete(c)
                obs.append(static_ob(f"{b}/protocol.complete_request/{who}|{c[1]}#{k}", ok, f"{c[1]}({c[2]}): {'; '.join(why)}", backend='trace',
                                     replay={'kind': 'c15.invariance', 'entry': name}))
            obs.append(static_ob(f"{b}/protocol.stored_labels_not_read/{who}", not labels, f"labels read outside accessors: {labels}", backend='trace',
                                 replay={'kind': 'c15.invariance', 'entry': name}))
    return obs


# ---------------------------------------------------------------------------------
# scaling clause (relational, SX)
# ---------------------------------------------------------------------------------

class ScalingStats(stubs.StatsStub):
    """linregress with the scaling lemma: linregress(x, k*y) = (k*slope, k*intercept, r, p, k*stderr)"""

    def __init__(self, k):
        super().__init__()
        self.k = k

    def linregress(self, x, y=None, **kw):
        eng = sx.cur()
        xs, ys = list(x), list(y)
        for prev in self.calls:
            if len(prev['x']) == len(xs) and all(a is b or sx.eq(a, b) is True for a, b in zip(prev['x'], xs)):
                for fac in (self.k, 1 / self.k):
                    cond = z3.And(*[sx._b(sx.eq(ys[i], fac * prev['y'][i])) for i in range(len(ys))])
                    if eng._check(z3.Not(cond)) == z3.unsat:
                        s, c, r, p, se = prev['result']
                        res = (fac * s, fac * c, r, p, fac * se)
                        self.calls.append({'x': xs, 'y': ys, 'exact': False, 'result': res, 'scaled_from': prev})
                        return res
        s, c, r, se = eng.fresh('slope'), eng.fresh('icpt'), eng.fresh('r'), eng.fresh('stderr')
        eng.assume(z3.And(r.e >= -1, r.e <= 1, se.e >= 0))
        res = (s, c, r, sx.SymReal(0), se)
        self.calls.append({'x': xs, 'y': ys, 'exact': False, 'result': res})
        return res


def scaling_block(args):
    method, n = args
    from pgv.checks import c14
    st = c14._prep()
    E = st['E']
    base = f"{P}/{ {'bet': 'area_bet.area_BET_raw', 'langmuir': 'area_lang.area_langmuir_raw', 'tplot': 't_plots.t_plot_raw'}[method] }"
    cfg = f"n={n}"
    eng = sx.Engine(max_paths=2000, div0='assume')

    def run():
        k = eng.real('k', positive=True)
        ps = c14._pressures(eng, n)
        ns = [eng.real(f'n{i}', positive=True) for i in range(n)]
        lo, hi = eng.real('lo', positive=True), eng.real('hi', positive=True)
        stat = ScalingStats(k)
        x = {'replay': {'kind': 'c15.scaling', 'method': method}}
        if method in ('bet', 'langmuir'):
            mod = st['AB'] if method == 'bet' else st['AL']
            mod.stats = stat
            f = mod.area_BET_raw if method == 'bet' else mod.area_langmuir_raw
            sig = eng.real('sigma', positive=True)

            def call(vals):
                try:
                    return ('return', f(c14._arr(ps), c14._arr(vals), sig, (lo, hi)))
                except E.CalculationError:
                    return ('CalculationError', None)
            r1 = call(ns)
            r2 = call([k * v for v in ns])
            eng.prove(f"{base}/scaling.same_outcome_kind/{cfg}", r1[0] == r2[0], extra=x)
            if r1[0] != 'return' or r2[0] != 'return':
                return
            a, b = r1[1], r2[1]
            if method == 'bet':
                eng.prove(f"{base}/scaling.extensive_results_scale/{cfg}", sx.And(sx.eq(b[0], k * a[0]), sx.eq(b[2], k * a[2])), extra=x)
                eng.prove(f"{base}/scaling.intensive_results_unchanged/{cfg}", sx.And(sx.eq(b[1], a[1]), b[6] == a[6], b[7] == a[7], b[8] is a[8]), extra=x)
            else:
                eng.prove(f"{base}/scaling.extensive_results_scale/{cfg}", sx.And(sx.eq(b[0], k * a[0]), sx.eq(b[2], k * a[2])), extra=x)
                eng.prove(f"{base}/scaling.intensive_results_unchanged/{cfg}", sx.And(sx.eq(b[1], a[1]), b[5] == a[5], b[6] == a[6], b[7] is a[7]), extra=x)
        else:
            TP = st['TP']
            TP.stats = stat
            ts = [eng.real(f't{i}', positive=True) for i in range(n)]
            for i in range(1, n):
                eng.assume(ts[i] > ts[i - 1])
            M, rho = eng.real('M', positive=True), eng.real('rho', positive=True)
            tm = lambda p: c14._arr(ts)

            def call(vals):
                try:
                    return TP.t_plot_raw(c14._arr(vals), c14._arr(ps), tm, rho, M, (lo, hi))[0]
                except ValueError:
                    return 'ValueError'
            r1 = call(ns)
            r2 = call([k * v for v in ns])
            if r1 == 'ValueError' or r2 == 'ValueError':
                eng.prove(f"{base}/scaling.same_outcome_kind/{cfg}", r1 == r2, extra=x)
                return
            # the acceptance test `slope * max(t)/max(n) < 3` is scale free
            eng.prove(f"{base}/scaling.same_outcome_kind/{cfg}", len(r1) == len(r2), extra=x)
            if r1 and r2:
                eng.prove(f"{base}/scaling.extensive_results_scale/{cfg}", sx.And(sx.eq(r2[0]['area'], k * r1[0]['area']),
                                                                                 sx.eq(r2[0]['adsorbed_volume'], k * r1[0]['adsorbed_volume'])), extra=x)
                eng.prove(f"{base}/scaling.intensive_results_unchanged/{cfg}", r2[0]['corr_coef'] is r1[0]['corr_coef'], extra=x)
    return collect(eng, run, base, cfg)


def _dispatch(job):
    kind, arg = job
    return {'proto': protocol_block, 'scale': scaling_block}[kind](arg)


def run(rep):
    rep.level = 'proof'
    rep.fn(*[f"pygaps.characterisation.{n}" for n in ENTRY], 'area_BET_raw / area_langmuir_raw / t_plot_raw (scaling clause)',
           'isosteric_enthalpy and enthalpy_sorption_whittaker protocols: see C19')
    rep.assume('accessor contract of C03: the numbers returned by pressure()/loading()/..._at() depend on the requested representation only',
               'the protocol is observed on a run over a sample isotherm (MCM-41, reference SiO2) through a recording subclass; '
               'entry points are straight-line in their reads (no data-dependent accessor calls) -- checked by the static frame analysis of C04',
               'scipy.stats.linregress scaling lemma: linregress(x, k y) = (k slope, k intercept, r, p, k stderr)',
               'material basis/unit may stay the stored one (results are reported per stored material unit)')
    rep.trust('CPython 3.12', 'z3 5.1.0', 'pgv.sx', 'real pandas/scipy for the recorded run')
    jobs = [('scale', (m, n)) for m in ('bet', 'langmuir', 'tplot') for n in (3, 4)]
    obs, crashes = par.pmap(_dispatch, jobs)
    # the recorded protocol run uses the real, unpatched modules: in this process, not in a worker that installed stubs
    obs = protocol_block(None) + obs
    rep.extend(obs)
    if crashes:
        rep.crash = crashes[0]
    from pgv.replayers import c15 as R
    for res in R.invariance_cases(rep.seed, thorough=rep.tier == 'thorough'):
        rep.add_bounded(f"{P}/bounded.invariance/{res['name']}", res['ok'], res['detail'], replay={'kind': 'c15.case', 'name': res['name'], 'seed': rep.seed})
