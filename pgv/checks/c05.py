"""C05 -- isotherm identity is determined by content, and only by content.

With hashlib.md5 and json.dumps(sort_keys=True) idealised as injective, the identifier is determined by the
*document* handed to json.dumps and by the arguments of hash_pandas_object.  The real isotherm_to_hash runs with
recording stand-ins for md5 / hash_pandas_object on real isotherm objects of the three classes:
  sensitivity  -- every content field (each metadata key and value, the 7 labels, material name and properties,
                  adsorbate, temperature, model name/parameters/ranges/rmse, every data value and branch mark)
                  reaches the document / the digest argument, so changing it changes the identifier;
  only content -- no cache or reserved field reaches it; filling caches does not change it; the digest argument is
                  independent of row labels and of int-vs-float column types;
  determinism  -- no hash(), set iteration or unsorted dict on the path (static); sort_keys=True at the call site.
A bounded stand-in computes real identifiers over construction routes, PYTHONHASHSEED values and parse round trips.
"""
from __future__ import annotations

import ast
import inspect
import os
import subprocess
import sys

from pgv import par
from pgv.util import static_ob

P = 'C05'


class Capture:
    def __init__(self):
        self.docs = []
        self.frames = []
        self.dump_kwargs = []


def _install(cap):
    import json as real_json

    import pandas
    import pygaps.utilities.hashgen as H

    class J:
        @staticmethod
        def dumps(obj, **kw):
            cap.docs.append(real_json.loads(real_json.dumps(obj, **kw)))
            cap.dump_kwargs.append(kw)
            return real_json.dumps(obj, **kw)

    def hpo(df, index=True, **kw):
        cap.frames.append((df.copy(), index, kw))
        return pandas.Series([len(cap.frames)], dtype='uint64')  # opaque digest: one value per distinct call

    orig = (H.json, H.hash_pandas_object)
    H.json, H.hash_pandas_object = J, hpo
    return orig


def _uninstall(orig):
    import pygaps.utilities.hashgen as H
    H.json, H.hash_pandas_object = orig


def _document(iso):
    """(document handed to json.dumps without the opaque digest, digest argument or None, dumps kwargs)"""
    cap = Capture()
    orig = _install(cap)
    try:
        iso.iso_id
    finally:
        _uninstall(orig)
    doc = dict(cap.docs[-1])
    doc.pop('data_hash', None) if cap.frames else None
    fr = cap.frames[-1] if cap.frames else None
    return doc, fr, cap.dump_kwargs[-1], cap.docs[-1].get('data_hash')


def _same_digest_arg(a, b):
    if a is None or b is None:
        return a is b
    (fa, ia, ka), (fb, ib, kb) = a, b
    if ia or ib:
        # with index=True the row labels are hashed too
        same_index = list(fa.index) == list(fb.index)
    else:
        same_index = True
    return same_index and ia == ib and ka == kb and list(fa.columns) == list(fb.columns) and \
        all(str(fa[c].dtype) == str(fb[c].dtype) for c in fa.columns) and fa.reset_index(drop=True).equals(fb.reset_index(drop=True))


def _mk(kind, **changes):
    import pandas
    import pygaps
    import pygaps.modelling as pgm
    pygaps.logger.disabled = True
    meta = dict(material='pgv_m', adsorbate='nitrogen', temperature=77.0, pressure_mode='absolute', pressure_unit='bar',
                loading_basis='molar', loading_unit='mmol', material_basis='mass', material_unit='g', temperature_unit='K',
                user='me', number=3, flag=True, tags=['a', 'b'])
    data = {'pressure': [0.1, 0.2, 0.3, 0.25], 'loading': [1.0, 2.0, 3.0, 2.5], 'enthalpy': [9.0, 8.0, 7.0, 7.5], 'branch': [0, 0, 0, 1]}
    model = dict(name='Langmuir', params={'K': 2.0, 'n_m': 5.0}, pressure_range=(0.0, 1.0), loading_range=(0.0, 3.3), rmse=0.01)
    index = None
    for k, v in changes.items():
        if k.startswith('data.'):
            _d, col, i = k.split('.')
            data[col] = list(data[col])
            data[col][int(i)] = v
        elif k == 'index':
            index = v
        elif k == 'ints':
            data = {c: ([int(x * 10) for x in vals] if c in ('pressure', 'loading') and v == 'int' else [float(int(x * 10)) for x in vals] if c in ('pressure', 'loading') else vals) for c, vals in data.items()}
        elif k == 'branch_type':
            marks = data['branch']
            if v == 'guess':
                data = {c: vals for c, vals in data.items() if c != 'branch'}
            else:
                data = dict(data, branch=[{'bool': bool, 'float': float, 'int': int}[v](x) for x in marks])
        elif k.startswith('model.'):
            sub = k.split('.', 1)[1]
            if sub.startswith('params.'):
                model['params'] = dict(model['params'], **{sub.split('.')[1]: v})
            else:
                model[sub] = v
        elif k == 'material':
            meta['material'] = v
        elif k.startswith('-'):
            meta.pop(k[1:], None)
        else:
            meta[k] = v
    if kind == 'base':
        return pygaps.core.baseisotherm.BaseIsotherm(**meta)
    if kind == 'point':
        df = pandas.DataFrame(data, index=index)
        return pygaps.PointIsotherm(isotherm_data=df, pressure_key='pressure', loading_key='loading', **meta)
    m = pgm.get_isotherm_model(model['name'])
    m.params = dict(model['params'])
    m.pressure_range, m.loading_range, m.rmse = model['pressure_range'], model['loading_range'], model['rmse']
    return pygaps.ModelIsotherm(model=m, **meta)


SENSITIVE = {
    'all': [('user', 'you'), ('number', 4), ('flag', False), ('tags', ['a', 'c']), ('extra_key', 1), ('-user', None),
            ('pressure_mode', 'relative'), ('pressure_unit', 'Pa'), ('loading_basis', 'mass'), ('loading_unit', 'mol'),
            ('material_basis', 'volume'), ('material_unit', 'kg'), ('temperature_unit', '°C'), ('temperature', 78.0),
            ('adsorbate', 'argon'), ('material', 'pgv_other'), ('material', {'name': 'pgv_m2', 'density': 2.0}),
            ('material', {'name': 'pgv_m2', 'density': 3.0})],
    'point': [('data.pressure.1', 0.21), ('data.loading.2', 3.00000002), ('data.enthalpy.0', 9.5), ('data.branch.2', 1), ('data.branch.3', 0)],
    'model': [('model.name', 'Henry'), ('model.params.K', 2.5), ('model.params.n_m', 5.5), ('model.pressure_range', (0.0, 2.0)),
              ('model.loading_range', (0.0, 3.4)), ('model.rmse', 0.02)],
}


def _fix_change(kind, k, v):
    """some changes need companions to stay constructible"""
    ch = {k: v}
    if k == 'loading_basis' and v == 'mass':
        ch['loading_unit'] = 'g'
    if k == 'loading_unit' and v == 'mol':
        pass
    if k == 'material_basis' and v == 'volume':
        ch['material_unit'] = 'cm3'
    if k == 'model.name' and v == 'Henry':
        ch['model.params'] = {'K': 2.0}
    return ch


def glue_block(_b):
    import pygaps
    pygaps.logger.disabled = True
    obs = []
    for kind in ('base', 'point', 'model'):
        base_doc, base_fr, kw, _dh = _document(_mk(kind))
        b = f"{P}/hashgen.isotherm_to_hash"
        obs.append(static_ob(f"{b}/callsite.json_dumps_sort_keys/{kind}", kw.get('sort_keys') is True, str(kw), backend='trace'))
        obs.append(static_ob(f"{b}/callsite.digest_of_rounded_values_without_row_labels/{kind}",
                             (base_fr is None) == (kind != 'point') and (base_fr is None or (base_fr[1] is False and all(
                                 str(base_fr[0][c].dtype) == 'float64' for c in ('pressure', 'loading', 'enthalpy')))), backend='trace',
                             detail='' if base_fr is None else f"index={base_fr[1]}, dtypes={[str(t) for t in base_fr[0].dtypes]}"))
        # sensitivity: every content field reaches the document or the digest argument
        for (k, v) in SENSITIVE['all'] + SENSITIVE.get(kind, []):
            ch = _fix_change(kind, k, v)
            if k.startswith('model.') and 'model.params' in ch:
                iso2 = _mk(kind, **{'model.name': 'Henry'})
                iso2.model.params = {'K': 2.0}
            else:
                iso2 = _mk(kind, **ch)
            d2, f2, _kw, _ = _document(iso2)
            differs = d2 != base_doc or not _same_digest_arg(base_fr, f2)
            obs.append(static_ob(f"{b}/sensitivity.field_reaches_hashed_document/{kind}|{k}={str(v)[:20]}", differs, '', backend='trace',
                                 replay={'kind': 'c05.pair', 'iso': kind, 'change': {k: v}, 'expect': 'different'}))
        # only content: reserved / cache fields are absent, caches do not matter, construction route does not matter
        banned = [x for x in ('l_interpolator', 'p_interpolator', 'data_raw', 'pressure_key', 'loading_key', 'other_keys', '_material',
                              '_adsorbate', '_temperature', 'model', 'properties') if x in base_doc]
        obs.append(static_ob(f"{b}/only_content.no_reserved_or_cache_field_in_document/{kind}", not banned, str(banned), backend='trace'))
        if kind == 'point':
            iso = _mk('point')
            iso.loading_at(0.15)
            iso.pressure_at(1.5)
            iso.adsorbate.saturation_pressure(77.0)
            d3, f3, _k, _ = _document(iso)
            obs.append(static_ob(f"{b}/only_content.filled_caches_do_not_change_document/point", d3 == base_doc and _same_digest_arg(base_fr, f3), '', backend='trace',
                                 replay={'kind': 'c05.pair', 'iso': 'point', 'change': {'caches': True}, 'expect': 'same'}))
            for label, ch in (('row_labels_5_6_7_8', {'index': [5, 6, 7, 8]}), ('row_labels_strings', {'index': list('wxyz')}),
                              ('integer_literals', {'ints': 'int'}), ('branch_marks_as_booleans', {'branch_type': 'bool'}),
                              ('branch_marks_as_floats', {'branch_type': 'float'}), ('branch_marks_guessed', {'branch_type': 'guess'})):
                ref = _mk('point', ints='float') if label == 'integer_literals' else _mk('point')
                dr, fr, _k, _ = _document(ref)
                d4, f4, _k, _ = _document(_mk('point', **ch))
                obs.append(static_ob(f"{b}/only_content.digest_argument_independent_of_{label}/point", d4 == dr and _same_digest_arg(fr, f4), '', backend='trace',
                                     replay={'kind': 'c05.pair', 'iso': 'point', 'change': ch, 'expect': 'same'}))
            # the identifier has no memory: reading it, then changing the content (in-place conversion, or a new isotherm built
            # from a modified copy of the data table) gives the digest argument of the content as it is now
            import pandas
            import pygaps
            used = _mk('point')
            used.iso_id
            used.convert_pressure(unit_to='kPa')
            fresh = _mk('point')
            fresh.convert_pressure(unit_to='kPa')
            du, fu, _k, _ = _document(used)
            df_, ff, _k, _ = _document(fresh)
            obs.append(static_ob(f"{b}/only_content.identifier_read_before_conversion_leaves_no_trace/point", du == df_ and _same_digest_arg(fu, ff), '', backend='trace',
                                 replay={'kind': 'c05.history', 'case': 'read_then_convert'}))
            src = _mk('point')
            src.iso_id
            table = src.data_raw.copy()
            table['loading'] = table['loading'] * 2
            meta = {k: v for k, v in src.to_dict().items()}
            derived = pygaps.PointIsotherm(isotherm_data=table, pressure_key='pressure', loading_key='loading', **meta)
            scratch_ = pygaps.PointIsotherm(isotherm_data=pandas.DataFrame({c: list(table[c]) for c in table.columns}), pressure_key='pressure', loading_key='loading', **meta)
            dd, fd, _k, _ = _document(derived)
            ds, fs, _k, _ = _document(scratch_)
            d0, f0, _k, _ = _document(src)
            obs.append(static_ob(f"{b}/only_content.isotherm_built_from_modified_copy_of_a_read_table/point", dd == ds and _same_digest_arg(fd, fs) and not _same_digest_arg(fd, f0), '',
                                 backend='trace', replay={'kind': 'c05.history', 'case': 'derived_table'}))
            # the order in which supplementary columns were handed over is not content
            import pandas as _pd
            import pygaps as _pg
            base_cols = {'pressure': [0.1, 0.2, 0.3, 0.25], 'loading': [1.0, 2.0, 3.0, 2.5]}
            extra = {'temperature_cell': [77.1, 77.2, 77.3, 77.2], 'enthalpy': [9.0, 8.0, 7.0, 7.5], 'dose': [1.0, 2.0, 3.0, 4.0]}
            meta_ = {k: v for k, v in _mk('base').to_dict().items()}
            docs_ = []
            for order in (('temperature_cell', 'enthalpy', 'dose'), ('dose', 'enthalpy', 'temperature_cell'), ('enthalpy', 'dose', 'temperature_cell')):
                iso_ = _pg.PointIsotherm(isotherm_data=_pd.DataFrame({**base_cols, **{c: extra[c] for c in order}}), pressure_key='pressure', loading_key='loading', **meta_)
                docs_.append(_document(iso_))
            same_ = all(d[0] == docs_[0][0] and _same_digest_arg(d[1], docs_[0][1]) for d in docs_[1:])
            obs.append(static_ob(f"{b}/only_content.digest_argument_independent_of_supplementary_column_order/point", same_, '', backend='trace',
                                 replay={'kind': 'c05.history', 'case': 'column_order'}))
            # pandas digests depend on the column type: every numeric (or boolean) column reaches the digest as float64
            for label, ch in (('as_stored', {}), ('integer_literals', {'ints': 'int'}), ('boolean_marks', {'branch_type': 'bool'})):
                _d, fr_, _k, _ = _document(_mk('point', **ch))
                bad = [f"{c}:{fr_[0][c].dtype}" for c in fr_[0].columns if str(fr_[0][c].dtype) not in ('float64', 'object')]
                obs.append(static_ob(f"{b}/callsite.digest_argument_numeric_columns_are_float64/point|{label}", not bad, ', '.join(bad), backend='trace',
                                     replay={'kind': 'c05.pair', 'iso': 'point', 'change': ch or {'branch_type': 'bool'}, 'expect': 'same'}))
            # values equal to 8 decimals give the same digest argument
            d5, f5, _k, _ = _document(_mk('point', **{'data.loading.1': 2.000000001}))
            obs.append(static_ob(f"{b}/only_content.equal_to_8_decimals_same_digest_argument/point", d5 == base_doc and _same_digest_arg(base_fr, f5), '', backend='trace',
                                 replay={'kind': 'c05.pair', 'iso': 'point', 'change': {'data.loading.1': 2.000000001}, 'expect': 'same'}))
        # __eq__ is identifier equality
        a, c = _mk(kind), _mk(kind)
        obs.append(static_ob(f"{P}/baseisotherm.BaseIsotherm.__eq__/ensures.equal_content_equal_isotherms/{kind}", a == c and a.iso_id == c.iso_id, '', backend='trace'))
    return obs


def static_block(_b):
    import pygaps.core.baseisotherm as B
    import pygaps.modelling.base_model as BM
    import pygaps.utilities.hashgen as H
    obs = []
    for mod, fn in ((H, 'isotherm_to_hash'), (H, '_canonical_data'), (B.BaseIsotherm, 'to_dict'), (BM.IsothermBaseModel, 'to_dict')):
        f = getattr(mod, fn)
        tree = ast.parse(inspect.getsource(f).lstrip() if not inspect.getsource(f).startswith(' ') else __import__('textwrap').dedent(inspect.getsource(f)))
        bad = []
        for node in ast.walk(tree):
            if isinstance(node, ast.Call) and isinstance(node.func, ast.Name) and node.func.id in ('hash', 'id', 'set', 'frozenset', 'random'):
                bad.append(f"{node.func.id}() at line {node.lineno}")
            if isinstance(node, (ast.Set, ast.SetComp)):
                bad.append(f"set display at line {node.lineno}")
        name = f"{getattr(mod, '__name__', mod.__class__.__name__).replace('pygaps.', '')}.{fn}"
        obs.append(static_ob(f"{P}/{name}/determinism.no_hash_or_set_iteration_on_id_path/static", not bad, '; '.join(bad)))
    return obs


def _dispatch(job):
    kind, arg = job
    return glue_block(arg) if kind == 'glue' else static_block(arg)


def run(rep):
    rep.level = 'proof'
    rep.fn('pygaps.utilities.hashgen.isotherm_to_hash / _canonical_data', 'pygaps.core.baseisotherm.BaseIsotherm.to_dict / iso_id / __eq__',
           'pygaps.modelling.base_model.IsothermBaseModel.to_dict')
    rep.assume('hashlib.md5 and json.dumps(sort_keys=True) are injective on the documents met (collision-freedom idealisation)',
               'pandas.util.hash_pandas_object(df, index=False) is a function of the cell values and column dtypes only (assumed contract; '
               'the per-row hashes are summed, so the digest does not depend on the order of the rows)',
               'the obligations are evaluated on representative isotherms of the three classes (field kinds enumerated exhaustively; values are tokens)')
    rep.trust('CPython 3.12', 'pandas (DataFrame.equals / dtypes for comparing digest arguments)')
    obs, crashes = par.pmap(_dispatch, [('glue', None), ('static', None)])
    rep.extend(obs)
    if crashes:
        rep.crash = crashes[0]
    from pgv.replayers import c05 as R
    for res in R.bounded_cases(rep.seed, thorough=rep.tier == 'thorough'):
        rep.add_bounded(f"{P}/bounded.{res['name']}", res['ok'], res['detail'], replay={'kind': 'c05.bounded', 'name': res['name']})
