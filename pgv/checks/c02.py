"""C02 -- permanent conversions preserve the representation invariant RI over any history.

RI(iso): valid(labels) /\\ canon_p(data_p; labels) = P* /\\ canon_l(data_l; labels) = L* /\\ kelvin(T; unit) = T*.
Every public mutator is verified to preserve RI with the same ghosts, to name the requested
representation, to reset the caches, to touch nothing else, and -- when it refuses -- to change
nothing.  Induction over histories is the (stated) meta-argument.
"""
from __future__ import annotations

import itertools

from pgv import isostub as I, par, spec_si as S, stubs, sx

P = 'C02'
BAD = [None, '', 'xx']
DEF = dict(pressure_mode='absolute', pressure_unit='bar', loading_basis='molar', loading_unit='mmol',
           material_basis='mass', material_unit='g', temperature_unit='K')


def _frac(b):
    return b in ('fraction', 'percent')


def _lab(**kw):
    d = dict(DEF)
    d.update(kw)
    return d


def _cfg_labels(d):
    return f"{d['pressure_mode']}:{d['pressure_unit']}|{d['loading_basis']}:{d['loading_unit']}|" \
           f"{d['material_basis']}:{d['material_unit']}|{d['temperature_unit']}"


# ---------------------------------------------------------------------------------
# targets (the representation a call asks for), written from the property statement
# ---------------------------------------------------------------------------------

def target_pressure(lab, mode_to, unit_to):
    m = mode_to or lab['pressure_mode']
    if m == 'absolute':
        u = unit_to or (lab['pressure_unit'] if m == lab['pressure_mode'] else None)
    else:
        u = None
    return m, u


def target_loading(lab, basis_to, unit_to):
    b = basis_to or lab['loading_basis']
    if _frac(b):
        u = None
    else:
        u = unit_to or (lab['loading_unit'] if b == lab['loading_basis'] else None)
    return b, u


def target_material(lab, basis_to, unit_to):
    b = basis_to or lab['material_basis']
    u = unit_to or (lab['material_unit'] if b == lab['material_basis'] else None)
    return b, u


def _p_ok(m, u):
    return m in S.PRESSURE_MODES and (m != 'absolute' or u in S.U_P)


def _l_ok(b, u):
    return b in S.LOADING_BASES and (_frac(b) or u in S.LOADING_BASES[b])


def _m_ok(b, u):
    return b in S.MATERIAL_BASES and u in S.MATERIAL_BASES[b]


# ---------------------------------------------------------------------------------
# generic method runner
# ---------------------------------------------------------------------------------

def _needs(method, lab, tgt):
    """which adsorbate/material getters the spec conversion needs (to decide required refusals)"""
    need = set()
    if method == 'convert_pressure':
        if (lab['pressure_mode'] == 'absolute') != (tgt[0] == 'absolute'):
            need.add('saturation_pressure')
    return need


def run_method(method, lab, args, ads_fail, tgt_labels, tgt_valid, must_refuse, n=2):
    """Execute iso.<method>(**args) symbolically; returns obligation dicts.
    tgt_labels: full label dict expected after a normal return."""
    st = I.prepare()
    E = st['E']
    T = st['T']
    cfg = f"{_cfg_labels(lab)}→{','.join(f'{k}={v}' for k, v in args.items())}" + (f"|fail={'+'.join(sorted(ads_fail))}" if ads_fail else '')
    base = f"{P}/PointIsotherm.{method}"
    replay = {'kind': 'c02.method', 'method': method, 'labels': lab, 'args': args, 'ads_fail': sorted(ads_fail),
              'must_refuse': must_refuse, 'target': tgt_labels}
    eng = sx.Engine(max_paths=64)
    obs = []

    def run():
        iso = I.make_iso(eng, lab, n=n, ads_fail=ads_fail)
        ads, mat = iso._adsorbate._a, iso._material._m
        old = I.snapshot(iso)
        old_lab = I.labels_of(iso)
        try:
            getattr(iso, method)(**args)
            out = 'return'
        except E.pgError as exc:
            out = 'pgError'
        except sx.Unsupported:
            raise
        except Exception as exc:
            out = f"other:{type(exc).__name__}: {str(exc)[:80]}"
        x = {'replay': replay, 'observed': out}
        eng.prove(f"{base}/raises.only_pgError/{cfg}", out in ('return', 'pgError'), extra=x)
        if out == 'pgError':
            conds = I.unchanged(old, iso)
            eng.prove(f"{base}/raises.unchanged/{cfg}", I.conj(conds),
                      extra=dict(x, changed=I.first_false(conds)))
        if must_refuse:
            eng.prove(f"{base}/raises.required/{cfg}", out != 'return', extra=x)
        if out == 'return':
            new_lab = I.labels_of(iso)
            eng.prove(f"{base}/post.valid_labels/{cfg}", I.valid_labels(*new_lab), extra=dict(x, labels=new_lab))
            want = tuple(tgt_labels[k] for k in I.LABELS)
            eng.prove(f"{base}/post.labels_name_target/{cfg}", new_lab == want, extra=dict(x, labels=new_lab, want=want))
            if tgt_valid and I.valid_labels(*new_lab) and new_lab == want:
                newp, newl = iso.data_raw.cols['pressure'], iso.data_raw.cols['loading']
                oldp, oldl = old['__data__']['pressure'], old['__data__']['loading']
                ok_shape = len(newp) == len(oldp) and len(newl) == len(oldl)
                eng.prove(f"{base}/post.row_count/{cfg}", ok_shape, extra=x)
                if ok_shape:
                    eng.prove(f"{base}/post.RI_pressure/{cfg}", sx.And(*[sx.eq(
                        I.canon_p_of(newp[i], new_lab, ads, T), I.canon_p_of(oldp[i], old_lab, ads, T)) for i in range(len(oldp))]), extra=x)
                    eng.prove(f"{base}/post.RI_loading/{cfg}", sx.And(*[sx.eq(
                        I.canon_l_of(newl[i], new_lab, ads, mat, T), I.canon_l_of(oldl[i], old_lab, ads, mat, T)) for i in range(len(oldl))]), extra=x)
                eng.prove(f"{base}/post.RI_temperature/{cfg}", sx.eq(
                    I.kelvin_of(iso._temperature, new_lab[6]), I.kelvin_of(old['_temperature'], old_lab[6])), extra=x)
            # frame
            mod_fields = {'convert_pressure': ('pressure_mode', 'pressure_unit'),
                          'convert_loading': ('loading_basis', 'loading_unit'),
                          'convert_material': ('material_basis', 'material_unit'),
                          'convert_temperature': ('_temperature', 'temperature_unit')}[method]
            mod_cols = {'convert_pressure': ('pressure',), 'convert_loading': ('loading',),
                        'convert_material': ('loading',), 'convert_temperature': ()}[method]
            caches = ('l_interpolator', 'p_interpolator') if method != 'convert_temperature' else ()
            conds = I.unchanged(old, iso, except_fields=mod_fields + caches, except_cols=mod_cols)
            eng.prove(f"{base}/post.frame/{cfg}", I.conj(conds), extra=dict(x, changed=I.first_false(conds)))
            if method != 'convert_temperature':
                data_same = I.conj([c for c in I.unchanged(old, iso) if c[0].startswith(('column', 'data_object'))])
                reset = iso.l_interpolator is None and iso.p_interpolator is None
                # caches must be dropped whenever the stored numbers changed
                eng.prove(f"{base}/post.caches_reset/{cfg}", True if reset else data_same, extra=x)
                if new_lab == old_lab:
                    eng.prove(f"{base}/post.same_representation_is_identity/{cfg}", I.conj(I.unchanged(
                        old, iso, except_fields=caches)), extra=x)
            # call-site: every thermodynamic query was made at the isotherm temperature in kelvin
            Tk = I.kelvin_of(old['_temperature'], old_lab[6])
            temps = [t for (_w, t) in iso._adsorbate.calls if t is not None]
            eng.prove(f"{base}/callsite.temperature_in_kelvin/{cfg}", sx.And(*[sx.eq(t, Tk) for t in temps]) if temps else True, extra=x)
        return out

    npaths = 0
    for path in eng.explore(run):
        npaths += 1
        if path.outcome[0] == 'unsupported':
            obs.append({'name': f"{base}/sx.supported/{cfg}/p{path.idx}", 'verdict': 'unsupported', 'backend': 'sx',
                        'time': 0.0, 'model': None, 'detail': path.outcome[1], 'pc': path.pc, 'extra': {}})
        for o in path.obligations:
            d = o.to_dict()
            d['name'] += f"/p{path.idx}"
            obs.append(d)
    if npaths == 0:
        obs.append({'name': f"{base}/cover/{cfg}", 'verdict': 'unknown', 'backend': 'sx', 'time': 0.0, 'model': None,
                    'detail': 'no feasible path', 'pc': '', 'extra': {}})
    return obs


# ---------------------------------------------------------------------------------
# configurations
# ---------------------------------------------------------------------------------

def pressure_cfgs(tier):
    out = []
    modes = [None, '', 'absolute', 'relative', 'relative%', 'xx']
    units = [None, ''] + list(S.U_P) + ['xx']
    for (pm, pu) in S.pressure_reprs():
        for tu in ('K', '°C'):
            for mt, ut in itertools.product(modes, units):
                for fail in ((), ('saturation_pressure',)):
                    out.append(('p', pm, pu, tu, mt, ut, fail))
    return out


def pressure_block(block):
    obs = []
    for (_k, pm, pu, tu, mt, ut, fail) in block:
        lab = _lab(pressure_mode=pm, pressure_unit=pu, temperature_unit=tu)
        m, u = target_pressure(lab, mt, ut)
        valid = _p_ok(m, u)
        needs = _needs('convert_pressure', lab, (m, u)) if valid else set()
        must_refuse = (not valid) or bool(needs & set(fail))
        tgt = dict(lab, pressure_mode=m, pressure_unit=u)
        obs += run_method('convert_pressure', lab, {'mode_to': mt, 'unit_to': ut}, fail, tgt, valid, must_refuse)
    return obs


def loading_cfgs(tier):
    out = []
    bases = [None, ''] + list(S.LOADING_BASES) + ['xx']
    mats = S.material_reprs()
    for (lb, lu) in S.loading_reprs():
        for bt in bases:
            b = bt or lb
            if b in S.LOADING_BASES and not _frac(b):
                units = [None, ''] + list(S.LOADING_BASES[b]) + ['xx'] + (['kg'] if b != 'mass' else ['mol'])
            else:
                units = [None, 'g', 'xx']
            for ut in units:
                involve = _frac(lb) != _frac(b) if b in S.LOADING_BASES else False
                if involve or _frac(lb):
                    ms = mats + [('mass', None), ('xx', 'g'), (None, None)] if involve else [('mass', 'g'), ('volume', 'cm3'), ('mass', None)]
                else:
                    ms = [('mass', 'g')]
                for (mb, mu) in ms:
                    fails = [()]
                    if b in S.LOADING_BASES and b != lb and (mb, mu) in (('mass', 'g'), ('volume', 'cm3')):
                        fails.append(('molar_mass', 'liquid_density', 'gas_density', 'liquid_molar_density', 'gas_molar_density'))
                    for fail in fails:
                        out.append(('l', lb, lu, mb, mu, bt, ut, fail))
                    # the same conversion on an isotherm labelled in degrees Celsius (thermodynamic queries must still be
                    # made in kelvin): basis changes with the target's first unit
                    if b in S.LOADING_BASES and b != lb and ut in (None, (list(S.LOADING_BASES[b] or []) or [None])[0]) and (mb, mu) == ms[0]:
                        out.append(('l', lb, lu, mb, mu, bt, ut, (), '°C'))
    return out


def _l_needs(lb, b, mb):
    """does the spec conversion lb -> b need any adsorbate constant?"""
    def phys(x):
        return {'mass': 'mass', 'volume': 'volume_liquid', 'molar': 'molar'}.get(mb) if _frac(x) else x
    return phys(lb) != phys(b)


def loading_block(block):
    obs = []
    for item in block:
        (_k, lb, lu, mb, mu, bt, ut, fail), tu = item[:8], (item[8] if len(item) > 8 else 'K')
        lab = _lab(loading_basis=lb, loading_unit=lu, material_basis=mb, material_unit=mu, temperature_unit=tu)
        if not I.valid_labels(*[lab[k] for k in I.LABELS]):
            # start state must satisfy RI; for fraction isotherms the constructor accepts any material unit
            continue
        b, u = target_loading(lab, bt, ut)
        valid = _l_ok(b, u)
        involve = valid and (_frac(lb) != _frac(b))
        mat_ok = _m_ok(mb, mu)
        must_refuse = (not valid) or (involve and not mat_ok) or (valid and bool(fail) and _l_needs(lb, b, mb) and b != lb)
        tgt = dict(lab, loading_basis=b, loading_unit=u)
        obs += run_method('convert_loading', lab, {'basis_to': bt, 'unit_to': ut}, fail, tgt, valid, must_refuse)
    return obs


def material_cfgs(tier):
    out = []
    bases = [None, ''] + list(S.MATERIAL_BASES) + ['xx', 'fraction']
    for (mb, mu) in S.material_reprs():
        # (a fractional isotherm that comes out of the constructor keeps whatever loading-unit label it was given -- 'mmol' by
        # default --, one that comes out of convert_loading has None: both are states the methods must handle)
        for (lb, lu) in (('molar', 'mmol'), ('mass', 'g'), ('fraction', None), ('percent', None), ('percent', 'mmol'), ('fraction', 'g')):
            for bt in bases:
                b = bt or mb
                units = ([None, ''] + list(S.MATERIAL_BASES[b]) + ['xx'] + (['kg'] if b != 'mass' else ['mol'])) \
                    if b in S.MATERIAL_BASES else [None, 'g', 'xx']
                for ut in units:
                    fails = [()]
                    if _frac(lb) and b in S.MATERIAL_BASES and b != mb:
                        fails.append(('molar_mass', 'liquid_density', 'gas_density', 'liquid_molar_density', 'gas_molar_density'))
                    for fail in fails:
                        out.append(('m', mb, mu, lb, lu, bt, ut, fail))
                    if _frac(lb) and b in S.MATERIAL_BASES and b != mb and ut in (None, (list(S.MATERIAL_BASES[b] or []) or [None])[0]):
                        out.append(('m', mb, mu, lb, lu, bt, ut, (), '°C'))
    return out


def material_block(block):
    obs = []
    for item in block:
        (_k, mb, mu, lb, lu, bt, ut, fail), tu = item[:8], (item[8] if len(item) > 8 else 'K')
        lab = _lab(loading_basis=lb, loading_unit=lu, material_basis=mb, material_unit=mu, temperature_unit=tu)
        b, u = target_material(lab, bt, ut)
        # validity of the target = "the constructor would accept it" (for fraction/percent loadings the
        # material unit is a don't-care, see constructor_block)
        valid = b in S.MATERIAL_BASES and I.valid_labels(*[dict(lab, material_basis=b, material_unit=u)[k] for k in I.LABELS])
        must_refuse = (not valid) or (valid and bool(fail) and _frac(lb) and b != mb)
        tgt = dict(lab, material_basis=b, material_unit=u)
        obs += run_method('convert_material', lab, {'basis_to': bt, 'unit_to': ut}, fail, tgt, valid, must_refuse)
    return obs


T_SPELL = {'K': 'K', '°C': '°C', 'C': '°C', 'c': '°C', 'degC': '°C', 'Celsius': '°C'}


def temperature_block(_b):
    obs = []
    for tu in ('K', '°C'):
        for ut in list(T_SPELL) + [None, '', 'xx', 'F']:
            lab = _lab(temperature_unit=tu)
            valid = ut in T_SPELL
            tgt = dict(lab, temperature_unit=T_SPELL.get(ut, ut))
            obs += run_method('convert_temperature', lab, {'unit_to': ut}, (), tgt, valid, not valid)
    # the `temperature` property is T* (kelvin) in every representation
    st = I.prepare()
    for tu in ('K', '°C'):
        eng = sx.Engine()

        def run(tu=tu):
            iso = I.make_iso(eng, _lab(temperature_unit=tu))
            eng.prove(f"{P}/BaseIsotherm.temperature/ensures.kelvin/{tu}",
                      sx.eq(iso.temperature, S.kelvin(iso._temperature, tu)))
        for path in eng.explore(run):
            obs += [dict(o.to_dict(), name=o.name + f"/p{path.idx}") for o in path.obligations]
    return obs


# ---------------------------------------------------------------------------------
# convert(): verified modularly against the contracts of the three methods
# ---------------------------------------------------------------------------------

def convert_block(_b):
    st = I.prepare()
    E = st['E']
    obs = []
    vals = {'pressure_mode': [None, 'relative'], 'pressure_unit': [None, 'Pa'], 'material_basis': [None, 'volume'],
            'material_unit': [None, 'cm3'], 'loading_basis': [None, 'mass'], 'loading_unit': [None, 'g']}
    keys = list(vals)
    for combo in itertools.product(*[vals[k] for k in keys]):
        kw = dict(zip(keys, combo))
        cfg = ','.join(f"{k}={v}" for k, v in kw.items() if v is not None) or 'no-arguments'
        base = f"{P}/PointIsotherm.convert"
        eng = sx.Engine(max_paths=64)

        def run(kw=kw):
            iso = I.make_iso(eng, _lab())
            calls = []

            def stub(name):
                def f(**k):
                    calls.append((name, k))
                    # contract of the callee: it either completes or refuses with a pgError (and then changed nothing)
                    if eng.branch(sx.z3.Bool(f"refuse_{name}"), tag=f"refuse:{name}"):
                        calls.append(('refused', name))
                        raise E.CalculationError(f"stub {name} refuses")
                return f
            iso.convert_pressure = stub('pressure')
            iso.convert_material = stub('material')
            iso.convert_loading = stub('loading')
            try:
                iso.convert(**kw)
                out = 'return'
            except E.pgError:
                out = 'pgError'
            except sx.Unsupported:
                raise
            except Exception as exc:
                out = f"other:{type(exc).__name__}"
            want = []
            if kw['pressure_mode'] or kw['pressure_unit']:
                want.append(('pressure', {'mode_to': kw['pressure_mode'], 'unit_to': kw['pressure_unit']}))
            if kw['material_basis'] or kw['material_unit']:
                want.append(('material', {'basis_to': kw['material_basis'], 'unit_to': kw['material_unit']}))
            if kw['loading_basis'] or kw['loading_unit']:
                want.append(('loading', {'basis_to': kw['loading_basis'], 'unit_to': kw['loading_unit']}))
            made = [(n, {k: v for k, v in a.items() if k != 'verbose'}) for (n, a) in calls if n != 'refused']
            refused = [n for n in calls if n[0] == 'refused']
            if refused:
                # a refusal in step j: exactly the steps < j and j itself were attempted, the error propagates
                j = [n for (n, _a) in want].index(refused[0][1])
                eng.prove(f"{base}/compose.refusal_stops_sequence/{cfg}", made == want[:j + 1] and out == 'pgError',
                          extra={'observed': (made, out)})
            else:
                eng.prove(f"{base}/compose.order_pressure_material_loading/{cfg}", made == want and out == 'return',
                          extra={'observed': (made, out)})
            return out

        for path in eng.explore(run):
            obs += [dict(o.to_dict(), name=o.name + f"/p{path.idx}") for o in path.obligations]
    # end-to-end on the real methods for a sample (RI through the composition)
    for kw, lab in [
        (dict(pressure_mode='relative', loading_basis='mass', loading_unit='g', material_basis='volume', material_unit='cm3'), _lab()),
        (dict(pressure_unit='Pa', loading_basis='fraction'), _lab()),
        (dict(pressure_mode='absolute', pressure_unit='kPa', material_unit='kg'), _lab(pressure_mode='relative%', pressure_unit=None)),
        (dict(loading_basis='percent', material_basis='molar', material_unit='mol'), _lab(loading_basis='volume_liquid', loading_unit='cm3')),
    ]:
        obs += _convert_end_to_end(kw, lab)
    return obs


def _convert_end_to_end(kw, lab):
    st = I.prepare()
    T = st['T']
    cfg = _cfg_labels(lab) + '→' + ','.join(f"{k}={v}" for k, v in kw.items())
    base = f"{P}/PointIsotherm.convert"
    eng = sx.Engine(max_paths=64)
    obs = []

    def run():
        iso = I.make_iso(eng, lab)
        ads, mat = iso._adsorbate._a, iso._material._m
        old = I.snapshot(iso)
        old_lab = I.labels_of(iso)
        iso.convert(**kw)
        new_lab = I.labels_of(iso)
        want = dict(lab)
        m, u = target_pressure(lab, kw.get('pressure_mode'), kw.get('pressure_unit'))
        want.update(pressure_mode=m, pressure_unit=u)
        b, u = target_material(want, kw.get('material_basis'), kw.get('material_unit'))
        want.update(material_basis=b, material_unit=u)
        b, u = target_loading(want, kw.get('loading_basis'), kw.get('loading_unit'))
        want.update(loading_basis=b, loading_unit=u)
        eng.prove(f"{base}/end_to_end.labels/{cfg}", new_lab == tuple(want[k] for k in I.LABELS), extra={'observed': new_lab})
        newp, newl = iso.data_raw.cols['pressure'], iso.data_raw.cols['loading']
        oldp, oldl = old['__data__']['pressure'], old['__data__']['loading']
        eng.prove(f"{base}/end_to_end.RI_pressure/{cfg}", sx.And(*[sx.eq(
            I.canon_p_of(newp[i], new_lab, ads, T), I.canon_p_of(oldp[i], old_lab, ads, T)) for i in range(len(oldp))]))
        eng.prove(f"{base}/end_to_end.RI_loading/{cfg}", sx.And(*[sx.eq(
            I.canon_l_of(newl[i], new_lab, ads, mat, T), I.canon_l_of(oldl[i], old_lab, ads, mat, T)) for i in range(len(oldl))]))

    for path in eng.explore(run):
        obs += [dict(o.to_dict(), name=o.name + f"/p{path.idx}") for o in path.obligations]
    return obs


def constructor_block(_b):
    """RI is established: the last statements of PointIsotherm.__init__ set both caches to None (static),
    and the validity oracle accepts exactly the label tuples the spec calls valid (exhaustive)."""
    import ast
    import inspect
    st = I.prepare()
    obs = []
    src = inspect.getsource(st['PI'].PointIsotherm.__init__)
    import textwrap
    tree = ast.parse(textwrap.dedent(src))
    body = tree.body[0].body
    tail = [ast.unparse(s) for s in body[-2:]]
    ok = sorted(tail) == ['self.l_interpolator = None', 'self.p_interpolator = None']
    obs.append({'name': f"{P}/PointIsotherm.__init__/establishes.caches_none/static", 'verdict': 'proved' if ok else 'refuted',
                'backend': 'ast', 'time': 0.0, 'model': None, 'detail': str(tail), 'pc': '', 'extra': {}})
    # validity oracle vs spec, exhaustive over the label product (tables + None, '', unknown)
    bad = 0
    n = 0
    pms = list(S.PRESSURE_MODES) + BAD
    for pm in pms:
        for pu in list(S.U_P) + BAD:
            n += 1
            want = pm in S.PRESSURE_MODES and (pm != 'absolute' or pu in S.U_P)
            got = I.valid_labels(pm, pu, 'molar', 'mmol', 'mass', 'g', 'K')
            bad += want != got
    for lb in list(S.LOADING_BASES) + BAD:
        for lu in ['mmol', 'g', 'cm3'] + BAD:
            for mb in list(S.MATERIAL_BASES) + BAD:
                for mu in ['g', 'cm3', 'mol'] + BAD:
                    n += 1
                    if lb in S.LOADING_BASES and mb in S.MATERIAL_BASES:
                        want = _frac(lb) or (lu in S.LOADING_BASES[lb] and mu in S.MATERIAL_BASES[mb])
                    else:
                        want = False
                    got = I.valid_labels('absolute', 'bar', lb, lu, mb, mu, 'K')
                    bad += want != got
    for tu in ['K', '°C', 'C'] + BAD:
        n += 1
        bad += (tu in ('K', '°C')) != I.valid_labels('absolute', 'bar', 'molar', 'mmol', 'mass', 'g', tu)
    obs.append({'name': f"{P}/BaseIsotherm.__init__/validity_oracle.matches_spec/exhaustive", 'verdict': 'proved' if bad == 0 else 'refuted',
                'backend': 'eval', 'time': 0.0, 'model': None, 'detail': f"{n} label tuples, {bad} disagreements", 'pc': '', 'extra': {}})
    return obs


def _dispatch(job):
    kind, blk = job
    return {'p': pressure_block, 'l': loading_block, 'm': material_block, 't': temperature_block,
            'c': convert_block, 'k': constructor_block}[kind](blk)


def run(rep):
    rep.level = 'proof'
    rep.fn('pygaps.core.pointisotherm.PointIsotherm.convert_pressure', 'pygaps.core.pointisotherm.PointIsotherm.convert_loading',
           'pygaps.core.pointisotherm.PointIsotherm.convert_material', 'pygaps.core.pointisotherm.PointIsotherm.convert',
           'pygaps.core.baseisotherm.BaseIsotherm.convert_temperature', 'pygaps.core.baseisotherm.BaseIsotherm.temperature',
           'pygaps.core.baseisotherm.BaseIsotherm.__init__ (label checks, as validity oracle)')
    rep.inlined += ['converter_mode.c_pressure/c_loading/c_material/c_temperature (real, literal-lifted bodies; their own '
                    'contracts are discharged in C01)']
    rep.assume('DataFrame column get/set behaves as an element-wise column store that preserves row order (ColumnStore stub; '
               'columns are object arrays of 2 symbolic rows)',
               'Adsorbate/Material replaced by contract stubs (C01/C20 contracts); a stub may refuse with CalculationError',
               'binary64 treated as real arithmetic',
               'induction over call histories from the preserved invariant RI (meta-argument)')
    rep.trust('CPython 3.12', 'z3 5.1.0', 'pgv.sx', 'pgv.lift')
    jobs = []
    pc, lc, mc = pressure_cfgs(rep.tier), loading_cfgs(rep.tier), material_cfgs(rep.tier)
    for blk in par.chunks(pc, 24):
        jobs.append(('p', blk))
    for blk in par.chunks(lc, 64):
        jobs.append(('l', blk))
    for blk in par.chunks(mc, 32):
        jobs.append(('m', blk))
    jobs += [('t', None), ('c', None), ('k', None)]
    obs, crashes = par.pmap(_dispatch, jobs)
    rep.extend(obs)
    if crashes:
        rep.crash = crashes[0]
    from pgv.replayers import c02 as R02
    for res in R02.combined_convert_cases():
        rep.add_bounded(f"{P}/bounded.{res['name']}", res['ok'], res['detail'], replay={'kind': 'c02.combined', 'name': res['name']})
    for res in R02.native_history_cases():
        rep.add_bounded(f"{P}/bounded.{res['name']}", res['ok'], res['detail'], replay={'kind': 'c02.native_history', 'name': res['name']})
    rep.shape_bounded = {'N': 2, 'what': 'data columns are object arrays of 2 symbolic rows (row count/order are frame conditions)',
                         'obligations': len(obs)}
    rep.notes.append(f"start configurations x argument tuples enumerated exhaustively per method "
                     f"({len(pc)} pressure, {len(lc)} loading, {len(mc)} material calls); values symbolic")
