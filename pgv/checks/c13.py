"""C13 -- IAST results satisfy the IAST equations and the known closed forms.

The real iast_point / reverse_iast / helpers run on isotherm stubs whose spreading pressure Pi_i and loading
n_i are uninterpreted functions (n_i > 0), with scipy.optimize.root as a contract stub (success => residual = 0).
n = 2, 3, 4 components is the property's whole range.
"""
from __future__ import annotations

import itertools

import numpy
import z3

from pgv import npproxy, par, stubs, sx
from pgv.util import collect, static_ob

P = 'C13'


class IsoStub:
    """pure-component isotherm as seen by IAST: spreading_pressure_at and loading_at are functions of the pressure"""

    def __init__(self, i, mode='absolute'):
        self.i = i
        self.pressure_mode = mode
        self.pressure_unit = 'bar'
        self.PI = z3.Function(f'Pi{i}', z3.RealSort(), z3.RealSort())
        self.N = z3.Function(f'n{i}', z3.RealSort(), z3.RealSort())
        self.calls = []
        self.adsorbate = f'gas{i}'

    def spreading_pressure_at(self, p, branch='ads', **kw):
        self.calls.append(('spreading', p, branch, kw))
        return sx.SymReal(self.PI(sx.SymReal.lift(p)))

    def loading_at(self, p, branch='ads', **kw):
        self.calls.append(('loading', p, branch, kw))
        v = sx.SymReal(self.N(sx.SymReal.lift(p)))
        sx.cur().mark_pos(v)
        return v

    def pressure(self, branch='ads', **kw):
        return numpy.array([1.0, 1e9])


_ST = {}


def _prep():
    if _ST:
        return _ST
    import pygaps
    import pygaps.iast.pgiast as G
    from pygaps.utilities import exceptions as E
    from pgv import lift
    pygaps.logger.disabled = True
    for n in ('iast_point', 'reverse_iast', 'iast_point_fraction', 'iast_binary_svp', 'iast_binary_vle'):
        setattr(G, n, lift.lifted_source_function(getattr(G, n)))
    G.numpy = npproxy.NumpyProxy()
    _ST.update(G=G, E=E)
    return _ST


def _pi(iso, p):
    return sx.SymReal(iso.PI(sx.SymReal.lift(p)))


def _n(iso, p):
    return sx.SymReal(iso.N(sx.SymReal.lift(p)))


def forward_block(n):
    st = _prep()
    G, E = st['G'], st['E']
    base = f"{P}/pgiast.iast_point"
    replay = {'kind': 'c13.iast', 'which': 'forward', 'n': n}
    eng = sx.Engine(max_paths=512, div0='assume')

    def run():
        opt = stubs.OptimizeStub()
        G.optimize = opt
        isos = [IsoStub(i) for i in range(n)]
        ps = numpy.array([eng.real(f'p{i}', positive=True) for i in range(n)], dtype=object)
        try:
            res = G.iast_point(isos, ps, warningoff=True)
            out = 'return'
        except E.CalculationError:
            out = 'CalculationError'
        except sx.Unsupported:
            raise
        except Exception as exc:
            out = f"other:{type(exc).__name__}: {str(exc)[:80]}"
        x = {'replay': replay, 'observed': out}
        eng.prove(f"{base}/raises.only_CalculationError/n={n}", out in ('return', 'CalculationError'), extra=x)
        eng.prove(f"{base}/root.one_call/n={n}", len(opt.calls) == 1, extra=x)
        if len(opt.calls) != 1:
            return
        call = opt.calls[0]
        # (1) residual closure at a fresh probe: Pi_i(p_i/x_i) - Pi_{i+1}(p_{i+1}/x_{i+1}), x_n = 1 - sum
        probe = numpy.array([eng.real(f'xp{i}', positive=True) for i in range(n - 1)], dtype=object)
        xs = list(probe) + [1 - sum(probe[1:], probe[0])]
        eng.assume(xs[-1] > 0)
        r = call['fun'](probe)
        want = [_pi(isos[i], ps[i] / xs[i]) - _pi(isos[i + 1], ps[i + 1] / xs[i + 1]) for i in range(n - 1)]
        eng.prove(f"{base}/iast.residual_is_spreading_pressure_differences/n={n}",
                  len(r) == n - 1 and sx.And(*[sx.eq(a, b) for a, b in zip(r, want)]), extra=x)
        eng.prove(f"{base}/iast.guess_excludes_last_component/n={n}", len(call['x0']) == n - 1, extra=x)
        if not call['success']:
            eng.prove(f"{base}/raises.CalculationError_when_solver_fails/n={n}", out == 'CalculationError', extra=x)
            return
        sol = list(call['x']) + [1 - sum(call['x'][1:], call['x'][0])]
        inside = sx.And(*[sx.And(v >= 0, v <= 1) for v in sol])
        if out == 'CalculationError':
            # allowed only when some fraction is outside [0, 1]
            eng.prove(f"{base}/raises.CalculationError_only_outside_unit_interval/n={n}", sx.Not(inside), extra=x)
            return
        if out != 'return':
            return
        eng.prove(f"{base}/iast.fractions_in_unit_interval/n={n}", inside, extra=x)
        eng.prove(f"{base}/iast.fractions_sum_to_one/n={n}", sx.eq(sum(sol[1:], sol[0]), 1), extra=x)
        eng.prove(f"{base}/iast.equal_spreading_pressures/n={n}", sx.And(*[sx.eq(
            _pi(isos[0], ps[0] / sol[0]), _pi(isos[i], ps[i] / sol[i])) for i in range(1, n)]), extra=x)
        inv = sum([sol[i] / _n(isos[i], ps[i] / sol[i]) for i in range(1, n)], sol[0] / _n(isos[0], ps[0] / sol[0]))
        eng.prove(f"{base}/iast.ideal_mixing_total_loading/n={n}", len(res) == n and sx.And(*[sx.eq(res[i] * inv, sol[i]) for i in range(n)]), extra=x)
        eng.prove(f"{base}/iast.branch_passed_to_every_query/n={n}", all(c[2] == 'ads' for iso in isos for c in iso.calls), extra=x)

    return collect(eng, run, base, f"n={n}")


def reverse_block(n):
    st = _prep()
    G, E = st['G'], st['E']
    base = f"{P}/pgiast.reverse_iast"
    replay = {'kind': 'c13.iast', 'which': 'reverse', 'n': n}
    eng = sx.Engine(max_paths=512, div0='assume')

    def run():
        opt = stubs.OptimizeStub()
        G.optimize = opt
        isos = [IsoStub(i) for i in range(n)]
        # adsorbed fractions: concrete rationals summing to exactly 1 are required by the guard `sum != 1.0`;
        # symbolic fractions with the constraint sum == 1 are used (the guard forks and its refusing side is checked too)
        xs = numpy.array([eng.real(f'x{i}', positive=True) for i in range(n)], dtype=object)
        Pt = eng.real('Ptot', positive=True)
        sum_is_one = sx.eq(sum(xs[1:], xs[0]), 1)
        try:
            y, res = G.reverse_iast(isos, xs, Pt, warningoff=True)
            out = 'return'
        except E.CalculationError:
            out = 'CalculationError'
        except E.ParameterError:
            out = 'ParameterError'
        except sx.Unsupported:
            raise
        except Exception as exc:
            out = f"other:{type(exc).__name__}: {str(exc)[:80]}"
        x = {'replay': replay, 'observed': out}
        eng.prove(f"{base}/raises.only_pgError/n={n}", out in ('return', 'CalculationError', 'ParameterError'), extra=x)
        if out == 'ParameterError':
            eng.prove(f"{base}/raises.ParameterError_iff_fractions_do_not_sum_to_one/n={n}", sx.Not(sum_is_one), extra=x)
            return
        eng.prove(f"{base}/requires.fractions_sum_to_one_checked/n={n}", sum_is_one, extra=x)
        if len(opt.calls) != 1:
            eng.prove(f"{base}/root.one_call/n={n}", False, extra=x)
            return
        call = opt.calls[0]
        probe = numpy.array([eng.real(f'yp{i}', positive=True) for i in range(n - 1)], dtype=object)
        ys = list(probe) + [1 - sum(probe[1:], probe[0])]
        r = call['fun'](probe)
        want = [_pi(isos[i], Pt * ys[i] / xs[i]) - _pi(isos[i + 1], Pt * ys[i + 1] / xs[i + 1]) for i in range(n - 1)]
        eng.prove(f"{base}/iast.residual_is_spreading_pressure_differences/n={n}",
                  len(r) == n - 1 and sx.And(*[sx.eq(a, b) for a, b in zip(r, want)]), extra=x)
        if not call['success']:
            eng.prove(f"{base}/raises.CalculationError_when_solver_fails/n={n}", out == 'CalculationError', extra=x)
            return
        sol = list(call['x']) + [1 - sum(call['x'][1:], call['x'][0])]
        inside = sx.And(*[sx.And(v >= 0, v <= 1) for v in sol])
        if out == 'CalculationError':
            eng.prove(f"{base}/raises.CalculationError_only_outside_unit_interval/n={n}", sx.Not(inside), extra=x)
            return
        eng.prove(f"{base}/iast.gas_fractions_in_unit_interval/n={n}", inside, extra=x)
        eng.prove(f"{base}/iast.gas_fractions_returned_sum_to_one/n={n}",
                  len(y) == n and sx.And(*[sx.eq(y[i], sol[i]) for i in range(n)]) and sx.eq(sum(sol[1:], sol[0]), 1), extra=x)
        eng.prove(f"{base}/iast.equal_spreading_pressures/n={n}", sx.And(*[sx.eq(
            _pi(isos[0], Pt * sol[0] / xs[0]), _pi(isos[i], Pt * sol[i] / xs[i])) for i in range(1, n)]), extra=x)
        inv = sum([xs[i] / _n(isos[i], Pt * sol[i] / xs[i]) for i in range(1, n)], xs[0] / _n(isos[0], Pt * sol[0] / xs[0]))
        eng.prove(f"{base}/iast.ideal_mixing_total_loading/n={n}", len(res) == n and sx.And(*[sx.eq(res[i] * inv, xs[i]) for i in range(n)]), extra=x)

    return collect(eng, run, base, f"n={n}")


def guards_block(_b):
    st = _prep()
    G, E = st['G'], st['E']
    import pygaps.core.modelisotherm as MI
    obs = []
    for fn in ('iast_point', 'reverse_iast'):
        base = f"{P}/pgiast.{fn}"
        eng = sx.Engine(max_paths=64, div0='assume')

        def call(isos, vec, *a):
            G.optimize = stubs.OptimizeStub()
            try:
                (G.iast_point if fn == 'iast_point' else G.reverse_iast)(isos, vec, *a)
                return 'return'
            except E.ParameterError:
                return 'ParameterError'
            except E.CalculationError:
                return 'CalculationError'

        def run():
            two = [eng.real('a', positive=True), eng.real('b', positive=True)]
            extra = () if fn == 'iast_point' else (eng.real('Pt', positive=True),)
            for mode in ('relative', 'relative%'):
                eng.prove(f"{base}/raises.ParameterError_relative_pressure/{mode}",
                          call([IsoStub(0), IsoStub(1, mode)], numpy.array(two, dtype=object), *extra) == 'ParameterError')
            eng.prove(f"{base}/raises.ParameterError_single_component/n=1",
                      call([IsoStub(0)], numpy.array(two[:1], dtype=object), *extra) == 'ParameterError')
            eng.prove(f"{base}/raises.ParameterError_size_mismatch/n=2,len=3",
                      call([IsoStub(0), IsoStub(1)], numpy.array(two + [two[0]], dtype=object), *extra) == 'ParameterError')
            mi = object.__new__(MI.ModelIsotherm)

            class _M:
                name = 'Virial'
            mi.model = _M()
            mi.pressure_mode = 'absolute'
            eng.prove(f"{base}/raises.ParameterError_model_not_iast_capable/Virial",
                      call([IsoStub(0), mi], numpy.array(two, dtype=object), *extra) == 'ParameterError')
        obs += collect(eng, run, base, 'guards')
    return obs


def wrappers_block(_b):
    st = _prep()
    G, E = st['G'], st['E']
    obs = []
    # iast_point_fraction: partial pressures = y * P, everything else passed through
    base = f"{P}/pgiast.iast_point_fraction"
    eng = sx.Engine(max_paths=16)

    def run():
        rec = []
        real = G.iast_point
        G.iast_point = lambda isos, pp, **kw: rec.append((isos, pp, kw)) or 'RESULT'
        try:
            ys = [eng.real('y0', positive=True), eng.real('y1', positive=True), eng.real('y2', positive=True)]
            Pt = eng.real('Pt', positive=True)
            isos = [IsoStub(0), IsoStub(1), IsoStub(2)]
            r = G.iast_point_fraction(isos, ys, Pt, branch='des', adsorbed_mole_fraction_guess='G', warningoff=True)
        finally:
            G.iast_point = real
        ok = len(rec) == 1 and rec[0][0] is isos and r == 'RESULT' and rec[0][2].get('branch') == 'des' \
            and rec[0][2].get('adsorbed_mole_fraction_guess') == 'G' and rec[0][2].get('warningoff') is True
        eng.prove(f"{base}/wrapper.delegates_to_iast_point/n=3", ok)
        if ok:
            eng.prove(f"{base}/wrapper.partial_pressures_are_fraction_times_total/n=3",
                      sx.And(*[sx.eq(rec[0][1][i], ys[i] * Pt) for i in range(3)]))
    obs += collect(eng, run, base, 'wrap')

    # the gas fractions given as an array: the caller's array is not modified, and the same array used for a second
    # calculation at another total pressure gives that calculation's partial pressures
    eng = sx.Engine(max_paths=16)

    def run_arr():
        rec = []
        real = G.iast_point
        G.iast_point = lambda isos, pp, **kw: rec.append((isos, [v for v in pp], kw)) or 'RESULT'
        try:
            ys = [eng.real('y0', positive=True), eng.real('y1', positive=True)]
            arr = numpy.empty(2, dtype=object)
            arr[:] = ys
            P1, P2 = eng.real('P1', positive=True), eng.real('P2', positive=True)
            isos = [IsoStub(0), IsoStub(1)]
            G.iast_point_fraction(isos, arr, P1, warningoff=True)
            G.iast_point_fraction(isos, arr, P2, warningoff=True)
        finally:
            G.iast_point = real
        eng.prove(f"{base}/wrapper.callers_fraction_array_unchanged/n=2", all(arr[i] is ys[i] for i in range(2)),
                  extra={'replay': {'kind': 'c13.fraction_array'}, 'observed': str([str(v) for v in arr])})
        eng.prove(f"{base}/wrapper.second_use_of_the_same_array/n=2", len(rec) == 2 and sx.And(*[sx.eq(rec[1][1][i], ys[i] * P2) for i in range(2)]),
                  extra={'replay': {'kind': 'c13.fraction_array'}})
    obs += collect(eng, run_arr, base, 'wrap_array')

    # selectivity and vapour-liquid helpers
    for fn in ('iast_binary_svp', 'iast_binary_vle'):
        base = f"{P}/pgiast.{fn}"
        eng = sx.Engine(max_paths=16)

        def run2(fn=fn):
            rec = []
            real = G.iast_point_fraction

            def fake(isos, frac, pt, **kw):
                k = len(rec)
                pair = numpy.array([eng.real(f'n0_{k}', positive=True), eng.real(f'n1_{k}', positive=True)], dtype=object)
                rec.append((frac, pt, kw, pair))
                return pair
            G.iast_point_fraction = fake
            try:
                isos = [IsoStub(0), IsoStub(1)]
                if fn == 'iast_binary_svp':
                    from fractions import Fraction
                    mf = [Fraction(1, 4), Fraction(3, 4)]
                    prs = [eng.real('P0', positive=True), eng.real('P1', positive=True)]
                    out = G.iast_binary_svp(isos, mf, prs, branch='des')
                    sel = out['selectivity']
                    ok = len(rec) == 2 and len(sel) == 2
                    eng.prove(f"{base}/wrapper.one_point_calculation_per_pressure/npoints=2", ok and all(
                        rec[k][1] is prs[k] and rec[k][2].get('branch') == 'des' for k in range(2)))
                    if ok:
                        eng.prove(f"{base}/wrapper.selectivity_formula/npoints=2", sx.And(*[sx.eq(
                            sel[k], (rec[k][3][0] / mf[0]) / (rec[k][3][1] / mf[1])) for k in range(2)]))
                else:
                    Pt = eng.real('Pt', positive=True)
                    out = G.iast_binary_vle(isos, Pt, npoints=3, branch='des')
                    xd, yd = out['x'], out['y']
                    ok = len(rec) == 3 and len(xd) == 5 and len(yd) == 5
                    eng.prove(f"{base}/wrapper.one_point_calculation_per_composition/npoints=3", ok and all(
                        rec[k][1] is Pt and rec[k][2].get('branch') == 'des' for k in range(3)))
                    if ok:
                        eng.prove(f"{base}/wrapper.adsorbed_fraction_formula/npoints=3", sx.And(*[sx.eq(
                            xd[k + 1], rec[k][3][0] / (rec[k][3][0] + rec[k][3][1])) for k in range(3)]) & sx.eq(xd[0], 0) & sx.eq(xd[4], 1))
                        eng.prove(f"{base}/wrapper.gas_fractions_complementary/npoints=3", all(
                            abs(float(rec[k][0][0]) + float(rec[k][0][1]) - 1.0) < 1e-12 and abs(float(yd[k + 1]) - float(rec[k][0][0])) < 1e-12 for k in range(3)))
            finally:
                G.iast_point_fraction = real
        obs += collect(eng, run2, base, 'wrap')
    return obs


def lemma_block(_b):
    """closed forms and symmetry as lemmas over the IAST equations (z3)"""
    obs = []
    for n in (2, 3):
        eng = sx.Engine(timeout_ms=60000)

        def run(n=n):
            K = [eng.real(f'K{i}', positive=True) for i in range(n)]
            p = [eng.real(f'p{i}', positive=True) for i in range(n)]
            x = [eng.real(f'x{i}', positive=True) for i in range(n)]
            nt = eng.real('nt', positive=True)
            eng.assume(sx.eq(sum(x[1:], x[0]), 1))
            # Henry: Pi_i(P) = K_i P, n_i(P) = K_i P
            for i in range(1, n):
                eng.assume(sx.eq(K[0] * p[0] / x[0], K[i] * p[i] / x[i]))
            inv = sum([x[i] / (K[i] * p[i] / x[i]) for i in range(1, n)], x[0] / (K[0] * p[0] / x[0]))
            eng.assume(sx.eq(nt * inv, 1))
            eng.prove(f"{P}/lemma.henry_mixture/loadings_are_K_times_partial_pressure/n={n}",
                      sx.And(*[sx.eq(x[i] * nt, K[i] * p[i]) for i in range(n)]))
        obs += collect(eng, run, f"{P}/lemma.henry_mixture", f"n={n}")

        eng = sx.Engine(timeout_ms=60000)

        def run2(n=n):
            K = [eng.real(f'K{i}', positive=True) for i in range(n)]
            p = [eng.real(f'p{i}', positive=True) for i in range(n)]
            x = [eng.real(f'x{i}', positive=True) for i in range(n)]
            M = eng.real('M', positive=True)
            nt = eng.real('nt', positive=True)
            eng.assume(sx.eq(sum(x[1:], x[0]), 1))
            # equal-capacity Langmuir: Pi_i = M ln(1 + K_i P); ln injective => 1 + K_i p_i/x_i all equal
            for i in range(1, n):
                eng.assume(sx.eq(1 + K[0] * p[0] / x[0], 1 + K[i] * p[i] / x[i]))
            n_i = [M * (K[i] * p[i] / x[i]) / (1 + K[i] * p[i] / x[i]) for i in range(n)]
            inv = sum([x[i] / n_i[i] for i in range(1, n)], x[0] / n_i[0])
            eng.assume(sx.eq(nt * inv, 1))
            den = 1 + sum([K[i] * p[i] for i in range(1, n)], K[0] * p[0])
            eng.prove(f"{P}/lemma.equal_capacity_langmuir/extended_langmuir_closed_form/n={n}",
                      sx.And(*[sx.eq(x[i] * nt * den, M * K[i] * p[i]) for i in range(n)]))
        obs += collect(eng, run2, f"{P}/lemma.equal_capacity_langmuir", f"n={n}")
    # permutation symmetry: "chain of pairwise equalities" <=> "all equal" (order independent)
    eng = sx.Engine()

    def run3():
        a = [eng.real(f's{i}') for i in range(4)]
        chain = sx.And(sx.eq(a[0], a[1]), sx.eq(a[1], a[2]), sx.eq(a[2], a[3]))
        for perm in itertools.permutations(range(4)):
            pchain = sx.And(*[sx.eq(a[perm[i]], a[perm[i + 1]]) for i in range(3)])
            eng.prove(f"{P}/lemma.permutation_symmetry/chain_equalities_order_independent/{''.join(map(str, perm))}",
                      sx.And(sx.Implies(chain, pchain), sx.Implies(pchain, chain)))
    obs += collect(eng, run3, f"{P}/lemma.permutation_symmetry", '')
    return obs


def shared_system_block(n):
    """forward and reverse problems hand the same equation system to the solver (=> mutual inverses given uniqueness)"""
    st = _prep()
    G, E = st['G'], st['E']
    base = f"{P}/pgiast.reverse_iast"
    eng = sx.Engine(max_paths=64, div0='assume')

    def run():
        isos = [IsoStub(i) for i in range(n)]
        from fractions import Fraction
        xs_c = [Fraction(1, n + 1)] * (n - 1)
        xs_c = xs_c + [1 - sum(xs_c)]
        xs = numpy.array(xs_c, dtype=object)
        Pt = eng.real('Ptot', positive=True)
        ys = [eng.real(f'y{i}', positive=True) for i in range(n - 1)]
        ys_full = ys + [1 - sum(ys[1:], ys[0])]
        opt_f, opt_r = stubs.OptimizeStub(outcomes=('capture',)), stubs.OptimizeStub(outcomes=('capture',))
        G.optimize = opt_r
        try:
            G.reverse_iast(isos, xs, Pt, warningoff=True)
        except (E.pgError, stubs.Captured):
            pass
        G.optimize = opt_f
        try:
            G.iast_point(isos, numpy.array([Pt * y for y in ys_full], dtype=object), warningoff=True,
                         adsorbed_mole_fraction_guess=numpy.array(xs_c, dtype=object))
        except (E.pgError, stubs.Captured):
            pass
        if not opt_f.calls or not opt_r.calls:
            eng.prove(f"{base}/iast.shares_equation_system_with_forward_problem/n={n}", False, extra={'observed': 'no solver call'})
            return
        rf = opt_f.calls[0]['fun'](numpy.array(xs_c[:-1], dtype=object))
        rr = opt_r.calls[0]['fun'](numpy.array(ys, dtype=object))
        eng.prove(f"{base}/iast.shares_equation_system_with_forward_problem/n={n}", sx.And(*[sx.eq(a, b) for a, b in zip(rf, rr)]))
    return collect(eng, run, base, f"shared|n={n}")


def _dispatch(job):
    kind, arg = job
    return {'fwd': forward_block, 'rev': reverse_block, 'guards': guards_block, 'wrap': wrappers_block,
            'lemma': lemma_block, 'shared': shared_system_block}[kind](arg)


def run(rep):
    rep.level = 'proof'
    rep.fn('pygaps.iast.pgiast.iast_point (incl. closure spreading_pressure_differences)', 'pygaps.iast.pgiast.reverse_iast',
           'pygaps.iast.pgiast.iast_point_fraction', 'pygaps.iast.pgiast.iast_binary_svp', 'pygaps.iast.pgiast.iast_binary_vle')
    rep.assume('scipy.optimize.root(f, x0): success => f(x) = 0; nothing when success is false (stub forks both ways)',
               'pure-component isotherms: spreading_pressure_at and loading_at are functions of the pressure, loading > 0 (stubs)',
               'uniqueness of the IAST solution for strictly increasing spreading pressures (C11) -- used only for "mutual inverses"',
               'ln injective (equal-capacity Langmuir lemma); numpy array construction/concatenation as defined (object arrays)',
               'real arithmetic for floats; the float guards `sum(x) != 1.0` are read over the reals')
    rep.trust('CPython 3.12', 'z3 5.1.0', 'pgv.sx', 'pgv.lift', 'pgv.npproxy')
    ns = (2, 3, 4)
    jobs = [('fwd', n) for n in ns] + [('rev', n) for n in ns] + [('shared', n) for n in ns] + [('guards', None), ('wrap', None), ('lemma', None)]
    obs, crashes = par.pmap(_dispatch, jobs)
    rep.extend(obs)
    if crashes:
        rep.crash = crashes[0]
    # bounded stand-in: convergence on real model isotherms (solver tolerance)
    from pgv.replayers import c13 as R
    for res in R.real_mixtures(rep.seed, thorough=rep.tier == 'thorough'):
        rep.add_bounded(f"{P}/bounded.real_mixture/{res['name']}", res['ok'], res['detail'], replay={'kind': 'c13.real', 'name': res['name'], 'seed': rep.seed})
    for res in R.point_mixture_cases():
        rep.add_bounded(f"{P}/bounded.{res['name']}", res['ok'], res['detail'], replay={'kind': 'c13.point'})
    for res in R.helper_cases():
        rep.add_bounded(f"{P}/bounded.{res['name']}", res['ok'], res['detail'], replay={'kind': 'c13.helper', 'name': res['name']})
    for res in R.trace_component_cases(n=400 if rep.tier == 'thorough' else 120):
        rep.add_bounded(f"{P}/bounded.{res['name']}", res['ok'], res['detail'], replay={'kind': 'c13.trace'})
    for res in R.guess_cases():
        rep.add_bounded(f"{P}/bounded.{res['name']}", res['ok'], res['detail'], replay={'kind': 'c13.guess', 'name': res['name']})
    for res in R.argument_form_cases():
        rep.add_bounded(f"{P}/bounded.{res['name']}", res['ok'], res['detail'], replay={'kind': 'c13.form', 'name': res['name']})
    rep.notes.append('n = 2, 3, 4 components (the whole quantified range); values symbolic')
