"""C19 -- enthalpy methods recover the enthalpy built into consistent synthetic data.

isosteric_enthalpy_raw: rows ln p_j = -dH/(R T_j) + c (2..5 temperatures, any order) => every returned enthalpy == dH
(exact-fit lemma for linregress); van 't Hoff lemma (sympy) ties such rows to Langmuir/Toth/DS-Langmuir generators.
isosteric_enthalpy: one common, complete representation is requested from every isotherm (call protocol).
Whittaker: loop body == published closed form, skip set, triple-point cap (SX with stubs).
initial_enthalpy_point == first value of the enthalpy column of the branch.
"""
from __future__ import annotations

import itertools
from fractions import Fraction as F

import numpy

from pgv import lift, npproxy, par, stubs, sx
from pgv.util import collect, static_ob

P = 'C19'
R_GAS = F('8.31446261815324')
_ST = {}


def _prep():
    if _ST:
        return _ST
    import pygaps
    pygaps.logger.disabled = True
    import pygaps.characterisation.enth_sorp_whittaker as W
    import pygaps.characterisation.initial_enth as IE
    import pygaps.characterisation.isosteric_enth as ISO
    import pygaps.core.modelisotherm as MI
    from pygaps.utilities import exceptions as E
    import scipy.constants as sc
    consts = type('constants', (), {})()
    for k in ('gas_constant', 'R'):
        setattr(consts, k, F(repr(getattr(sc, k))))
    px = npproxy.NumpyProxy()
    ISO.isosteric_enthalpy_raw = lift.lifted_source_function(ISO.isosteric_enthalpy_raw)
    ISO.isosteric_enthalpy = lift.lifted_source_function(ISO.isosteric_enthalpy)
    ISO.numpy = px
    ISO.constants = consts
    W.enthalpy_sorption_whittaker = lift.lifted_source_function(W.enthalpy_sorption_whittaker)
    W.np = px
    W.scipy = type('scipy', (), {'constants': consts})()
    W.logger.disabled = True
    IE.initial_enthalpy_point = lift.lifted_source_function(IE.initial_enthalpy_point)
    _ST.update(ISO=ISO, W=W, IE=IE, MI=MI, E=E, consts=consts)
    return _ST


def raw_block(args):
    nT, nrows = args
    st = _prep()
    ISO = st['ISO']
    base = f"{P}/isosteric_enth.isosteric_enthalpy_raw"
    cfg = f"temperatures={nT}|rows={nrows}"
    replay = {'kind': 'c19.raw', 'nT': nT}
    eng = sx.Engine(max_paths=512, div0='assume')

    def run():
        stat = stubs.StatsStub()
        ISO.stats = stat
        Ts = [eng.real(f'T{j}', positive=True) for j in range(nT)]
        for a, b in itertools.combinations(range(nT), 2):
            eng.assume(sx.Not(sx.eq(Ts[a], Ts[b])))  # distinct, in any order
        dH = [eng.real(f'dH{k}', positive=True) for k in range(nrows)]
        cs = [eng.real(f'c{k}') for k in range(nrows)]
        rows = numpy.empty((nrows, nT), dtype=object)
        for k in range(nrows):
            for j in range(nT):
                rows[k, j] = sx.sym_exp(-dH[k] / (R_GAS * Ts[j]) + cs[k])
        enth, slopes, corr, errs = ISO.isosteric_enthalpy_raw(rows, Ts)
        x = {'replay': replay}
        eng.prove(f"{base}/isosteric.one_regression_per_loading_row/{cfg}", len(stat.calls) == nrows and len(enth) == nrows, extra=x)
        eng.prove(f"{base}/isosteric.regresses_ln_p_on_inverse_temperature/{cfg}", all(
            len(c['x']) == nT and sx.And(*[sx.eq(c['x'][j] * Ts[j], 1) for j in range(nT)]) is not False for c in stat.calls) and sx.And(*[
                sx.eq(c['x'][j] * Ts[j], 1) for c in stat.calls for j in range(nT)]), extra=x)
        eng.prove(f"{base}/isosteric.recovers_dH_in_kJ_per_mol/{cfg}", sx.And(*[sx.eq(enth[k] * 1000, dH[k]) for k in range(nrows)]), extra=x)
        eng.prove(f"{base}/isosteric.slope_is_minus_dH_over_R/{cfg}", sx.And(*[sx.eq(slopes[k] * R_GAS, -dH[k]) for k in range(nrows)]), extra=x)
    return collect(eng, run, base, cfg)


def vanthoff_block(_b):
    """sympy: at fixed loading, Langmuir / Toth / DS-Langmuir with K(T) = K0 exp(dH/(R T)) give ln p = c(n) - dH/(R T)"""
    import sympy as sp
    from pgv.checks import models_common as MC
    MC.use_mode('cas')
    obs = []
    dH, R, T1, T2, K0 = sp.symbols('dH R T1 T2 K0', positive=True)
    for name in ('Langmuir', 'Toth', 'DSLangmuir'):
        m1, s1 = MC.cas_model(name)
        m2, s2 = MC.cas_model(name)
        u = sp.Symbol('u', positive=True)
        if name == 'DSLangmuir':
            # both sites share the enthalpy: K_i(T) = K0_i exp(dH/RT)
            K01, K02 = sp.symbols('K01 K02', positive=True)
            for m, T in ((m1, T1), (m2, T2)):
                m.params['K1'] = K01 * sp.exp(dH / (R * T))
                m.params['K2'] = K02 * sp.exp(dH / (R * T))
            n = (m1.params['n_m1'] + m1.params['n_m2']) / (1 + u)
            # p(n, T) solves loading == n; check that p2 = p1 * exp(-dH/R (1/T2 - 1/T1)) is the solution at T2
            p1 = sp.Symbol('p1', positive=True)
            p2 = p1 * sp.exp(-dH / R * (1 / T2 - 1 / T1))
            resid = m2.loading(p2) - m1.loading(p1)
        else:
            for m, T in ((m1, T1), (m2, T2)):
                m.params['K'] = K0 * sp.exp(dH / (R * T))
            n = m1.params['n_m'] / (1 + u)
            resid = sp.log(m2.pressure(n)) - sp.log(m1.pressure(n)) - (-dH / R * (1 / T2 - 1 / T1))
            resid = sp.expand_log(resid, force=True)
        v, d = MC.cas_is_zero(resid)
        obs.append({'name': f"{P}/lemma.vant_hoff/{name}.ln_p_linear_in_inverse_T_with_slope_minus_dH_over_R/symbolic", 'verdict': v,
                    'backend': 'sympy', 'time': 0.0, 'model': d if v == 'refuted' else None, 'detail': str(d), 'pc': '', 'extra': {}})
    return obs


class IsoRec:
    """isotherm stub recording the accessor protocol used by isosteric_enthalpy"""

    def __init__(self, i, eng, labels):
        self.i = i
        self.material = 'mat'
        self.calls = []
        self.eng = eng
        for k, v in labels.items():
            setattr(self, k, v)
        self.temperature = eng.real(f'Tk{i}', positive=True)

    def loading(self, **kw):
        self.calls.append(('loading', kw))
        return numpy.array([1.0, 2.0, 3.0])

    def pressure_at(self, loading, **kw):
        self.calls.append(('pressure_at', kw))
        out = numpy.empty(len(loading), dtype=object)
        for k in range(len(loading)):
            out[k] = self.eng.real(f'P_{self.i}_{k}', positive=True)
        return out


def protocol_block(_b):
    st = _prep()
    ISO = st['ISO']
    base = f"{P}/isosteric_enth.isosteric_enthalpy"
    obs = []
    for (pm, pu), nI in itertools.product((('absolute', 'bar'), ('absolute', 'kPa'), ('relative', None)), (2, 3)):
        cfg = f"first={pm}:{pu}|isotherms={nI}"
        eng = sx.Engine(max_paths=64, div0='assume')

        def run():
            stat = stubs.StatsStub()
            ISO.stats = stat
            labs = [dict(pressure_mode=pm, pressure_unit=pu, loading_basis='molar', loading_unit='mmol', material_basis='mass', material_unit='g')]
            for i in range(1, nI):
                labs.append(dict(labs[0], pressure_mode='absolute', pressure_unit=('Pa', 'torr')[i % 2], loading_unit=('mol', 'kmol')[i % 2], material_unit='kg'))
            isos = [IsoRec(i, eng, labs[i]) for i in range(nI)]
            for i in range(nI):
                for j in range(i):
                    eng.assume(sx.Not(sx.eq(isos[i].temperature, isos[j].temperature)))  # a regression needs distinct temperatures
            rec = {}
            real_raw = ISO.isosteric_enthalpy_raw
            ISO.isosteric_enthalpy_raw = lambda pr, T: rec.update(pressures=pr, T=T) or ([0], [0], [0], [0])
            out = 'return'
            try:
                ISO.isosteric_enthalpy(isos, loading_points=[1.5, 2.5], branch='des')
            except (sx.Unsupported, sx._Infeasible):
                raise
            except Exception as exc:
                out = f"{type(exc).__name__}: {str(exc)[:80]}"
            finally:
                ISO.isosteric_enthalpy_raw = real_raw
            eng.prove(f"{base}/protocol.entry_point_returns/{cfg}", out == 'return', extra={'observed': out, 'replay': {'kind': 'c19.order'}})
            if out != 'return':
                return
            pa = [c for iso in isos for c in iso.calls if c[0] == 'pressure_at']
            eng.prove(f"{base}/protocol.one_pressure_query_per_isotherm/{cfg}", len(pa) == nI)
            keys_l = [{k: c[1].get(k) for k in ('loading_unit', 'material_unit', 'branch')} for c in pa]
            keys_p = [{k: c[1].get(k) for k in ('pressure_mode', 'pressure_unit')} for c in pa]
            eng.prove(f"{base}/protocol.common_loading_representation_requested/{cfg}",
                      all(k == keys_l[0] for k in keys_l) and keys_l[0]['loading_unit'] and keys_l[0]['material_unit'] and keys_l[0]['branch'] == 'des',
                      extra={'observed': str(keys_l)})
            # one common *absolute* unit: ln(p / p0(T)) would subtract the vaporisation enthalpy from the slope (the saturation
            # pressure changes with temperature), so a relative mode is not a representation the regression may be done in
            complete = all(k == keys_p[0] for k in keys_p) and keys_p[0]['pressure_mode'] == 'absolute' and bool(keys_p[0]['pressure_unit'])
            eng.prove(f"{base}/protocol.common_complete_pressure_representation_requested/{cfg}", bool(complete),
                      extra={'observed': str(keys_p), 'replay': {'kind': 'c19.units'}})
            eng.prove(f"{base}/protocol.temperatures_in_kelvin_passed_in_isotherm_order/{cfg}",
                      rec.get('T') is not None and len(rec['T']) == nI and all(rec['T'][i] is isos[i].temperature for i in range(nI)),
                      extra={'replay': {'kind': 'c19.order'}})
            pr = rec.get('pressures')
            eng.prove(f"{base}/protocol.rows_are_loadings_columns_are_isotherms/{cfg}",
                      pr is not None and pr.shape == (2, nI) and all(pr[k, i] is eng.real(f'P_{i}_{k}') for k in range(2) for i in range(nI)))
        obs += collect(eng, run, base, cfg)
    return obs


class AdsW:
    def __init__(self, eng, has_psat=True):
        self.eng = eng
        self.has_psat = has_psat
        self.hvap_calls = []
        self.psat_calls = []

    def __str__(self):
        return 'gas'

    def p_critical(self):
        return self.eng.real('p_c', positive=True)

    def p_triple(self):
        return self.eng.real('p_t', positive=True)

    def t_critical(self):
        return self.eng.real('T_c', positive=True)

    def saturation_pressure(self, temp=None, **kw):
        self.psat_calls.append(temp)
        if not self.has_psat:
            from pygaps.utilities.exceptions import CalculationError
            raise CalculationError('supercritical')
        return self.eng.real('p_sat', positive=True)

    def enthalpy_vaporisation(self, press=None, temp=None, **kw):
        v = self.eng.fresh('hvap')
        self.hvap_calls.append((press, temp, v))
        return v


def whittaker_block(args):
    model_name, has_psat = args
    st = _prep()
    W, MI, E = st['W'], st['MI'], st['E']
    base = f"{P}/enth_sorp_whittaker.enthalpy_sorption_whittaker"
    cfg = f"model={model_name}|saturation_pressure={'yes' if has_psat else 'pseudo'}"
    replay = {'kind': 'c19.whittaker', 'model': model_name}
    eng = sx.Engine(max_paths=2000, div0='assume')

    def run():
        iso = object.__new__(MI.ModelIsotherm)
        for k, v in dict(pressure_mode='absolute', pressure_unit='Pa', loading_basis='molar', loading_unit='mmol',
                         material_basis='mass', material_unit='g', temperature_unit='K').items():
            setattr(iso, k, v)
        iso._temperature = eng.real('T', positive=True)
        ads = AdsW(eng, has_psat)
        iso._adsorbate = ads
        iso._material = 'mat'
        iso.branch = 'ads'
        m = stubs.ModelStub('loading', name=model_name)
        K, n_m = eng.real('K', positive=True), eng.real('n_m', positive=True)
        m.params = {'K': K, 'n_m': n_m}
        t = 1
        if model_name == 'Toth':
            t = eng.real('t', positive=True)
            m.params['t'] = t
        iso.model = m
        iso.properties = {}
        n1, n2 = eng.real('n1', nonneg=True), eng.real('n2', positive=True)
        eng.assume(n2 < n_m)
        eng.assume(n1 < n_m)
        loads = [n1, n2] if model_name == 'Langmuir' else [n2]  # Toth: real powers, one loading keeps the queries small
        res = W.enthalpy_sorption_whittaker(iso, loading=loads)
        x = {'replay': replay}
        T = iso._temperature
        RT = R_GAS * T
        p_c, p_t = eng.real('p_c'), eng.real('p_t')
        p_sat = eng.real('p_sat') if has_psat else p_c * (T / eng.real('T_c')) * (T / eng.real('T_c'))
        calls = [r for r in m.results if r[0] == 'pressure']
        by_n = {id(r[1]): r[2] for r in calls}
        kept = list(res['loading'])
        out_i = 0
        ok_struct = True
        for n in loads:
            p = by_n.get(id(n))
            if p is None:
                # no pressure query: only allowed for n == 0
                eng.prove(f"{base}/whittaker.skips_without_query_only_zero_loading/{cfg}", sx.eq(n, 0), extra=x)
                continue
            skip = sx.Or(p < 0, p > p_c, p > p_sat)
            included = out_i < len(kept) and kept[out_i] is n
            eng.prove(f"{base}/whittaker.skip_set_is_pressure_outside_vaporisation_range/{cfg}",
                      sx.Not(skip) if included else skip, extra=x)
            if not included:
                continue
            h = res['enthalpy_sorption'][out_i]
            out_i += 1
            hv = [c for c in ads.hvap_calls]
            # the vaporisation enthalpy is read at max(p, p_t)
            cap = [c for c in hv if c[0] is not None and (sx.eq(c[0], p) is True or c[0] is p or sx.eq(c[0], p_t) is True or c[0] is p_t or True)]
            theta = n / n_m
            b = 1 / K ** t
            first = p_sat / b ** (F(1) / t if t == 1 else 1 / t)
            theta_t = theta ** t
            second = (theta_t / (1 - theta_t)) ** ((t - 1) / t)
            # find the h_vap value used for this loading: the call whose pressure equals max(p, p_t)
            used = None
            for (press, temp, v) in hv:
                if press is None:
                    continue
                is_cap = sx.Or(sx.And(p >= p_t, sx.eq(press, p)), sx.And(p < p_t, sx.eq(press, p_t)))
                if eng._check(sx.z3.Not(sx._b(is_cap))) == sx.z3.unsat:
                    want = RT * sx.sym_log(first * second) + v * 1000 + RT
                    if eng._check(sx.z3.Not(sx._b(sx.eq(h * 1000, want)))) == sx.z3.unsat:
                        used = v
                        break
            eng.prove(f"{base}/whittaker.closed_form_lambda_plus_hvap_plus_RT_with_hvap_at_max_p_ptriple/{cfg}", used is not None, extra=x)
        eng.prove(f"{base}/whittaker.saturation_pressure_at_isotherm_temperature/{cfg}", all(tq is T for tq in ads.psat_calls) and len(ads.psat_calls) >= 1, extra=x)
        eng.prove(f"{base}/whittaker.reports_model_parameters/{cfg}", res['model_params'] is m.params, extra=x)
    return collect(eng, run, base, cfg)


def guards_block(_b):
    st = _prep()
    W, MI, IE, E = st['W'], st['MI'], st['IE'], st['E']
    obs = []
    base = f"{P}/enth_sorp_whittaker.enthalpy_sorption_whittaker"
    eng = sx.Engine(max_paths=64)

    def run():
        for unit, model, want in (('bar', 'Toth', 'ParameterError'), ('Pa', 'Henry', 'ParameterError')):
            iso = object.__new__(MI.ModelIsotherm)
            for k, v in dict(pressure_mode='absolute', pressure_unit=unit, loading_basis='molar', loading_unit='mmol',
                             material_basis='mass', material_unit='g', temperature_unit='K').items():
                setattr(iso, k, v)
            iso.model = stubs.ModelStub('loading', name=model)
            try:
                W.enthalpy_sorption_whittaker(iso, loading=[1])
                out = 'return'
            except E.ParameterError:
                out = 'ParameterError'
            except Exception as exc:
                out = type(exc).__name__
            eng.prove(f"{base}/raises.ParameterError/unit={unit}|model={model}", out == want, extra={'observed': out})
    obs += collect(eng, run, base, 'guards')

    base = f"{P}/initial_enth.initial_enthalpy_point"
    eng = sx.Engine(max_paths=64)

    def run2():
        from pgv import isostub as I
        for branch, marks in itertools.product(('ads', 'des'), ([0, 0, 1, 1], [0, 1, 1, 1])):
            iso = I.make_iso(eng, dict(pressure_mode='absolute', pressure_unit='bar', loading_basis='molar', loading_unit='mmol',
                                       material_basis='mass', material_unit='g', temperature_unit='K'), n=4, frame=True, branch=marks)
            iso.data_raw.cols['enthalpy'] = [eng.real(f'h{i}') for i in range(4)]
            r = IE.initial_enthalpy_point(iso, 'enthalpy', branch=branch)
            first = [i for i, b in enumerate(marks) if (b == 0) == (branch == 'ads')][0]
            eng.prove(f"{base}/ensures.first_measured_enthalpy_of_branch/branch={branch}|marks={''.join(map(str, marks))}",
                      r['initial_enthalpy'] is iso.data_raw.cols['enthalpy'][first])
    obs += collect(eng, run2, base, 'point')
    return obs


def _dispatch(job):
    kind, arg = job
    return {'raw': raw_block, 'vh': vanthoff_block, 'proto': protocol_block, 'wh': whittaker_block, 'guards': guards_block}[kind](arg)


def run(rep):
    rep.level = 'proof'
    rep.fn('pygaps.characterisation.isosteric_enth.isosteric_enthalpy_raw', 'pygaps.characterisation.isosteric_enth.isosteric_enthalpy',
           'pygaps.characterisation.enth_sorp_whittaker.enthalpy_sorption_whittaker', 'pygaps.characterisation.initial_enth.initial_enthalpy_point')
    rep.assume('scipy.stats.linregress exact-fit lemma', 'exp/ln uninterpreted with ln(exp t) = t, exp(ln x) = x (x > 0)',
               'isotherm accessors obey the C03 contract (stubs record the requested representation)',
               'adsorbate getters are functions of their arguments (stub); the Whittaker closed form is compared term by term with the '
               'published expression RT ln(p_sat / b^(1/t) (theta^t/(1-theta^t))^((t-1)/t)) + h_vap + RT, b = 1/K^t',
               'real arithmetic; scipy.constants.R lifted to the decimal it spells; sympy trusted for the van t Hoff lemma')
    rep.trust('CPython 3.12', 'z3 5.1.0', 'sympy 1.14', 'pgv.sx', 'pgv.lift', 'pgv.npproxy')
    jobs = [('raw', (nT, 2)) for nT in (2, 3, 4, 5)] + [('vh', None), ('proto', None), ('guards', None)] + \
        [('wh', (m, ps)) for m in ('Langmuir', 'Toth') for ps in (True, False)]
    obs, crashes = par.pmap(_dispatch, jobs)
    rep.extend(obs)
    if crashes:
        rep.crash = crashes[0]
    from pgv.replayers import c19 as R19
    for res in R19.generation_route_cases():
        rep.add_bounded(f"{P}/bounded.{res['name']}", res['ok'], res['detail'], replay={'kind': 'c19.generation', 'name': res['name']})
    for res in R19.zero_loading_cases():
        rep.add_bounded(f"{P}/bounded.{res['name']}", res['ok'], res['detail'], replay={'kind': 'c19.zero_loading', 'name': res['name']})
    for res in R19.point_isotherm_cases():
        rep.add_bounded(f"{P}/bounded.{res['name']}", res['ok'], res['detail'], replay={'kind': 'c19.points', 'name': res['name']})
    rep.notes.append('2..5 temperatures in any order (the whole quantified range); enthalpies, offsets and temperatures symbolic')
