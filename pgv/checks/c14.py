"""C14 -- linearised characterisation methods recover their generating parameters.

The real *_raw functions run on symbolic, strictly increasing pressures with loadings generated from the
method's own governing equation (written here from the textbook form, not taken from the code);
`scipy.stats.linregress` is a contract stub with the exact-fit lemma; `numpy.searchsorted` / `flatnonzero`
are executed by real numpy on object arrays (comparisons fork).  Transform identities with logarithms go
through sympy on the real helper functions.
"""
from __future__ import annotations

import itertools

import numpy
import z3

from pgv import lift, npproxy, par, stubs, sx
from pgv.util import collect, static_ob
from fractions import Fraction as F

P = 'C14'
N_A = F('6.02214076e23')  # CODATA, exact
R_GAS = F('8.31446261815324')

_ST = {}


def _prep():
    if _ST:
        return _ST
    import pygaps
    pygaps.logger.disabled = True
    import pygaps.characterisation.alphas_plots as AS
    import pygaps.characterisation.area_bet as AB
    import pygaps.characterisation.area_lang as AL
    import pygaps.characterisation.dr_da_plots as DA
    import pygaps.characterisation.models_thickness as MT
    import pygaps.characterisation.t_plots as TP
    import pygaps.utilities.math_utilities as MU
    from pygaps.utilities import exceptions as E
    import scipy.constants as sc
    consts = type('constants', (), {})()
    for k in ('Avogadro', 'gas_constant', 'R', 'N_A'):
        setattr(consts, k, F(repr(getattr(sc, k))))
    px = npproxy.NumpyProxy()
    for mod, names in ((AB, ['area_BET_raw', 'roq_transform', 'bet_transform', 'bet_fit', 'bet_parameters']),
                       (AL, ['area_langmuir_raw', 'langmuir_transform', 'langmuir_fit', 'langmuir_parameters']),
                       (TP, ['t_plot_raw', 't_plot_parameters']), (AS, ['alpha_s_raw', 'alpha_s_plot_parameters']),
                       (DA, ['da_plot_raw', 'log_v_adj', 'log_p_exp']), (MU, ['find_limit_indices']),
                       (MT, ['thickness_halsey', 'thickness_harkins_jura', 'thickness_zero', 'convert_to_thickness'])):
        for n in names:
            setattr(mod, n, lift.lifted_source_function(getattr(mod, n)))
        mod.numpy = px
        if hasattr(mod, 'constants'):
            mod.constants = consts
        if hasattr(mod, 'logger'):
            mod.logger.disabled = True
    _ST.update(AB=AB, AL=AL, TP=TP, AS=AS, DA=DA, MT=MT, MU=MU, E=E, px=px, consts=consts, sc=sc)
    return _ST


def _pressures(eng, n, lo=0, hi=1):
    ps = [eng.real(f'p{i}', positive=True) for i in range(n)]
    for i in range(n):
        eng.assume(ps[i] > (ps[i - 1] if i else lo))
    eng.assume(ps[-1] < hi)
    return ps


def _arr(vals):
    a = numpy.empty(len(vals), dtype=object)
    for i, v in enumerate(vals):
        a[i] = v
    return a


def _window_ok(eng, ps, lo, hi, minimum, maximum):
    """every point strictly inside the limits is selected and no point strictly outside is"""
    conds = []
    for i, p in enumerate(ps):
        sel = minimum <= i <= maximum
        inside = sx.And(*([p > lo] if lo is not None else []) + ([p < hi] if hi is not None else [])) if (lo is not None or hi is not None) else True
        outside = sx.Or(*([p < lo] if lo is not None else []) + ([p > hi] if hi is not None else [])) if (lo is not None or hi is not None) else False
        if not sel and inside is not False:
            conds.append(sx.Not(inside) if inside is not True else False)
        if sel and outside is not False:
            conds.append(sx.Not(outside))
    if any(c is False for c in conds):
        return False
    conds = [c for c in conds if c is not True]
    return sx.And(*conds) if conds else True


# ---------------------------------------------------------------------------------
# BET and Langmuir
# ---------------------------------------------------------------------------------

def bet_block(args):
    n, lim = args
    st = _prep()
    AB, E = st['AB'], st['E']
    base = f"{P}/area_bet.area_BET_raw"
    cfg = f"n={n}|limits={lim}"
    replay = {'kind': 'c14.method', 'method': 'bet', 'n': n, 'limits': lim}
    eng = sx.Engine(max_paths=6000, div0='assume')

    def run():
        stat = stubs.StatsStub()
        AB.stats = stat
        nm, C, sigma = eng.real('n_m', positive=True), eng.real('C', positive=True), eng.real('sigma', positive=True)
        eng.assume(C > 1)
        ps = _pressures(eng, n)
        if lim == 'auto_any':
            # arbitrary positive loadings: the Rouquerol window logic must hold for any data, not only BET-shaped ones
            ns = [eng.real(f'n{i}', positive=True) for i in range(n)]
        else:
            ns = [nm * C * p / ((1 - p) * (1 - p + C * p)) for p in ps]  # BET equation
        lo = eng.real('lo', positive=True) if lim in ('both', 'lo') else None
        hi = eng.real('hi', positive=True) if lim in ('both', 'hi') else None
        limits = None if lim in ('auto', 'auto_any') else (lo, hi)
        try:
            res = AB.area_BET_raw(_arr(ps), _arr(ns), sigma, limits)
            out = 'return'
        except E.CalculationError:
            out = 'CalculationError'
        except sx.Unsupported:
            raise
        except Exception as exc:
            out = f"other:{type(exc).__name__}: {str(exc)[:80]}"
        x = {'replay': replay, 'observed': out}
        eng.prove(f"{base}/raises.only_CalculationError/{cfg}", out in ('return', 'CalculationError'), extra=x)
        if lim not in ('auto', 'auto_any'):
            inside = [sx.And(*([p > lo] if lo is not None else []) + ([p < hi] if hi is not None else [])) for p in ps]
            n_inside = sum((sx.SymBool(sx._b(c))._r() for c in inside[1:]), sx.SymBool(sx._b(inside[0]))._r())
            if out == 'CalculationError':
                # refusal is only allowed when fewer than three points can be selected without taking one strictly outside
                outside = [sx.Or(*([p < lo] if lo is not None else []) + ([p > hi] if hi is not None else [])) for p in ps]
                n_not_out = sum((sx.SymBool(sx._b(sx.Not(c)))._r() for c in outside[1:]), sx.SymBool(sx._b(sx.Not(outside[0])))._r())
                eng.prove(f"{base}/window.refuses_only_with_fewer_than_three_points/{cfg}", n_inside < 3, extra=x)
                return
        if out != 'return':
            return
        (area, c_const, n_mono, p_mono, slope, intercept, minimum, maximum, corr) = res
        minimum, maximum = int(minimum), int(maximum)
        eng.prove(f"{base}/window.at_least_three_points/{cfg}", maximum - minimum + 1 >= 3, extra=x)
        if lim not in ('auto', 'auto_any'):
            eng.prove(f"{base}/window.points_inside_limits_selected_outside_not/{cfg}", _window_ok(eng, ps, lo, hi, minimum, maximum), extra=x)
        else:
            roq = [ns[i] * (1 - ps[i]) for i in range(n)]
            # Rouquerol: the window ends where n(1-p) stops increasing (the point before or at the first decrease)
            conds = []
            for k in range(n - 1):
                first_dec = sx.And(*([roq[j] <= roq[j + 1] for j in range(k)] + [roq[k] > roq[k + 1]]))
                conds.append(sx.Implies(first_dec, maximum in (k, k + 1)))
            no_dec = sx.And(*[roq[j] <= roq[j + 1] for j in range(n - 1)])
            conds.append(sx.Implies(no_dec, maximum == n - 1))
            eng.prove(f"{base}/window.rouquerol_end_at_first_decrease/{cfg}", sx.And(*conds), extra=x)
            tenth = ps[maximum] / 10
            start_ok = sx.And(ps[minimum] >= tenth, *([ps[minimum - 1] < tenth] if minimum > 0 else []))
            eng.prove(f"{base}/window.starts_at_one_tenth_of_end_pressure/{cfg}", start_ok, extra=x)
        eng.prove(f"{base}/fit.uses_exactly_the_window/{cfg}", len(stat.calls) == 1 and len(stat.calls[0]['x']) == maximum - minimum + 1
                  and all(a is b for a, b in zip(stat.calls[0]['x'], ps[minimum:maximum + 1])), extra=x)
        if lim == 'auto_any':
            return
        eng.prove(f"{base}/bet.exact_fit_recognised/{cfg}", stat.calls and stat.calls[0]['exact'], extra=x)
        eng.prove(f"{base}/bet.recovers_C/{cfg}", sx.eq(c_const, C), extra=x)
        eng.prove(f"{base}/bet.recovers_monolayer_capacity/{cfg}", sx.eq(n_mono, nm), extra=x)
        eng.prove(f"{base}/bet.monolayer_pressure/{cfg}", sx.And(p_mono > 0, sx.eq((1 / p_mono - 1) * (1 / p_mono - 1), C)), extra=x)
        eng.prove(f"{base}/bet.area_is_nm_sigma_NA/{cfg}", sx.eq(area, nm * sigma * N_A / F(10) ** 18), extra=x)
        eng.prove(f"{base}/bet.slope_intercept/{cfg}", sx.And(sx.eq(slope, (C - 1) / (nm * C)), sx.eq(intercept, 1 / (nm * C))), extra=x)

    return collect(eng, run, base, cfg)


def lang_block(args):
    n, lim = args
    st = _prep()
    AL, E = st['AL'], st['E']
    base = f"{P}/area_lang.area_langmuir_raw"
    cfg = f"n={n}|limits={lim}"
    replay = {'kind': 'c14.method', 'method': 'langmuir', 'n': n, 'limits': lim}
    eng = sx.Engine(max_paths=6000, div0='assume')

    def run():
        stat = stubs.StatsStub()
        AL.stats = stat
        nm, K, sigma = eng.real('n_m', positive=True), eng.real('K', positive=True), eng.real('sigma', positive=True)
        ps = _pressures(eng, n)
        ns = [nm * K * p / (1 + K * p) for p in ps]
        lo = eng.real('lo', positive=True) if lim in ('both', 'lo') else None
        hi = eng.real('hi', positive=True) if lim in ('both', 'hi') else None
        limits = None if lim == 'auto' else (lo, hi)
        try:
            res = AL.area_langmuir_raw(_arr(ps), _arr(ns), sigma, limits)
            out = 'return'
        except E.CalculationError:
            out = 'CalculationError'
        except sx.Unsupported:
            raise
        except Exception as exc:
            out = f"other:{type(exc).__name__}: {str(exc)[:80]}"
        x = {'replay': replay, 'observed': out}
        eng.prove(f"{base}/raises.only_CalculationError/{cfg}", out in ('return', 'CalculationError'), extra=x)
        if lim == 'auto':
            lo, hi = ps[-1] * F(5, 100), ps[-1] * F(9, 10)
        inside = [sx.And(*([p > lo] if lo is not None else []) + ([p < hi] if hi is not None else [])) for p in ps]
        n_inside = sum((sx.SymBool(sx._b(c))._r() for c in inside[1:]), sx.SymBool(sx._b(inside[0]))._r())
        if out == 'CalculationError':
            eng.prove(f"{base}/window.refuses_only_with_fewer_than_three_points/{cfg}", n_inside < 3, extra=x)
            return
        if out != 'return':
            return
        (area, k_const, n_mono, slope, intercept, minimum, maximum, corr) = res
        minimum, maximum = int(minimum), int(maximum)
        eng.prove(f"{base}/window.at_least_three_points/{cfg}", maximum - minimum + 1 >= 3, extra=x)
        eng.prove(f"{base}/window.points_inside_limits_selected_outside_not/{cfg}", _window_ok(eng, ps, lo, hi, minimum, maximum), extra=x)
        eng.prove(f"{base}/langmuir.recovers_K/{cfg}", sx.eq(k_const, K), extra=x)
        eng.prove(f"{base}/langmuir.recovers_monolayer_capacity/{cfg}", sx.eq(n_mono, nm), extra=x)
        eng.prove(f"{base}/langmuir.area_is_nm_sigma_NA/{cfg}", sx.eq(area, nm * sigma * N_A / F(10) ** 18), extra=x)

    return collect(eng, run, base, cfg)


# ---------------------------------------------------------------------------------
# t-plot and alpha-s
# ---------------------------------------------------------------------------------

def tplot_block(args):
    n, = args
    st = _prep()
    TP, AS, E = st['TP'], st['AS'], st['E']
    obs = []
    base = f"{P}/t_plots.t_plot_raw"
    cfg = f"n={n}"
    eng = sx.Engine(max_paths=6000, div0='assume')
    replay = {'kind': 'c14.method', 'method': 'tplot', 'n': n}

    def run():
        stat = stubs.StatsStub()
        TP.stats = stat
        a, b = eng.real('slope_a', positive=True), eng.real('icpt_b', nonneg=True)
        M, rho = eng.real('M', positive=True), eng.real('rho', positive=True)
        ps = _pressures(eng, n)
        ts = [eng.real(f't{i}', positive=True) for i in range(n)]
        for i in range(1, n):
            eng.assume(ts[i] > ts[i - 1])  # thickness increases with pressure
        tmodel = lambda p: _arr(ts)
        ls = [a * t + b for t in ts]
        lo, hi = eng.real('lo', positive=True), eng.real('hi', positive=True)
        try:
            results, curve = TP.t_plot_raw(_arr(ls), _arr(ps), tmodel, rho, M, (lo, hi))
        except ValueError:
            return  # fewer than two points between the limits: linregress itself refuses (not part of the property)
        x = {'replay': replay}
        inside = [sx.And(t > lo, t < hi) for t in ts]
        sel = None
        if stat.calls:
            sel = [i for i in range(n) if any(ts[i] is v for v in stat.calls[0]['x'])]
        if not results:
            # no result only when the regression was impossible or the slope test rejected it
            return
        r = results[0]
        eng.prove(f"{base}/window.section_is_points_strictly_inside_limits/{cfg}",
                  sel is not None and sx.And(*[inside[i] if i in sel else sx.Not(inside[i]) for i in range(n)]), extra=x)
        if len(sel) >= 2:
            eng.prove(f"{base}/tplot.recovers_slope_intercept/{cfg}", sx.And(sx.eq(r['slope'], a), sx.eq(r['intercept'], b)), extra=x)
            eng.prove(f"{base}/tplot.area_is_slope_M_over_rho/{cfg}", sx.eq(r['area'], a * M / rho), extra=x)
            eng.prove(f"{base}/tplot.volume_is_intercept_M_over_rho_over_1000/{cfg}", sx.eq(r['adsorbed_volume'], b * M / rho / 1000), extra=x)
    obs += collect(eng, run, base, cfg)

    base2 = f"{P}/alphas_plots.alpha_s_raw"
    eng = sx.Engine(max_paths=6000, div0='assume')

    def run2():
        stat = stubs.StatsStub()
        AS.stats = stat
        a, b = eng.real('slope_a', positive=True), eng.real('icpt_b', nonneg=True)
        M, rho = eng.real('M', positive=True), eng.real('rho', positive=True)
        A_ref, alpha_pt = eng.real('A_ref', positive=True), eng.real('ref_at_reducing_p', positive=True)
        refs = [eng.real(f'ref{i}', positive=True) for i in range(n)]
        for i in range(1, n):
            eng.assume(refs[i] > refs[i - 1])
        lo, hi = eng.real('lo', positive=True), eng.real('hi', positive=True)
        x = {'replay': dict(replay, method='alphas')}
        # (i) generated from the governing line in alpha space
        ls = [a * (r / alpha_pt) + b for r in refs]
        try:
            results, curve = AS.alpha_s_raw(_arr(ls), _arr(refs), alpha_pt, A_ref, rho, M, (lo, hi))
        except ValueError:
            return
        if results and len(stat.calls[0]['x']) >= 2:
            r = results[0]
            eng.prove(f"{base2}/alphas.recovers_slope_intercept/{cfg}", sx.And(sx.eq(r['slope'], a), sx.eq(r['intercept'], b)), extra=x)
            eng.prove(f"{base2}/alphas.area_is_reference_area_over_alpha_times_slope/{cfg}", sx.eq(r['area'], A_ref / alpha_pt * a), extra=x)
            eng.prove(f"{base2}/alphas.volume/{cfg}", sx.eq(r['adsorbed_volume'], b * M / rho / 1000), extra=x)
        # (ii) alpha-s against itself returns the reference area
        stat2 = stubs.StatsStub()
        AS.stats = stat2
        try:
            results2, _c = AS.alpha_s_raw(_arr(refs), _arr(refs), alpha_pt, A_ref, rho, M, (lo, hi))
        except ValueError:
            return
        if results2 and len(stat2.calls[0]['x']) >= 2:
            eng.prove(f"{base2}/alphas.against_itself_returns_reference_area/{cfg}", sx.eq(results2[0]['area'], A_ref), extra=x)
    obs += collect(eng, run2, base2, cfg)
    return obs


# ---------------------------------------------------------------------------------
# Dubinin: parameter formulas (SX, opaque regression), transform identity (CAS), window
# ---------------------------------------------------------------------------------

def da_block(args):
    n, = args
    st = _prep()
    DA, E = st['DA'], st['E']
    obs = []
    base = f"{P}/dr_da_plots.da_plot_raw"
    cfg = f"n={n}"
    eng = sx.Engine(max_paths=6000, div0='assume')
    replay = {'kind': 'c14.method', 'method': 'da', 'n': n}

    def run():
        stat = stubs.StatsStub()
        DA.stats = stat
        M, rho, T = eng.real('M', positive=True), eng.real('rho', positive=True), eng.real('T', positive=True)
        ps = _pressures(eng, n)
        ls = [eng.real(f'l{i}', positive=True) for i in range(n)]
        lo, hi = eng.real('lo', positive=True), eng.real('hi', positive=True)
        ex = 2
        try:
            res = DA.da_plot_raw(_arr(ps), _arr(ls), T, M, rho, ex, (lo, hi))
            out = 'return'
        except E.CalculationError:
            out = 'CalculationError'
        x = {'replay': replay, 'observed': out}
        inside = [sx.And(p > lo, p < hi) for p in ps]
        n_inside = sum((sx.SymBool(sx._b(c))._r() for c in inside[1:]), sx.SymBool(sx._b(inside[0]))._r())
        if out == 'CalculationError':
            eng.prove(f"{base}/window.refuses_only_with_fewer_than_three_points/{cfg}", n_inside < 3, extra=x)
            return
        (vol, pot, exp_, slope, icpt, minimum, maximum, corr) = res
        minimum, maximum = int(minimum), int(maximum)
        eng.prove(f"{base}/window.points_inside_limits_selected_outside_not/{cfg}", _window_ok(eng, ps, lo, hi, minimum, maximum), extra=x)
        eng.prove(f"{base}/window.at_least_three_points/{cfg}", maximum - minimum + 1 >= 3, extra=x)
        call = stat.calls[-1]
        s, i_ = call['result'][0], call['result'][1]
        eng.prove(f"{base}/da.volume_is_exp_intercept/{cfg}", sx.eq(vol, sx.sym_exp(i_)), extra=x)
        # E = R T / (-slope)^(1/m) / 1000  <=>  (E*1000/(R T))^m * (-slope) == 1  (m = 2)
        eng.assume(s < 0)
        q = pot * 1000 / (R_GAS * T)
        eng.prove(f"{base}/da.energy_is_RT_over_root_of_minus_slope/{cfg}", sx.And(pot > 0, sx.eq(q * q * (-s), 1)), extra=x)
    obs += collect(eng, run, base, cfg)
    if n == 4:
        obs += _da_exponent_block()
    return obs


def _da_exponent_block():
    """exp=None: the exponent is what the bounded scalar minimiser returns for an objective that (a) is 1 - r^2 of the
    linear fit at that exponent -- a quantity in [0, 1] that does not depend on the scale of the abscissa and is 0 exactly
    for a perfect line, hence 0 at the generating exponent by the transform lemma (CAS obligation) and the exact-fit
    lemma -- (b) on the interval [1, 3]; failure of the minimiser is a CalculationError; volume and energy are computed
    from the fit at the returned exponent."""
    st = _prep()
    DA, E = st['DA'], st['E']
    _ST.setdefault('real_log_p_exp', DA.log_p_exp)
    base = f"{P}/dr_da_plots.da_plot_raw"
    cfg = 'n=4|exponent=optimised'
    eng = sx.Engine(max_paths=400, div0='assume')
    replay = {'kind': 'c14.da_exponent'}

    def run():
        stat = stubs.StatsStub()
        opt = stubs.OptimizeStub()
        DA.stats, DA.optimize = stat, opt
        M, rho, T = eng.real('M', positive=True), eng.real('rho', positive=True), eng.real('T', positive=True)
        ps = _pressures(eng, 4)
        ls = [eng.real(f'l{i}', positive=True) for i in range(4)]
        # the abscissa transform log_p_exp(p, e) = ln(1/p)^e is an opaque function here (its linearising property is the CAS
        # obligation da.transform_is_linear...); what is decided is where its values go
        import z3 as _z3
        LPE = _z3.Function('pgv_log_p_exp', _z3.RealSort(), _z3.RealSort(), _z3.RealSort())
        real_lpe = DA.log_p_exp
        DA.log_p_exp = lambda p, e: _arr([sx.SymReal(LPE(sx.SymReal.lift(q), sx.SymReal.lift(e))) for q in p])
        try:
            res = DA.da_plot_raw(_arr(ps), _arr(ls), T, M, rho, None, None)
            out = 'return'
        except E.CalculationError:
            out = 'CalculationError'
        except sx.SymZeroDivision:
            DA.log_p_exp = real_lpe
            return  # fitted slope exactly zero (constant loading): RT / 0; outside the method's domain, no claim
        x = {'replay': replay, 'observed': out}
        eng.prove(f"{base}/da.exponent.one_bounded_scalar_minimisation/{cfg}", len(opt.calls) == 1 and opt.calls[0]['kind'] == 'minimize_scalar'
                  and opt.calls[0]['method'] == 'bounded' and list(opt.calls[0]['bounds']) == [1, 3], extra=x)
        if len(opt.calls) != 1:
            return
        c = opt.calls[0]
        if not c['success']:
            eng.prove(f"{base}/da.exponent.minimiser_failure_is_CalculationError/{cfg}", out == 'CalculationError', extra=x)
            return
        eng.prove(f"{base}/da.exponent.returns/{cfg}", out == 'return', extra=x)
        if out != 'return':
            return
        (vol, pot, exp_, slope, icpt, minimum, maximum, corr) = res
        eng.prove(f"{base}/da.exponent.reported_exponent_is_the_minimiser_result/{cfg}", exp_ is c['x'], extra=x)
        last = stat.calls[-1]
        want_x = DA.log_p_exp(_arr(ps), c['x'])
        eng.prove(f"{base}/da.exponent.final_fit_at_the_returned_exponent/{cfg}", sx.And(*[sx.eq(a, b) for a, b in zip(last['x'], want_x)])
                  and slope is last['result'][0] and icpt is last['result'][1], extra=x)
        eng.prove(f"{base}/da.volume_is_exp_intercept/{cfg}", sx.eq(vol, sx.sym_exp(last['result'][1])), extra=x)
        eng.assume(last['result'][0] < 0)
        eng.prove(f"{base}/da.energy_is_RT_over_root_of_minus_slope/{cfg}", sx.eq(pot, R_GAS * T / ((-last['result'][0]) ** (1 / c['x'])) / 1000), extra=x)
        # the objective, probed at an arbitrary exponent
        e0 = eng.real('e_probe', positive=True)
        eng.assume((e0 >= 1) & (e0 <= 3))
        k = len(stat.calls)
        val = c['fun'](e0)
        mine = stat.calls[k:]
        eng.prove(f"{base}/da.exponent.objective_runs_one_fit_at_the_probed_exponent/{cfg}", len(mine) == 1 and
                  sx.And(*[sx.eq(a, b) for a, b in zip(mine[0]['x'], DA.log_p_exp(_arr(ps), e0))]), extra=x)
        if len(mine) == 1:
            r = mine[0]['result'][2]
            eng.prove(f"{base}/da.exponent.objective_is_one_minus_r_squared_scale_free/{cfg}", sx.eq(val, 1 - r * r), extra=x)
            eng.prove(f"{base}/da.exponent.objective_nonnegative_and_zero_for_a_perfect_line/{cfg}", sx.And(val >= 0, sx.Implies(sx.eq(r * r, 1), sx.eq(val, 0))), extra=x)
    try:
        return collect(eng, run, base, cfg)
    finally:
        import importlib
        DA.log_p_exp = _ST.get('real_log_p_exp', DA.log_p_exp)


def cas_block(_b):
    """transform identities with logarithms (sympy on the real helper functions)"""
    import sympy as sp
    from pgv.checks import models_common as MC
    st = _prep()
    DA, MT = st['DA'], st['MT']
    st['px']._mode = 'sympy'
    st['px']._sp = sp
    obs = []
    try:
        V0, E0, m, M, rho, RT = sp.symbols('V0 E0 m M rho RT', positive=True)
        s_ = sp.Symbol('s', positive=True)
        p = 1 / (1 + s_)
        # Dubinin-Astakhov: V = V0 exp(-(RT ln(1/p) / E0)^m), loading [mol] = V rho / M
        loading = V0 * sp.exp(-((RT * sp.log(1 / p) / E0) ** m)) * rho / M
        y = DA.log_v_adj(loading, M, rho)
        x = DA.log_p_exp(p, m)
        resid = y - (sp.log(V0) - (RT / E0) ** m * x)
        v, d = MC.cas_is_zero(sp.expand_log(resid, force=True))
        obs.append({'name': f"{P}/dr_da_plots.log_v_adj+log_p_exp/da.transform_is_linear_with_slope_minus_RT_over_E_pow_m/symbolic",
                    'verdict': v, 'backend': 'sympy', 'time': 0.0, 'model': d if v == 'refuted' else None, 'detail': str(d), 'pc': '',
                    'extra': {'replay': {'kind': 'c14.method', 'method': 'da_transform'}}})
        # hence slope = -(RT/E0)^m  =>  E0 = RT / (-slope)^(1/m);  intercept = ln V0 => V0 = exp(intercept)
        slope = -(RT / E0) ** m
        v, d = MC.cas_is_zero(sp.simplify(RT / (-slope) ** (1 / m) - E0))
        obs.append({'name': f"{P}/dr_da_plots.da_plot_raw/da.energy_formula_inverts_slope/symbolic", 'verdict': v, 'backend': 'sympy', 'time': 0.0,
                    'model': d if v == 'refuted' else None, 'detail': str(d), 'pc': '', 'extra': {}})
        # thickness models vs the published equations (nm): Halsey t = 0.354 (-5/ln p)^(1/3); Harkins-Jura t = (0.1399/(0.034 - log10 p))^(1/2)
        hal = MT.thickness_halsey(p)
        # the code writes the exponent 0.333 for 1/3: accept an exponent within 1e-3 of 1/3
        expo = None
        for node in sp.preorder_traversal(hal):
            if isinstance(node, sp.Pow) and node.exp.is_Rational and node.exp != -1:
                expo = node.exp
        ok = expo is not None and abs(expo - sp.Rational(1, 3)) < sp.Rational(1, 1000) and sp.simplify(
            hal - sp.Rational(354, 1000) * (-5 / sp.log(p)) ** expo) == 0
        obs.append(static_ob(f"{P}/models_thickness.thickness_halsey/thickness.published_equation/symbolic", bool(ok), f"{hal}", backend='sympy'))
        hj = MT.thickness_harkins_jura(p)
        ok = sp.simplify(hj - sp.sqrt(sp.Rational(1399, 10000) / (sp.Rational(34, 1000) - sp.log(p) / sp.log(10)))) == 0
        obs.append(static_ob(f"{P}/models_thickness.thickness_harkins_jura/thickness.published_equation/symbolic", bool(ok), f"{hj}", backend='sympy'))
        nm_, lay = sp.symbols('n_mono loading', positive=True)
        ct = MT.convert_to_thickness(lay, nm_)
        ok = sp.simplify(ct - lay / nm_ * sp.Rational(354, 1000)) == 0
        obs.append(static_ob(f"{P}/models_thickness.convert_to_thickness/thickness.layers_times_monolayer_thickness/symbolic", bool(ok), f"{ct}", backend='sympy'))
    finally:
        st['px']._mode = 'sx'
    return obs


def limits_block(args):
    n, = args
    st = _prep()
    MU, E = st['MU'], st['E']
    base = f"{P}/math_utilities.find_limit_indices"
    obs = []
    for lim in ('both', 'lo', 'hi', 'none'):
        cfg = f"n={n}|limits={lim}"
        eng = sx.Engine(max_paths=6000)

        def run():
            xs = _pressures(eng, n, hi=1000)
            lo = eng.real('lo', positive=True) if lim in ('both', 'lo') else None
            hi = eng.real('hi', positive=True) if lim in ('both', 'hi') else None
            limits = None if lim == 'none' else (lo, hi)
            try:
                imin, imax = MU.find_limit_indices(_arr(xs), limits)
                out = 'return'
            except E.CalculationError:
                out = 'CalculationError'
            inside = [sx.And(*([v > lo] if lo is not None else []) + ([v < hi] if hi is not None else [])) if (lo is not None or hi is not None) else True for v in xs]
            if out == 'CalculationError':
                cnt = sum(((sx.SymBool(sx._b(c))._r() if c is not True else sx.SymReal(1)) for c in inside[1:]),
                          (sx.SymBool(sx._b(inside[0]))._r() if inside[0] is not True else sx.SymReal(1)))
                eng.prove(f"{base}/window.refuses_only_with_too_few_points/{cfg}", cnt <= 3)
                return
            eng.prove(f"{base}/window.points_inside_limits_selected_outside_not/{cfg}", _window_ok(eng, xs, lo, hi, int(imin), int(imax)))
        obs += collect(eng, run, base, cfg)
    return obs


def entry_branch_block(_b):
    """isotherm entry points read the branch they are asked for: every sample read names `branch`, every read of the alpha-s
    reference names `branch_ref` (recorded calls of the real entry points on sample isotherms with both branches; all four
    combinations of branch / branch_ref)"""
    import os
    import pygaps
    import pygaps.characterisation as pgc
    import pygaps.parsing as pgp
    from pgv.checks.c15 import _recording_class, ACCESSORS
    pygaps.logger.disabled = True
    data = os.path.join(os.environ.get('PGV_REPO', '/repo'), 'docs/examples/data/characterisation')
    base_iso = pgp.isotherm_from_json(os.path.join(data, 'MCM-41 N2 77.355.json'))
    ref_iso = pgp.isotherm_from_json(os.path.join(data, 'SiO2 N2 77.355.json'))
    obs = []
    calls = {
        'area_BET': lambda i, r, b, br: pgc.area_BET(i, branch=b),
        'area_langmuir': lambda i, r, b, br: pgc.area_langmuir(i, branch=b),
        't_plot': lambda i, r, b, br: pgc.t_plot(i, branch=b),
        'dr_plot': lambda i, r, b, br: pgc.dr_plot(i, branch=b, p_limits=(0, 0.1)),
        'alpha_s': lambda i, r, b, br: pgc.alpha_s(i, r, reference_area='BET', branch=b, branch_ref=br),
    }
    for name, call in calls.items():
        for b, br in ((('ads', 'ads'), ('des', 'ads'), ('ads', 'des'), ('des', 'des')) if name == 'alpha_s' else (('ads', None), ('des', None))):
            log, rlog = [], []
            iso = type(base_iso).from_isotherm(base_iso, isotherm_data=base_iso.data_raw.copy(), pressure_key=base_iso.pressure_key, loading_key=base_iso.loading_key)
            if name == 'alpha_s':
                # sample and reference with both branches on one pressure grid, so that no read is refused for range reasons
                up = numpy.linspace(0.02, 0.9, 16)
                pp = list(up) + list(up[::-1][1:])
                mk_ = lambda f: pygaps.PointIsotherm(pressure=pp, loading=[f * 6 * 40 * x / (1 + 40 * x) / (1 - 0.6 * x) * (1.0 if k < 16 else 1.15) for k, x in enumerate(pp)],
                                                     branch=[0] * 16 + [1] * 15, material='pgv_c14', adsorbate='nitrogen', temperature=77.355, pressure_mode='relative',
                                                     pressure_unit=None, loading_basis='molar', loading_unit='mmol', material_basis='mass', material_unit='g',
                                                     temperature_unit='K')
                iso, ref = mk_(1.0), mk_(0.4)
            else:
                ref = type(base_iso).from_isotherm(ref_iso, isotherm_data=ref_iso.data_raw.copy(), pressure_key=ref_iso.pressure_key, loading_key=ref_iso.loading_key)
            iso.__class__ = _recording_class(type(iso), log)
            ref.__class__ = _recording_class(type(ref), rlog)
            del log[:], rlog[:]
            try:
                call(iso, ref, b, br)
                err = ''
            except Exception as exc:
                err = f"{type(exc).__name__}: {exc}"[:120]
            cfg = f"branch={b}" + (f",branch_ref={br}" if br else '')
            mine = [e for e in log if e[0] == 'call' and e[1] in ACCESSORS]
            bad = [f"{e[1]}(branch={e[2].get('branch')!r})" for e in mine if e[2].get('branch') != b]
            # (a refusal -- e.g. the reference branch does not cover the sample's pressures -- ends the run early; the reads made
            # up to then are judged)
            obs.append(static_ob(f"{P}/characterisation.{name}/protocol.sample_read_on_the_requested_branch/{cfg}", bool(mine) and not bad, ', '.join(bad) or err, backend='trace',
                                 replay={'kind': 'c14.branch', 'entry': name, 'branch': b, 'branch_ref': br}))
            if name == 'alpha_s':
                # (the reference's BET area is computed on its adsorption branch by area_BET -- whole-branch reads; the alpha-s
                # curve itself is read through loading_at)
                rmine = [e for e in rlog if e[0] == 'call' and e[1] in ('loading_at', 'pressure_at')]
                rbad = [f"{e[1]}(branch={e[2].get('branch')!r})" for e in rmine if e[2].get('branch') != br]
                obs.append(static_ob(f"{P}/characterisation.{name}/protocol.reference_read_on_branch_ref/{cfg}", bool(rmine) and not rbad, ', '.join(rbad) or err, backend='trace',
                                     replay={'kind': 'c14.branch', 'entry': name, 'branch': b, 'branch_ref': br}))
    return obs


def _dispatch(job):
    kind, arg = job
    return {'bet': bet_block, 'lang': lang_block, 'tplot': tplot_block, 'da': da_block, 'cas': cas_block, 'limits': limits_block, 'branch': entry_branch_block}[kind](arg)


def run(rep):
    rep.level = 'proof'
    rep.fn('pygaps.characterisation.area_bet.area_BET_raw/roq_transform/bet_transform/bet_fit/bet_parameters',
           'pygaps.characterisation.area_lang.area_langmuir_raw/langmuir_transform/langmuir_fit/langmuir_parameters',
           'pygaps.characterisation.t_plots.t_plot_raw/t_plot_parameters', 'pygaps.characterisation.alphas_plots.alpha_s_raw/alpha_s_plot_parameters',
           'pygaps.characterisation.dr_da_plots.da_plot_raw/log_v_adj/log_p_exp', 'pygaps.utilities.math_utilities.find_limit_indices',
           'pygaps.characterisation.models_thickness.thickness_halsey/thickness_harkins_jura/convert_to_thickness')
    rep.assume('scipy.stats.linregress: exact-fit lemma (points on one line => slope, intercept of that line, r^2 = 1); nothing otherwise',
               'numpy.searchsorted / flatnonzero / slicing executed by real numpy on object arrays (definitions as documented)',
               'real arithmetic; scipy.constants lifted to the decimals they spell; exp/ln uninterpreted with the usual axioms',
               'a point equal to a limit may fall on either side (the property does not say); Rouquerol end: the point before or at the first decrease',
               'scipy.optimize.minimize_scalar(bounded): success => result inside the bounds; that it finds the global minimum of the (proved scale-free, '
               'zero-at-the-generating-exponent) objective is NOT assumed -- exponent recovery with the real minimiser is a bounded stand-in')
    rep.trust('CPython 3.12', 'z3 5.1.0', 'sympy 1.14', 'pgv.sx', 'pgv.lift', 'pgv.npproxy')
    nmax = 4 if rep.tier == 'quick' else 6
    jobs = []
    for n in range(3, nmax + 1):
        for lim in ('both', 'lo', 'hi', 'auto'):
            jobs.append(('bet', (n, lim)))
            jobs.append(('lang', (n, lim)))
        jobs.append(('bet', (n + 1, 'auto_any')))
        jobs.append(('tplot', (n,)))
        jobs.append(('da', (n,)))
        jobs.append(('limits', (n,)))
    jobs.append(('cas', None))
    obs, crashes = par.pmap(_dispatch, jobs)
    # the recorded runs of the real entry points need the unpatched modules: run here, not in a worker that has installed
    # the lifted functions and contract stubs for the symbolic jobs
    obs += entry_branch_block(None)
    rep.extend(obs)
    if crashes:
        rep.crash = crashes[0]
    from pgv.replayers import c14 as R14
    for res in R14.da_exponent_cases(rep.seed, thorough=rep.tier == 'thorough'):
        rep.add_bounded(f"{P}/bounded.{res['name']}", res['ok'], res['detail'], replay={'kind': 'c14.da_case', 'name': res['name'], 'seed': rep.seed})
    for res in R14.verbose_entry_cases():
        rep.add_bounded(f"{P}/bounded.{res['name']}", res['ok'], res['detail'], replay={'kind': 'c14.verbose', 'name': res['name']})
    for res in R14.alpha_s_self_cases():
        rep.add_bounded(f"{P}/bounded.{res['name']}", res['ok'], res['detail'], replay={'kind': 'c14.alpha_self', 'name': res['name']})
    for res in R14.standard_thickness_cases():
        rep.add_bounded(f"{P}/bounded.{res['name']}", res['ok'], res['detail'], replay={'kind': 'c14.std_thickness', 'name': res['name']})
    for res in R14.entry_adsorbate_cases():
        rep.add_bounded(f"{P}/bounded.{res['name']}", res['ok'], res['detail'], replay={'kind': 'c14.adsorbate', 'name': res['name']})
    rep.shape_bounded = {'N': nmax, 'what': f'arrays of 3..{nmax} symbolic, strictly increasing pressures', 'obligations': len(obs)}
