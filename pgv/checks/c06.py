"""C06 -- JSON export and import are exact inverses.

Contract level (discharged): BaseIsotherm constructor / to_dict symmetry on token metadata (all key-set shapes incl.
nested material dictionaries); model_from_dict(to_dict()) restores name, parameters, ranges, rmse for the 16 models, and
every attribute read by loading/pressure/spreading_pressure is either restored by it or by ModelIsotherm.__init__
(static read-set); isotherm_to_json passes sort_keys, writes the same document to string and file and marks exactly
the rows with branch != 0.  The pandas / json half (real round trips) is a bounded stand-in.
"""
from __future__ import annotations

import ast
import inspect
import itertools
import json
import os
import tempfile
import textwrap

from pgv import par
from pgv.util import static_ob

P = 'C06'
LABELS = dict(pressure_mode='absolute', pressure_unit='bar', loading_basis='molar', loading_unit='mmol', material_basis='mass',
              material_unit='g', temperature_unit='K')


def glue_block(_b):
    import pygaps
    import pygaps.core.baseisotherm as B
    import pygaps.modelling as pgm
    from pgv.checks.models_common import MODELS, DOMAIN
    pygaps.logger.disabled = True
    obs = []
    # (1) constructor / to_dict symmetry
    values = {'s': 'text', 'i': 3, 'f': 0.5, 'b': True, 'l': [1, 'a'], 'n': 'None', 'u': 'ü'}
    mats = ['pgv_c06_m', {'name': 'pgv_c06_m2', 'density': 2.0}, {'name': 'pgv_c06_m3', 'density': 2.0, 'custom': 'x'}]
    bad, n = [], 0
    for r in range(0, 4):
        for keys in itertools.combinations(values, r):
            for mat in mats:
                d = dict(LABELS, material=mat if not isinstance(mat, dict) else dict(mat), adsorbate='nitrogen', temperature=77.0,
                         **{f"meta_{k}": values[k] for k in keys})
                want = json.loads(json.dumps(d))
                got = B.BaseIsotherm(**d).to_dict()
                n += 1
                if got != want or any(type(got[k]) is not type(want[k]) for k in want):
                    bad.append({'keys': keys, 'material': mat, 'diff': [k for k in set(got) | set(want) if got.get(k) != want.get(k)]})
    obs.append(static_ob(f"{P}/baseisotherm.BaseIsotherm.__init__+to_dict/symmetry.to_dict_of_constructor_is_identity/key_sets", not bad,
                         f"{n} dictionaries; failures {bad[:2]}", backend='eval', replay={'kind': 'c06.roundtrip'}))
    # (2) model dictionaries
    import random
    from pgv import rtgen
    rnd = random.Random(1)
    for name in MODELS:
        m = rtgen._model(name, rnd)
        d = json.loads(json.dumps(m.to_dict()))
        m2 = pgm.model_from_dict(dict(d))
        same = m2.name == m.name and m2.params == m.params and tuple(m2.pressure_range) == tuple(m.pressure_range) \
            and tuple(m2.loading_range) == tuple(m.loading_range) and m2.rmse == m.rmse and type(m2) is type(m)
        obs.append(static_ob(f"{P}/modelling.model_from_dict/symmetry.model_dict_round_trip/{name}", same, f"{m2.to_dict()} vs {d}", backend='eval',
                             replay={'kind': 'c06.model', 'model': name}))
        # static: attributes read by the model equations are restored
        cls = type(m)
        reads = set()
        for meth in ('loading', 'pressure', 'spreading_pressure'):
            f = cls.__dict__.get(meth)
            if f is None:
                continue
            for node in ast.walk(ast.parse(textwrap.dedent(inspect.getsource(f)))):
                if isinstance(node, ast.Attribute) and isinstance(node.value, ast.Name) and node.value.id == 'self' and isinstance(node.ctx, ast.Load):
                    reads.add(node.attr)
        methods = {k for k in dir(cls) if callable(getattr(cls, k, None))}
        state_reads = reads - methods
        restored_by_dict = {'params', 'param_bounds', 'pressure_range', 'loading_range', 'rmse', 'name'}
        extra = state_reads - restored_by_dict
        # anything else must be (re)initialised by __init_parameters__, which ModelIsotherm.__init__ must call for model instances
        init_src = inspect.getsource(cls.__dict__['__init_parameters__']) if '__init_parameters__' in cls.__dict__ else ''
        set_by_init = {node.attr for node in ast.walk(ast.parse(textwrap.dedent(init_src))) if isinstance(node, ast.Attribute) and isinstance(node.ctx, ast.Store)} if init_src else set()
        import pygaps.core.modelisotherm as MI
        ctor = inspect.getsource(MI.ModelIsotherm.__init__)
        branch_src = ctor[ctor.index('elif is_model_class(model):'):ctor.index('else:', ctor.index('elif is_model_class(model):'))]
        ok = extra <= set_by_init and (not extra or '__init_parameters__' in branch_src)
        obs.append(static_ob(f"{P}/modelling.{MODELS[name]}.{name}/symmetry.every_attribute_read_by_the_equations_is_restored/static", ok,
                             f"read {sorted(state_reads)}; beyond the dictionary: {sorted(extra)}; set by __init_parameters__: {sorted(set_by_init)}",
                             replay={'kind': 'c06.model', 'model': name}))
    # (3) isotherm_to_json call site
    import pandas
    import pygaps.parsing.json as J
    rec = {}
    real_json = J.json

    class JJ:
        @staticmethod
        def dumps(obj, **kw):
            rec['dumps'] = (json.loads(real_json.dumps(obj, **kw)), kw)
            return real_json.dumps(obj, **kw)

        @staticmethod
        def dump(obj, fp, **kw):
            rec['dump'] = (json.loads(real_json.dumps(obj, **kw)), kw)
            return real_json.dump(obj, fp, **kw)
        loads, load = real_json.loads, real_json.load
    J.json = JJ
    try:
        df = pandas.DataFrame({'pressure': [0.1, 0.2, 0.3, 0.25], 'loading': [1.0, 2.0, 3.0, 2.5], 'branch': [0, 1, 0, 1]})
        iso = pygaps.PointIsotherm(isotherm_data=df, pressure_key='pressure', loading_key='loading', material='pgv_c06_m', adsorbate='nitrogen',
                                   temperature=77.0, note='x', **LABELS)
        s = J.isotherm_to_json(iso)
        tmp = tempfile.mkdtemp(prefix='pgv-c06-')
        pth = os.path.join(tmp, 'i.json')
        J.isotherm_to_json(iso, pth)
        import shutil
        file_doc = json.load(open(pth, encoding='utf-8'))
        shutil.rmtree(tmp, ignore_errors=True)
    finally:
        J.json = real_json
    obs.append(static_ob(f"{P}/parsing.json.isotherm_to_json/callsite.sort_keys_for_string_and_file/point", rec['dumps'][1].get('sort_keys') is True
                         and rec['dump'][1].get('sort_keys') is True, str((rec['dumps'][1], rec['dump'][1])), backend='trace'))
    obs.append(static_ob(f"{P}/parsing.json.isotherm_to_json/callsite.same_document_to_string_and_file/point", rec['dumps'][0] == rec['dump'][0] == file_doc == json.loads(s), '', backend='trace'))
    marks = ['des' if r.get('branch') == 'des' else ('ads' if 'branch' not in r else r['branch']) for r in rec['dumps'][0]['isotherm_data']]
    obs.append(static_ob(f"{P}/parsing.json.isotherm_to_json/callsite.marks_exactly_rows_with_nonzero_branch/point", marks == ['ads', 'des', 'ads', 'des'], str(marks), backend='trace',
                         replay={'kind': 'c06.roundtrip'}))
    back = J.isotherm_from_json(s)
    obs.append(static_ob(f"{P}/parsing.json.isotherm_from_json/ensures.branch_column_rebuilt_from_marks/point", [int(x) for x in back.data_raw['branch']] == [0, 1, 0, 1],
                         str(list(back.data_raw['branch'])), backend='trace', replay={'kind': 'c06.roundtrip'}))
    return obs


def _dispatch(job):
    return glue_block(job[1])


def run(rep):
    rep.level = 'other'
    rep.fn('pygaps.core.baseisotherm.BaseIsotherm.__init__ / to_dict', 'pygaps.modelling.model_from_dict', 'pygaps.modelling.base_model.IsothermBaseModel.to_dict',
           'pygaps.parsing.json.isotherm_to_json / isotherm_from_json', 'pygaps.core.modelisotherm.ModelIsotherm.__init__ (model-instance branch)')
    rep.assume('json.loads(json.dumps(x)) == x on JSON-representable values',
               'pandas DataFrame.to_dict(orient="index") / from_dict / fillna / replace and dtype effects are only exercised by the bounded round trips',
               'metadata values are tokens: one representative per JSON type')
    rep.trust('CPython 3.12', 'json', 'pandas')
    obs, crashes = par.pmap(_dispatch, [('glue', None)])
    rep.extend(obs)
    if crashes:
        rep.crash = crashes[0]
    from pgv.replayers import c06 as R
    n = 0
    for res in R.roundtrips('json', rep.seed, thorough=rep.tier == 'thorough'):
        rep.add_bounded(f"{P}/bounded.json_round_trip/{res['name']}", res['ok'], res['detail'], replay={'kind': 'c06.case', 'fmt': 'json', 'seed': rep.seed, 'name': res['name']})
        n += 1
    for res in R.file_name_cases('json'):
        rep.add_bounded(f"{P}/bounded.{res['name']}", res['ok'], res['detail'], replay={'kind': 'c06.file_name', 'fmt': 'json', 'name': res['name']})
        n += 1
    for res in R.registry_cases('json'):
        rep.add_bounded(f"{P}/bounded.{res['name']}", res['ok'], res['detail'], replay={'kind': 'c06.registry', 'fmt': 'json', 'name': res['name']})
        n += 1
    rep.extra_cov['explanation'] = (f"constructor/to_dict and model-dictionary symmetry, restored-attribute read sets and the to_json call site are discharged; "
                                    f"{n} real JSON round trips (string and file, idempotent document) are a bounded stand-in and not counted as proved")
