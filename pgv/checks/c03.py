"""C03 -- data accessors in requested units agree with permanent conversion.

Accessor contract (DESIGN Appendix A.2): with S the stored and R the requested representation
(completed as documented), every returned number r satisfies canon(r; R) == canon(stored; S),
which -- canon being linear with positive factor (C01 lemma) -- is exactly the number a permanent
conversion of a copy (C02 contract) followed by a native read would give.
"""
from __future__ import annotations

import itertools

import numpy

from pgv import isostub as I, par, pdstub, spec_si as S, stubs, sx
from pgv.util import collect, static_ob

P = 'C03'
DEF = dict(pressure_mode='absolute', pressure_unit='bar', loading_basis='molar', loading_unit='mmol',
           material_basis='mass', material_unit='g', temperature_unit='K')


def _lab(**kw):
    d = dict(DEF)
    d.update(kw)
    return d


def _frac(b):
    return b in ('fraction', 'percent')


# ---------------------------------------------------------------------------------
# request completion (from the docstrings: omitted = "the one the isotherm is currently in")
# ---------------------------------------------------------------------------------

def complete(stored, req, table):
    """-> (status, (basis, unit)).  status: none | complete | lenient | incomplete | invalid"""
    sb, su = stored
    rb, ru = req
    if not rb and not ru:
        return 'none', (sb, su)
    b = rb or sb
    if b not in table:
        return 'invalid', None
    if table[b] is None:
        return 'complete', (b, None)
    if ru:
        if ru not in table[b]:
            return 'invalid', None
        return 'complete', (b, ru)
    if b == sb:
        return 'lenient', (b, su)
    return 'incomplete', None


def classify(statuses):
    if any(s in ('invalid', 'incomplete') for s in statuses):
        return 'must_refuse'
    if any(s == 'lenient' for s in statuses):
        return 'may_refuse'
    return 'must_return'


def _prep():
    st = I.prepare()
    if 'c03' not in st:
        import pygaps.core.modelisotherm as MI
        import pygaps.utilities.isotherm_interpolator as II
        MI.c_pressure, MI.c_loading, MI.c_material = st['fns']['c_pressure'], st['fns']['c_loading'], st['fns']['c_material']
        II.interp1d = stubs.Interp1dStub
        st['MI'] = MI
        st['II'] = II
        st['c03'] = True
    return st


def _outcome(E, f):
    try:
        return ('return', f())
    except E.pgError as exc:
        return ('pgError', f"{type(exc).__name__}: {str(exc)[:60]}")
    except sx.Unsupported:
        raise
    except Exception as exc:
        return (f"other:{type(exc).__name__}", str(exc)[:80])


def _judge(eng, base, cfg, kind, out, replay, value_conds):
    """common verdict logic for an accessor call"""
    x = {'replay': replay, 'observed': out[0] + ('' if out[0] == 'return' else ': ' + str(out[1]))}
    eng.prove(f"{base}/raises.only_pgError/{cfg}", out[0] in ('return', 'pgError'), extra=x)
    if kind == 'must_refuse':
        eng.prove(f"{base}/raises.incomplete_or_invalid_request_refused/{cfg}", out[0] != 'return', extra=x)
    elif kind == 'must_return':
        eng.prove(f"{base}/ensures.returns/{cfg}", out[0] == 'return', extra=x)
    if out[0] == 'return' and kind != 'must_refuse':
        for clause, cond in value_conds(out[1]):
            eng.prove(f"{base}/{clause}/{cfg}", cond, extra=x)


# ---------------------------------------------------------------------------------
# (1) whole-branch accessors: pressure(), loading()
# ---------------------------------------------------------------------------------

P_MODES = [None, 'absolute', 'relative', 'relative%', 'xx']
P_UNITS = [None] + list(S.U_P) + ['xx']


def pressure_cfgs(tier):
    out = []
    for (pm, pu) in S.pressure_reprs():
        for rm, ru in itertools.product(P_MODES, P_UNITS):
            for cls in ('point', 'model'):
                out.append(('pressure', cls, pm, pu, rm, ru))
    return out


L_STORED_Q = [('molar', 'mmol'), ('molar', 'cm3(STP)'), ('mass', 'g'), ('mass', 'mg'), ('volume_gas', 'cm3'),
              ('volume_liquid', 'L'), ('fraction', None), ('percent', None)]
M_STORED_Q = [('mass', 'g'), ('volume', 'cm3'), ('molar', 'mmol')]
M_REQ = [(None, None), (None, 'kg'), ('mass', None), ('volume', 'cm3'), ('molar', 'mol'), ('molar', None), ('volume', 'dm3')]


def _l_reqs(tier):
    reqs = [(None, None)]
    for b, t in S.LOADING_BASES.items():
        reqs.append((b, None))
        if t:
            us = list(t) if tier == 'thorough' else list(t)[:2]
            reqs += [(b, u) for u in us]
            reqs.append((b, 'xx'))
    reqs += [('xx', None), ('xx', 'g'), (None, 'mol'), (None, 'kg'), (None, 'cm3')]
    return reqs


def loading_cfgs(tier, method='loading'):
    out = []
    l_stored = S.loading_reprs() if tier == 'thorough' else L_STORED_Q
    m_stored = S.material_reprs() if tier == 'thorough' else M_STORED_Q
    for (lb, lu) in l_stored:
        for (mb, mu) in m_stored:
            for (rlb, rlu) in _l_reqs(tier):
                for (rmb, rmu) in M_REQ:
                    for cls in ('point', 'model'):
                        out.append((method, cls, lb, lu, mb, mu, rlb, rlu, rmb, rmu))
    return out


def _make(eng, cls, lab, n=2, calculates='loading'):
    st = _prep()
    if cls == 'point':
        iso = I.make_iso(eng, lab, n=n, frame=True)
        iso.l_interpolator = None
        iso.p_interpolator = None
        return iso
    iso = I.make_iso(eng, lab, n=n, cls=st['MI'].ModelIsotherm)
    for k in ('data_raw', 'pressure_key', 'loading_key', 'l_interpolator', 'p_interpolator'):
        iso.__dict__.pop(k, None)
    iso.model = stubs.ModelStub(calculates)
    iso.branch = 'ads'
    return iso


def _stored(iso, cls, col):
    if cls == 'point':
        return list(iso.data_raw.cols[col])
    return None


def whole_block(block):
    st = _prep()
    E, T = st['E'], st['T']
    obs = []
    for cfg_t in block:
        what, cls = cfg_t[0], cfg_t[1]
        if what == 'pressure':
            _w, _c, pm, pu, rm, ru = cfg_t
            lab = _lab(pressure_mode=pm, pressure_unit=pu)
            status, R = complete((pm, pu), (rm, ru), S.PRESSURE_MODES)
            kind = classify([status])
            cfg = f"{cls}|{pm}:{pu}→mode={rm},unit={ru}"
            kwargs = {'pressure_mode': rm, 'pressure_unit': ru}
        else:
            _w, _c, lb, lu, mb, mu, rlb, rlu, rmb, rmu = cfg_t
            lab = _lab(loading_basis=lb, loading_unit=lu, material_basis=mb, material_unit=mu)
            s_m, R_m = complete((mb, mu), (rmb, rmu), S.MATERIAL_BASES)
            s_l, R_l = complete((lb, lu), (rlb, rlu), S.LOADING_BASES)
            kind = classify([s_m, s_l])
            cfg = f"{cls}|{lb}:{lu}|{mb}:{mu}→basis={rlb},unit={rlu},mbasis={rmb},munit={rmu}"
            kwargs = {'loading_basis': rlb, 'loading_unit': rlu, 'material_basis': rmb, 'material_unit': rmu}
        base = f"{P}/{'PointIsotherm' if cls == 'point' else 'ModelIsotherm'}.{what}"
        replay = {'kind': 'c03.accessor', 'cls': cls, 'method': what, 'labels': lab, 'kwargs': kwargs, 'expect': kind}
        eng = sx.Engine(max_paths=64)

        def run():
            iso = _make(eng, cls, lab, calculates='loading' if what == 'pressure' else 'pressure')
            ads, mat = iso._adsorbate._a, iso._material._m
            if cls == 'model':
                # whole-"branch" accessors of a model isotherm generate a grid in the stored representation
                iso.model.pressure_range = (eng.real('g0', positive=True), eng.real('g1', positive=True))
                iso.model.loading_range = (eng.real('g0', positive=True), eng.real('g1', positive=True))
                kw = dict(kwargs, points=2)
                stored = [iso.model.pressure_range[0], iso.model.pressure_range[1]]
            else:
                kw = dict(kwargs)
                stored = _stored(iso, cls, what)
            old = I.snapshot(iso) if cls == 'point' else None
            out = _outcome(E, lambda: getattr(iso, what)(**kw))

            def conds(res):
                res = list(res)
                yield ('ensures.length', len(res) == len(stored))
                if len(res) != len(stored):
                    return
                if what == 'pressure':
                    yield ('ensures.canon_p', sx.And(*[sx.eq(S.canon_p(r, R[0], R[1], ads, T), S.canon_p(v, pm, pu, ads, T))
                                                       for r, v in zip(res, stored)]))
                else:
                    yield ('ensures.canon_l', sx.And(*[sx.eq(
                        I.canon_l_of(r, (0, 0, R_l[0], R_l[1], R_m[0], R_m[1]), ads, mat, T),
                        I.canon_l_of(v, (0, 0, lb, lu, mb, mu), ads, mat, T)) for r, v in zip(res, stored)]))
                if old is not None:
                    yield ('frame.isotherm_unchanged', I.conj(I.unchanged(old, iso)))
            _judge(eng, base, cfg, kind, out, replay, conds)

        obs += collect(eng, run, base, cfg)
    return obs


# ---------------------------------------------------------------------------------
# (2) point evaluation: loading_at / pressure_at  (interpolator or model as uninterpreted function)
# ---------------------------------------------------------------------------------

def at_cfgs(tier):
    out = []
    l_stored = L_STORED_Q if tier == 'quick' else S.loading_reprs()
    p_stored = [('absolute', 'bar'), ('absolute', 'torr'), ('relative', None), ('relative%', None)] if tier == 'quick' \
        else S.pressure_reprs()
    p_reqs = [(None, None), ('absolute', 'Pa'), ('absolute', None), ('relative', None), ('relative%', None), (None, 'kPa'),
              ('xx', None), ('absolute', 'xx')]
    l_reqs = [(None, None), ('mass', 'g'), ('molar', 'mol'), ('molar', None), ('mass', None), ('fraction', None),
              ('percent', None), ('volume_liquid', 'cm3'), (None, 'mg'), ('xx', 'g'), ('mass', 'xx')]
    m_reqs = [(None, None), ('volume', 'cm3'), ('mass', 'kg'), (None, 'kg'), ('molar', None)]
    for method in ('loading_at', 'pressure_at'):
        for cls in ('point', 'model'):
            for (pm, pu) in p_stored:
                for (lb, lu) in l_stored:
                    ms = [('mass', 'g'), ('volume', 'cm3')] if _frac(lb) else [('mass', 'g')]
                    for (mb, mu) in ms:
                        for rp, rl, rm in itertools.product(p_reqs, l_reqs, m_reqs):
                            # keep the product manageable: vary one quantity fully, the others at 2 values
                            nvar = (rp != (None, None)) + (rl != (None, None)) + (rm != (None, None))
                            if tier == 'quick' and nvar > 1 and not (rl in (('fraction', None), ('mass', 'g')) and rm == ('volume', 'cm3') and rp == (None, None)) \
                                    and not (rp == ('relative', None) and rl == ('mass', 'g') and rm == (None, None)):
                                continue
                            out.append((method, cls, pm, pu, lb, lu, mb, mu, rp, rl, rm))
    return out


def _last_call(cls, iso, what):
    """(argument, opaque result) of the one call made to the interpolator / model"""
    if cls == 'point':
        res = stubs.Interp1dStub.instances[-1].results
        if len(res) != 1:
            raise sx.Unsupported(f"interpolator called {len(res)} times")
        return res[0]
    res = [r for r in iso.model.results if r[0] == what]
    if len(res) != 1:
        raise sx.Unsupported(f"model.{what} called {len(res)} times")
    return res[0][1], res[0][2]


def at_block(block):
    st = _prep()
    E, T = st['E'], st['T']
    obs = []
    for (method, cls, pm, pu, lb, lu, mb, mu, rp, rl, rm) in block:
        lab = _lab(pressure_mode=pm, pressure_unit=pu, loading_basis=lb, loading_unit=lu, material_basis=mb, material_unit=mu)
        s_p, R_p = complete((pm, pu), rp, S.PRESSURE_MODES)
        s_l, R_l = complete((lb, lu), rl, S.LOADING_BASES)
        s_m, R_m = complete((mb, mu), rm, S.MATERIAL_BASES)
        kind = classify([s_p, s_l, s_m])
        cfg = f"{cls}|{pm}:{pu}|{lb}:{lu}|{mb}:{mu}→p={rp[0]}:{rp[1]},l={rl[0]}:{rl[1]},m={rm[0]}:{rm[1]}"
        base = f"{P}/{'PointIsotherm' if cls == 'point' else 'ModelIsotherm'}.{method}"
        kwargs = {'pressure_mode': rp[0], 'pressure_unit': rp[1], 'loading_basis': rl[0], 'loading_unit': rl[1],
                  'material_basis': rm[0], 'material_unit': rm[1]}
        replay = {'kind': 'c03.accessor', 'cls': cls, 'method': method, 'labels': lab, 'kwargs': kwargs, 'expect': kind}
        eng = sx.Engine(max_paths=64)

        def run():
            stubs.Interp1dStub.instances.clear()
            stubs.Interp1dStub.mode = 'uf'
            iso = _make(eng, cls, lab, calculates='loading' if method == 'loading_at' else 'pressure')
            ads, mat = iso._adsorbate._a, iso._material._m
            q = eng.real('q', positive=True)
            out = _outcome(E, lambda: getattr(iso, method)(q, **kwargs))

            def conds(res):
                r = res.item() if isinstance(res, numpy.ndarray) else res
                one = sx.SymReal(1)
                if method == 'loading_at':
                    # query pressure enters in the stored representation; result leaves in the requested one
                    q_st = q * S.canon_p(one, R_p[0], R_p[1], ads, T) / S.canon_p(one, pm, pu, ads, T)
                    arg, inner = _last_call(cls, iso, 'loading')
                    yield ('ensures.query_in_stored_representation', sx.eq(arg, q_st))
                    yield ('ensures.factor_agreement', sx.eq(
                        I.canon_l_of(r, (0, 0, R_l[0], R_l[1], R_m[0], R_m[1]), ads, mat, T),
                        I.canon_l_of(inner, (0, 0, lb, lu, mb, mu), ads, mat, T)))
                else:
                    k_req = I.canon_l_of(one, (0, 0, R_l[0], R_l[1], R_m[0], R_m[1]), ads, mat, T)
                    k_st = I.canon_l_of(one, (0, 0, lb, lu, mb, mu), ads, mat, T)
                    q_st = q * k_req / k_st
                    arg, inner = _last_call(cls, iso, 'pressure')
                    yield ('ensures.query_in_stored_representation', sx.eq(arg, q_st))
                    yield ('ensures.factor_agreement', sx.eq(S.canon_p(r, R_p[0], R_p[1], ads, T), S.canon_p(inner, pm, pu, ads, T)))
            _judge(eng, base, cfg, kind, out, replay, conds)

        obs += collect(eng, run, base, cfg)
    return obs


# ---------------------------------------------------------------------------------
# (3) interpolator call site, knots, cache key;   (4) branch / limit selection, other_data, ordered helper
# ---------------------------------------------------------------------------------

def interp_block(_b):
    st = _prep()
    E = st['E']
    obs = []
    for branch, kind_, fill in itertools.product(('ads', 'des'), ('linear', 'cubic'), (None, 0, (1, 2), 'extrapolate')):
        for method in ('loading_at', 'pressure_at'):
            cfg = f"{method}|branch={branch},kind={kind_},fill={fill}"
            base = f"{P}/IsothermInterpolator.__init__"
            eng = sx.Engine(max_paths=64)

            def run():
                stubs.Interp1dStub.instances.clear()
                stubs.Interp1dStub.mode = 'uf'
                iso = I.make_iso(eng, _lab(), n=4, frame=True, branch=[0, 0, 1, 1])
                iso.l_interpolator = iso.p_interpolator = None
                q = eng.real('q', positive=True)
                getattr(iso, method)(q, branch=branch, interpolation_type=kind_, interp_fill=fill)
                inst = stubs.Interp1dStub.instances
                eng.prove(f"{base}/callsite.one_interpolator/{cfg}", len(inst) == 1)
                it = inst[0]
                rows = [0, 1] if branch == 'ads' else [2, 3]
                xs = [iso.data_raw.cols['pressure' if method == 'loading_at' else 'loading'][i] for i in rows]
                ys = [iso.data_raw.cols['loading' if method == 'loading_at' else 'pressure'][i] for i in rows]
                eng.prove(f"{base}/callsite.knots_are_branch_data/{cfg}",
                          len(it.x) == 2 and len(it.y) == 2 and I.same_value(it.x, xs) is not False and I.same_value(it.y, ys) is not False
                          and I.conj([('x', I.same_value(it.x, xs)), ('y', I.same_value(it.y, ys))]))
                eng.prove(f"{base}/callsite.kind_passed/{cfg}", it.kind == kind_)
                if fill is None:
                    eng.prove(f"{base}/callsite.no_fill_means_bounds_error/{cfg}",
                              it.fill_value is stubs._NOFILL and it.bounds_error in (None, True))
                else:
                    eng.prove(f"{base}/callsite.fill_passed_with_bounds_error_false/{cfg}",
                              it.fill_value == fill and it.bounds_error is False)
                # second call with the same key re-uses the interpolator; with another key it is rebuilt
                getattr(iso, method)(q, branch=branch, interpolation_type=kind_, interp_fill=fill)
                eng.prove(f"{base}/cache.same_key_reused_or_rebuilt_identically/{cfg}",
                          len(inst) == 1 or (I.same_value(inst[-1].x, xs) is not False and inst[-1].kind == kind_))
                other = 'des' if branch == 'ads' else 'ads'
                getattr(iso, method)(q, branch=other, interpolation_type=kind_, interp_fill=fill)
                rows2 = [0, 1] if other == 'ads' else [2, 3]
                xs2 = [iso.data_raw.cols['pressure' if method == 'loading_at' else 'loading'][i] for i in rows2]
                eng.prove(f"{base}/cache.other_branch_rebuilt/{cfg}",
                          I.conj([('x', I.same_value(inst[-1].x, xs2))]))

            obs += collect(eng, run, base, cfg)
    # interp1d linear contract is honoured by the wrapper: exact at knots, straight line between, refusal outside
    for fill in (None, 'extrapolate'):
        cfg = f"fill={fill}"
        base = f"{P}/PointIsotherm.loading_at"
        eng = sx.Engine(max_paths=256)

        def run():
            stubs.Interp1dStub.instances.clear()
            stubs.Interp1dStub.mode = 'linear'
            iso = I.make_iso(eng, _lab(), n=3, frame=True, branch=[0, 0, 0])
            iso.l_interpolator = iso.p_interpolator = None
            p, l = iso.data_raw.cols['pressure'], iso.data_raw.cols['loading']
            eng.assume((p[0] > 0) & (p[0] < p[1]) & (p[1] < p[2]))
            q = eng.real('q', positive=True)
            try:
                r = iso.loading_at(q, interp_fill=fill).item()
                out = 'return'
            except ValueError:
                out = 'ValueError'
            inside = (q >= p[0]) & (q <= p[2])
            if fill is None:
                eng.prove(f"{base}/interp.refused_outside_range/{cfg}", sx.Implies(sx.Not(inside), out == 'ValueError'))
                eng.prove(f"{base}/interp.answers_inside_range/{cfg}", sx.Implies(inside, out == 'return'))
            if out == 'return':
                for i in range(3):
                    eng.prove(f"{base}/interp.exact_at_knots/{cfg}", sx.Implies(sx.eq(q, p[i]), sx.eq(r, l[i])))
                for i in range(2):
                    on_line = sx.eq((r - l[i]) * (p[i + 1] - p[i]), (l[i + 1] - l[i]) * (q - p[i]))
                    eng.prove(f"{base}/interp.linear_between_neighbours/{cfg}",
                              sx.Implies((q >= p[i]) & (q <= p[i + 1]), on_line))
        obs += collect(eng, run, base, cfg)
    # the refusal does not depend on what was asked before: an earlier call that did give a fill rule
    # (directly or through spreading_pressure_at) must not make a later call without one answer outside the range
    priors = {'same.fill0': lambda iso, q2: iso.loading_at(q2, interp_fill=0),
              'same.extrapolate': lambda iso, q2: iso.loading_at(q2, interp_fill='extrapolate'),
              'same.fill_pair': lambda iso, q2: iso.loading_at(q2, interp_fill=(1, 2)),
              'pressure_at.extrapolate': lambda iso, q2: iso.pressure_at(q2, interp_fill='extrapolate')}
    for method, prior in itertools.product(('loading_at', 'pressure_at'), priors):
        cfg = f"{method}|after:{prior}"
        base = f"{P}/PointIsotherm.{method}"
        eng = sx.Engine(max_paths=512)

        def run():
            stubs.Interp1dStub.instances.clear()
            stubs.Interp1dStub.mode = 'linear'
            iso = I.make_iso(eng, _lab(), n=3, frame=True, branch=[0, 0, 0])
            iso.l_interpolator = iso.p_interpolator = None
            p, l = iso.data_raw.cols['pressure'], iso.data_raw.cols['loading']
            eng.assume((p[0] > 0) & (p[0] < p[1]) & (p[1] < p[2]) & (l[0] > 0) & (l[0] < l[1]) & (l[1] < l[2]))
            q, q2 = eng.real('q', positive=True), eng.real('q2', positive=True)
            pr = priors[prior]
            if method == 'pressure_at':
                pr = {'same.fill0': lambda iso, q2: iso.pressure_at(q2, interp_fill=0),
                      'same.extrapolate': lambda iso, q2: iso.pressure_at(q2, interp_fill='extrapolate'),
                      'same.fill_pair': lambda iso, q2: iso.pressure_at(q2, interp_fill=(1, 2)),
                      'pressure_at.extrapolate': lambda iso, q2: iso.loading_at(q2, interp_fill='extrapolate')}[prior]
            try:
                pr(iso, q2)
            except ValueError:
                pass
            try:
                getattr(iso, method)(q)
                out = 'return'
            except ValueError:
                out = 'ValueError'
            x = p if method == 'loading_at' else l
            inside = (q >= x[0]) & (q <= x[2])
            x_ = {'replay': {'kind': 'c03.refusal_history', 'method': method, 'prior': prior}}
            eng.prove(f"{base}/interp.refused_outside_range_after_filled_call/{cfg}", sx.Implies(sx.Not(inside), out == 'ValueError'), extra=x_)
            eng.prove(f"{base}/interp.answers_inside_range_after_filled_call/{cfg}", sx.Implies(inside, out == 'return'), extra=x_)
        obs += collect(eng, run, base, cfg)
    stubs.Interp1dStub.mode = 'uf'
    return obs


def selection_block(block):
    """limits + branch selection: exactly the stored points of the branch inside the limits, in order"""
    st = _prep()
    E, T = st['E'], st['T']
    obs = []
    for (what, branch, layout, lim_kind, unit) in block:
        cfg = f"{what}|branch={branch}|marks={''.join(map(str, layout))}|limits={lim_kind}|unit={unit}"
        base = f"{P}/PointIsotherm.{what}"
        replay = {'kind': 'c03.selection', 'what': what, 'branch': branch, 'layout': list(layout), 'limits': lim_kind, 'unit': unit}
        eng = sx.Engine(max_paths=2048)

        def run():
            iso = I.make_iso(eng, _lab(), n=len(layout), frame=True, branch=list(layout), index=[7, 3, 9, 4][:len(layout)])
            col = {'pressure': 'pressure', 'loading': 'loading', 'other_data': 'extra'}[what]
            if what == 'other_data':
                iso.data_raw.cols['extra'] = [eng.real(f'e{i}') for i in range(len(layout))]
            lo = {'none': None, 'both': eng.real('lo'), 'lo': eng.real('lo'), 'hi': None}[lim_kind]
            hi = {'none': None, 'both': eng.real('hi'), 'lo': None, 'hi': eng.real('hi')}[lim_kind]
            limits = None if lim_kind == 'none' else (lo, hi)
            kw = {'branch': branch, 'limits': limits}
            fac = sx.SymReal(1)
            if unit and what == 'pressure':
                kw['pressure_unit'] = unit
                fac = sx.SymReal(T.U_P['bar'] / T.U_P[unit])
            if unit and what == 'loading':
                kw['loading_unit'] = unit
                fac = sx.SymReal(T.U_N['mmol'] / T.U_N[unit])
            if what == 'other_data':
                kw = {'key': 'extra', 'branch': branch, 'limits': limits}
            res = list(getattr(iso, what)(**kw))
            rows = [i for i, b in enumerate(layout) if branch is None or (branch == 'ads') == (b == 0)]
            k = 0
            ok = True
            why = ''
            for i in rows:
                v = iso.data_raw.cols[col][i] * fac
                cond = sx.And(*([v >= lo] if lo is not None else []) + ([v <= hi] if hi is not None else [])) \
                    if (lo is not None or hi is not None) else True
                if cond is True:
                    inc = True
                else:
                    inc_t = eng._check(sx.z3.Not(cond.e)) == sx.z3.unsat
                    inc_f = eng._check(cond.e) == sx.z3.unsat
                    if inc_t == inc_f:
                        ok, why = False, f"membership of row {i} is not decided by its limit condition on this path"
                        break
                    inc = inc_t
                if inc:
                    if k >= len(res):
                        ok, why = False, f"row {i} is inside the limits but missing"
                        break
                    if eng._check(sx.z3.Not(sx.eq(res[k], v).e)) != sx.z3.unsat:
                        ok, why = False, f"element {k} is not stored row {i} (converted)"
                        break
                    k += 1
            if ok and k != len(res):
                ok, why = False, f"{len(res) - k} extra element(s) returned"
            eng.prove(f"{base}/selection.exactly_branch_points_inside_limits_in_order/{cfg}", ok,
                      extra={'replay': replay, 'observed': why})

        obs += collect(eng, run, base, cfg)
    return obs


def selection_cfgs(tier):
    out = []
    layouts = [(0, 0, 1), (0, 1, 1), (0, 0, 0), (1, 0, 1)] if tier == 'quick' else \
        [(0, 0, 1), (0, 1, 1), (0, 0, 0), (1, 1, 1), (1, 0, 1), (0, 0, 1, 1), (0, 1, 0, 1)]
    for what in ('pressure', 'loading', 'other_data'):
        for branch in (None, 'ads', 'des'):
            for layout in layouts:
                for lim in ('none', 'both', 'lo', 'hi'):
                    for unit in ((None, 'Pa') if what == 'pressure' else (None, 'mol') if what == 'loading' else (None,)):
                        out.append((what, branch, layout, lim, unit))
    return out


def misc_block(_b):
    st = _prep()
    E = st['E']
    obs = []
    # data(branch) / has_branch / bad branch
    base = f"{P}/PointIsotherm.data"
    for branch, layout in itertools.product((None, 'all', 'ads', 'des', 'xx'), ((0, 0, 1), (0, 0, 0), (1, 1, 1))):
        cfg = f"branch={branch}|marks={''.join(map(str, layout))}"
        eng = sx.Engine()

        def run():
            iso = I.make_iso(eng, _lab(), n=3, frame=True, branch=list(layout))
            out = _outcome(E, lambda: iso.data(branch=branch))
            if branch == 'xx':
                eng.prove(f"{base}/raises.bad_branch/{cfg}", out[0] == 'pgError')
                return
            rows = [i for i, b in enumerate(layout) if branch in (None, 'all') or (branch == 'ads') == (b == 0)]
            got = out[1].cols['pressure'] if out[0] == 'return' else None
            want = [iso.data_raw.cols['pressure'][i] for i in rows]
            eng.prove(f"{base}/ensures.rows_of_branch_in_order/{cfg}", got is not None and len(got) == len(want)
                      and all(a is b for a, b in zip(got, want)))
            eng.prove(f"{P}/PointIsotherm.has_branch/ensures.nonempty/{cfg}",
                      branch in (None, 'all') or iso.has_branch(branch) == (len(rows) > 0))
        obs += collect(eng, run, base, cfg)
    # get_iso_loading_and_pressure_ordered -- what its callers rely on: the points of the requested branch, pressure and loading
    # kept together, in order of increasing pressure (an adsorption branch as stored; a desorption branch, which is measured
    # from high to low pressure, reversed -- and left as it is when it already runs from low to high, as the points generated
    # by a model isotherm do)
    import pygaps.utilities.pygaps_utilities as PU
    base = f"{P}/pygaps_utilities.get_iso_loading_and_pressure_ordered"
    for branch, stored in (('ads', 'low_to_high'), ('des', 'high_to_low'), ('des', 'low_to_high')):
        eng = sx.Engine()

        def run():
            iso = I.make_iso(eng, _lab(), n=4, frame=True, branch=[0, 0, 1, 1])
            ps = iso.data_raw.cols['pressure']
            if branch == 'des':
                eng.assume(ps[2] > ps[3] if stored == 'high_to_low' else ps[2] < ps[3])
            else:
                eng.assume(ps[0] < ps[1])
            pr, lo = PU.get_iso_loading_and_pressure_ordered(
                iso, branch, {'loading_basis': 'molar', 'loading_unit': 'mmol'}, {'pressure_mode': 'absolute', 'pressure_unit': 'bar'})
            rows = [0, 1] if branch == 'ads' else ([3, 2] if stored == 'high_to_low' else [2, 3])
            wp = [iso.data_raw.cols['pressure'][i] for i in rows]
            wl = [iso.data_raw.cols['loading'][i] for i in rows]
            eng.prove(f"{base}/ensures.branch_points_in_increasing_pressure_order/{branch}|stored_{stored}",
                      I.conj([('p', I.same_value(list(pr), wp)), ('l', I.same_value(list(lo), wl))]))
        obs += collect(eng, run, base, f"{branch}|stored_{stored}")
    return obs


# ---------------------------------------------------------------------------------
# (5) split_ads_data: depends on the sequence of pressures only (not on row labels)
# ---------------------------------------------------------------------------------

INDEXINGS = {'0-based': lambda n: list(range(n)), '1-based': lambda n: list(range(1, n + 1)),
             'shuffled': lambda n: [5, 2, 9, 1, 7, 3][:n], 'strings': lambda n: list('abcdef')[:n],
             'offset': lambda n: list(range(10, 10 + n))}


def split_block(block):
    import pygaps.utilities.math_utilities as MU
    obs = []
    base = f"{P}/math_utilities.split_ads_data"
    for (n, idx_name) in block:
        cfg = f"n={n}|index={idx_name}"
        eng = sx.Engine(max_paths=4096)
        replay = {'kind': 'c03.split', 'n': n, 'index': idx_name}

        def run():
            ps = [eng.real(f'p{i}') for i in range(n)]
            df = pdstub.FrameStub({'pressure': ps, 'loading': [0] * n}, INDEXINGS[idx_name](n))
            try:
                res = list(MU.split_ads_data(df, 'pressure'))
            except sx.Unsupported:
                raise
            except Exception as exc:
                eng.prove(f"{base}/ensures.spec_first_maximum/{cfg}", False,
                          extra={'replay': replay, 'observed': f"{type(exc).__name__}: {exc}"})
                return
            # spec: m = position of the first maximum; all 0 if m == n-1; all 1 if m == 0 < n-1; else [j > m]
            conds = []
            for m in range(n):
                is_first_max = sx.And(*([ps[m] > ps[j] for j in range(m)] + [ps[m] >= ps[j] for j in range(m + 1, n)])) \
                    if n > 1 else True
                if m == n - 1:
                    want = [0] * n
                elif m == 0:
                    want = [1] * n
                else:
                    want = [1 if j > m else 0 for j in range(n)]
                match = [int(x) for x in res] == want
                conds.append(sx.Implies(is_first_max, match) if is_first_max is not True else match)
            eng.prove(f"{base}/ensures.spec_first_maximum/{cfg}", sx.And(*conds) if any(not isinstance(c, bool) for c in conds) else all(conds),
                      extra={'replay': replay, 'observed': str([int(x) for x in res])})

        obs += collect(eng, run, base, cfg)
    return obs


def _dispatch(job):
    kind, blk = job
    return {'whole': whole_block, 'at': at_block, 'interp': interp_block, 'sel': selection_block,
            'misc': misc_block, 'split': split_block}[kind](blk)


def run(rep):
    rep.level = 'proof'
    tier = rep.tier
    rep.fn('pygaps.core.pointisotherm.PointIsotherm.data/pressure/loading/other_data/has_branch/pressure_at/loading_at',
           'pygaps.core.modelisotherm.ModelIsotherm.pressure/loading/pressure_at/loading_at',
           'pygaps.utilities.isotherm_interpolator.IsothermInterpolator.__init__/__call__',
           'pygaps.utilities.math_utilities.split_ads_data',
           'pygaps.utilities.pygaps_utilities.get_iso_loading_and_pressure_ordered')
    rep.inlined += ['converter_mode.c_* (real, lifted; contracts in C01)']
    rep.assume('pandas DataFrame/Series API used by the accessors behaves as pgv.pdstub (column store, boolean .loc, between inclusive, idxmax = first maximum)',
               'scipy.interpolate.interp1d contract (pgv.stubs.Interp1dStub): uninterpreted interpolant for unit agreement; '
               'kind=linear semantics for the knot/line/refusal clauses',
               'isotherm models are uninterpreted functions of their argument (ModelStub)',
               'binary64 treated as real arithmetic')
    rep.trust('CPython 3.12', 'z3 5.1.0', 'pgv.sx', 'pgv.lift')
    jobs = []
    wc = pressure_cfgs(tier) + loading_cfgs(tier)
    ac = at_cfgs(tier)
    sc = selection_cfgs(tier)
    for blk in par.chunks(wc, 48):
        jobs.append(('whole', blk))
    for blk in par.chunks(ac, 64):
        jobs.append(('at', blk))
    for blk in par.chunks(sc, 16):
        jobs.append(('sel', blk))
    jobs += [('interp', None), ('misc', None)]
    nmax = 5 if tier == 'quick' else 6
    for n in range(1, nmax + 1):
        for idx in INDEXINGS:
            jobs.append(('split', [(n, idx)]))
    obs, crashes = par.pmap(_dispatch, jobs)
    rep.extend(obs)
    if crashes:
        rep.crash = crashes[0]
    from pgv.replayers import c03 as R03
    for res in R03.native_selection_cases():
        rep.add_bounded(f"{P}/bounded.{res['name']}", res['ok'], res['detail'], replay={'kind': 'c03.native_selection', 'name': res['name']})
    for res in R03.model_limit_cases():
        rep.add_bounded(f"{P}/bounded.{res['name']}", res['ok'], res['detail'], replay={'kind': 'c03.model_limits', 'name': res['name']})
    for res in R03.query_form_cases():
        rep.add_bounded(f"{P}/bounded.{res['name']}", res['ok'], res['detail'], replay={'kind': 'c03.query_form', 'name': res['name']})
    for res in R03.stored_format_cases():
        rep.add_bounded(f"{P}/bounded.{res['name']}", res['ok'], res['detail'], replay={'kind': 'c03.stored_format', 'name': res['name']})
    for res in R03.interpolation_cases():
        rep.add_bounded(f"{P}/bounded.{res['name']}", res['ok'], res['detail'], replay={'kind': 'c03.interpolation', 'name': res['name']})
    rep.shape_bounded = {'N': nmax, 'what': f'split_ads_data for n <= {nmax} symbolic pressures x 5 row labelings; '
                                            'selection for 3-4 rows; accessors on 2 symbolic rows',
                         'obligations': sum(1 for o in obs if '/math_utilities.split_ads_data/' in o['name'] or 'selection.' in o['name'])}
    rep.notes.append(f"{len(wc)} whole-branch accessor calls, {len(ac)} point-evaluation calls, {len(sc)} selection calls")
