"""C12 -- model fitting is self-consistent.

Contract level (discharged, SX with scipy.optimize.least_squares as a contract stub:
success => x within the bounds and fun == residual(x)):
  fit:    bounds handed over in parameter order and equal to the bounds in force, x0 in parameter order, data passed
          through; the assigned parameters are the optimiser's x; the reported rmse is sqrt(sum r_i^2 / n) / range with r
          the residuals of the *assigned* parameters, range as documented; failure (no success, ValueError) raises
          CalculationError;
  initial_guess_bounds: the guess is clamped into the bounds;
  guess:  the isotherm returned has the smallest rmse among the attempts that did not raise; none => CalculationError.
Bounded: generator recovery, refit stability and unit covariance with the real optimiser.
"""
from __future__ import annotations

import numpy
import z3

from pgv import lift, npproxy, par, stubs, sx
from pgv.checks import models_common as MC
from pgv.util import collect, static_ob

P = 'C12'


class LSQ:
    """least_squares contract stub"""

    def __init__(self, eng, mode):
        self.eng = eng
        self.mode = mode  # 'ok' | 'fail' | 'ValueError'
        self.calls = []

    def least_squares(self, fun=None, x0=None, bounds=None, args=(), **kw):
        eng = self.eng
        rec = {'fun': fun, 'x0': x0, 'bounds': bounds, 'args': args, 'kw': kw}
        self.calls.append(rec)
        if self.mode == 'ValueError':
            raise ValueError("x0 is infeasible")
        n = len(x0)
        x = numpy.empty(n, dtype=object)
        for i in range(n):
            x[i] = eng.real(f'xopt{i}')
            lo, hi = bounds[0][i], bounds[1][i]
            if isinstance(lo, sx.SymReal) or (isinstance(lo, (int, float)) and lo != -numpy.inf):
                eng.assume(x[i] >= lo)
            if isinstance(hi, sx.SymReal) or (isinstance(hi, (int, float)) and hi != numpy.inf):
                eng.assume(x[i] <= hi)
        res = type('OptimizeResult', (), {})()
        res.x = x
        res.success = self.mode == 'ok'
        res.message = 'stub'
        if self.mode == 'ok':
            # contract: fun == residual(x).  The residual vector is handed back as opaque values r_i; their definition
            # (the closure evaluated at x) is recorded so that "r_i == residual_i" is a separate, syntactic obligation
            rec['fun_def'] = fun(x, *args)
            res.fun = numpy.array([eng.real(f'r{i}') for i in range(len(rec['fun_def']))], dtype=object)
        else:
            res.fun = None
        rec['x'] = x
        rec['res'] = res
        return res


def fit_block(args):
    name, mode = args[:2]
    order = args[2] if len(args) > 2 else 'model'
    st = MC.use_mode('sx')
    E = st['E']
    import pygaps.modelling.base_model as BM
    if '__lifted__' not in BM.__dict__:
        for meth in ('fit', 'fit_leastsq', 'initial_guess_bounds'):
            lift.lift_method(BM.IsothermBaseModel, meth)
        BM.numpy = npproxy.NumpyProxy()
        BM.logger.disabled = True
        BM.__lifted__ = True
    base = f"{P}/base_model.IsothermBaseModel.fit"
    cfg = f"model={name}|optimiser={mode}" + ('' if order == 'model' else f"|bounds_given_in={order}_order")
    replay = {'kind': 'c12.fit', 'model': name, 'order': order}
    eng = sx.Engine(max_paths=64, div0='assume')

    def run():
        m = MC.sx_model(eng, name)
        cls = type(m)
        pnames = list(m.params)
        # the bounds in force are a dictionary by parameter name: its key order is the caller's business
        m.param_bounds = {p: (eng.real(f'lo_{p}'), eng.real(f'hi_{p}')) for p in (pnames if order == 'model' else pnames[::-1])}
        for p in pnames:
            eng.assume(m.param_bounds[p][0] < m.param_bounds[p][1])
        m.pressure_range = (eng.real('pr0', positive=True), eng.real('pr1', positive=True))
        m.loading_range = (eng.real('lr0', positive=True), eng.real('lr1', positive=True))
        eng.assume(m.pressure_range[0] < m.pressure_range[1])
        eng.assume(m.loading_range[0] < m.loading_range[1])
        n = 3
        ps = numpy.array([eng.real(f'p{i}', positive=True) for i in range(n)], dtype=object)
        ls = numpy.array([eng.real(f'l{i}', positive=True) for i in range(n)], dtype=object)
        if name in ('BET',):
            for p in ps:
                eng.assume(p < 1)
        guess = {p: eng.real(f'g_{p}') for p in pnames}
        lsq = LSQ(eng, mode)
        BM.optimize = lsq
        try:
            m.fit(ps, ls, guess)
            out = 'return'
        except E.CalculationError:
            out = 'CalculationError'
        except sx.Unsupported:
            raise
        except Exception as exc:
            out = f"other:{type(exc).__name__}: {str(exc)[:80]}"
        x = {'replay': replay, 'observed': out}
        eng.prove(f"{base}/fit.one_optimiser_call/{cfg}", len(lsq.calls) == 1, extra=x)
        if not lsq.calls:
            return
        c = lsq.calls[0]
        eng.prove(f"{base}/fit.bounds_in_parameter_order_and_in_force/{cfg}", len(c['bounds']) == 2 and all(
            c['bounds'][0][i] is m.param_bounds[p][0] and c['bounds'][1][i] is m.param_bounds[p][1] for i, p in enumerate(pnames)), extra=x)
        eng.prove(f"{base}/fit.initial_guess_in_parameter_order/{cfg}", len(c['x0']) == len(pnames) and all(c['x0'][i] is guess[p] for i, p in enumerate(pnames)), extra=x)
        eng.prove(f"{base}/fit.data_passed_through/{cfg}", len(c['args']) == 2 and c['args'][0] is ps and c['args'][1] is ls, extra=x)
        if mode != 'ok':
            eng.prove(f"{base}/fit.failure_raises_CalculationError/{cfg}", out == 'CalculationError', extra=x)
            return
        eng.prove(f"{base}/fit.returns_on_success/{cfg}", out == 'return', extra=x)
        if out != 'return':
            return
        eng.prove(f"{base}/fit.assigned_parameters_are_optimiser_x/{cfg}", all(m.params[p] is c['x'][i] for i, p in enumerate(pnames)), extra=x)
        eng.prove(f"{base}/fit.parameters_within_bounds/{cfg}", sx.And(*[sx.And(m.params[p] >= m.param_bounds[p][0], m.params[p] <= m.param_bounds[p][1]) for p in pnames]), extra=x)
        # rmse^2 * n * range^2 == sum of squared residuals of the assigned parameters
        if cls.calculates == 'loading':
            pred = m.loading(ps)
            resid = [pred[i] - ls[i] for i in range(n)]
            rng = m.loading_range[1] - m.loading_range[0]
        else:
            pred = m.pressure(ls)
            resid = [pred[i] - ps[i] for i in range(n)]
            rng = m.pressure_range[1] - m.pressure_range[0]
        if any(isinstance(r, sx.NaNValue) for r in resid):
            return
        fd = c['fun_def']
        eng.prove(f"{base}/fit.objective_is_model_minus_data_at_assigned_parameters/{cfg}",
                  len(fd) == n and sx.And(*[sx.eq(fd[i], resid[i]) for i in range(n)]), extra=x)
        r = c['res'].fun
        ssq = r[0] * r[0] + r[1] * r[1] + r[2] * r[2]
        eng.prove(f"{base}/fit.rmse_is_root_mean_square_residual_over_range/{cfg}", sx.And(m.rmse >= 0, sx.eq(m.rmse * m.rmse * n * rng * rng, ssq)), extra=x)
    return collect(eng, run, base, cfg)


def clamp_block(_b):
    st = MC.use_mode('sx')
    import pygaps.modelling.base_model as BM
    base = f"{P}/base_model.IsothermBaseModel.initial_guess_bounds"
    eng = sx.Engine(max_paths=256)

    def run():
        m = MC.sx_model(eng, 'Langmuir')
        m.param_bounds = {p: (eng.real(f'lo_{p}'), eng.real(f'hi_{p}')) for p in m.params}
        for p in m.params:
            eng.assume(m.param_bounds[p][0] <= m.param_bounds[p][1])
        g = {p: eng.real(f'g_{p}') for p in m.params}
        g0 = dict(g)
        out = m.initial_guess_bounds(g)
        for p in m.params:
            lo, hi = m.param_bounds[p]
            eng.prove(f"{base}/guess.clamped_into_bounds/{p}", sx.And(out[p] >= lo, out[p] <= hi,
                      sx.Implies(sx.And(g0[p] >= lo, g0[p] <= hi), sx.eq(out[p], g0[p]))), extra={'replay': {'kind': 'c12.fit', 'model': 'Langmuir'}})
    return collect(eng, run, base, 'clamp')


def guess_block(nmodels):
    import pygaps
    import pygaps.core.modelisotherm as MI
    from pygaps.utilities import exceptions as E
    pygaps.logger.disabled = True
    base = f"{P}/modelisotherm.ModelIsotherm.guess"
    cfg = f"candidates={nmodels}"
    eng = sx.Engine(max_paths=4096)
    names = ['Henry', 'Langmuir', 'DSLangmuir', 'BET'][:nmodels]

    def run():
        attempts = []

        class Sub(MI.ModelIsotherm):
            def __init__(self, **kw):
                k = len(attempts)
                mname = kw.get('model')
                if eng.branch(z3.Bool(f"fit_fails_{k}"), tag=f"fails:{mname}"):
                    attempts.append((mname, None))
                    raise E.CalculationError(f"stub: {mname} did not converge")
                self.model = type('M', (), {'rmse': eng.real(f'rmse_{k}', nonneg=True), 'name': mname})()
                attempts.append((mname, self))
        try:
            best = Sub.guess(pressure=[1, 2, 3], loading=[1, 2, 3], models=names, material='m', adsorbate='n', temperature=1)
            out = 'return'
        except E.CalculationError:
            out = 'CalculationError'
        x = {'replay': {'kind': 'c12.guess'}, 'observed': out}
        ok = [a for (_n, a) in attempts if a is not None]
        eng.prove(f"{base}/guess.every_candidate_attempted_once_in_order/{cfg}", [n for (n, _a) in attempts] == names, extra=x)
        if not ok:
            eng.prove(f"{base}/guess.no_converged_candidate_raises_CalculationError/{cfg}", out == 'CalculationError', extra=x)
            return
        eng.prove(f"{base}/guess.returns_a_converged_candidate/{cfg}", out == 'return' and any(best is a for a in ok), extra=x)
        if out == 'return':
            eng.prove(f"{base}/guess.returned_candidate_has_smallest_rmse/{cfg}", sx.And(*[best.model.rmse <= a.model.rmse for a in ok]), extra=x)
    return collect(eng, run, base, cfg)


def ctor_block(_b):
    """ModelIsotherm.__init__ (fitting route): for every order of the data points the model is created with
    pressure_range = (min, max) of the pressures and loading_range = (min, max) of the loadings of the branch that is
    fitted, and exactly those points are handed to fit -- exhaustive over the 24 orders of four distinct points, list and
    table input, both branches (the recorded call of the real constructor with a recording model factory)."""
    import itertools
    import pandas
    import pygaps
    import pygaps.core.modelisotherm as MI
    pygaps.logger.disabled = True
    obs = []
    base = f"{P}/modelisotherm.ModelIsotherm.__init__"
    real = MI.get_isotherm_model
    rec = {}

    class FakeModel:
        name = 'Langmuir'
        param_names = ('K', 'n_m')
        rmse = 0.0

        def __init__(self, **kw):
            rec['factory'] = kw
            self.params = {'K': 1.0, 'n_m': 1.0}
            self.pressure_range, self.loading_range = kw.get('pressure_range'), kw.get('loading_range')

        def __init_parameters__(self, other):
            pass

        def initial_guess(self, p, l):
            rec['guess_args'] = (list(p), list(l))
            return {'K': 1.0, 'n_m': 1.0}

        def fit(self, p, l, guess, *a):
            rec['fit'] = (list(p), list(l), guess)

    MI.get_isotherm_model = lambda model, **kw: FakeModel(**kw)
    meta = dict(material='pgv_c12', adsorbate='nitrogen', temperature=77.0, pressure_mode='relative', pressure_unit=None, loading_basis='molar',
                loading_unit='mmol', material_basis='mass', material_unit='g', temperature_unit='K')
    try:
        pts = [(0.1, 1.0), (0.2, 2.5), (0.4, 3.0), (0.7, 4.5)]
        bad_lists, bad_tables = [], []
        for perm in itertools.permutations(pts):
            p, l = [a for a, _ in perm], [b for _, b in perm]
            rec.clear()
            MI.ModelIsotherm(pressure=p, loading=l, model='Langmuir', **meta)
            f = rec.get('factory', {})
            ok = tuple(f.get('pressure_range', ())) == (0.1, 0.7) and tuple(f.get('loading_range', ())) == (1.0, 4.5) and rec.get('fit', (None, None))[:2] == (p, l)
            if not ok:
                bad_lists.append({'pressure': p, 'loading': l, 'ranges': (f.get('pressure_range'), f.get('loading_range'))})
        obs.append(static_ob(f"{base}/fit.ranges_are_min_max_of_the_fitted_points_and_all_points_are_fitted/arrays|24_orders", not bad_lists, str(bad_lists[:2])[:300],
                             backend='trace', replay={'kind': 'c12.ranges'}))
        # table route with a desorption branch (stored high-to-low): only that branch, ranges (min, max)
        for branch in ('ads', 'des'):
            df = pandas.DataFrame({'pressure': [0.1, 0.2, 0.4, 0.7, 0.5, 0.3, 0.15], 'loading': [1.0, 2.5, 3.0, 4.5, 4.2, 3.6, 2.9], 'branch': [0, 0, 0, 0, 1, 1, 1]})
            rec.clear()
            MI.ModelIsotherm(isotherm_data=df, pressure_key='pressure', loading_key='loading', model='Langmuir', branch=branch, **meta)
            f = rec.get('factory', {})
            want_p = [0.1, 0.2, 0.4, 0.7] if branch == 'ads' else [0.5, 0.3, 0.15]
            want_l = [1.0, 2.5, 3.0, 4.5] if branch == 'ads' else [4.2, 3.6, 2.9]
            ok = tuple(f.get('pressure_range', ())) == (min(want_p), max(want_p)) and tuple(f.get('loading_range', ())) == (min(want_l), max(want_l)) \
                and sorted(rec.get('fit', ([], []))[0]) == sorted(want_p) and sorted(rec.get('fit', ([], []))[1]) == sorted(want_l)
            obs.append(static_ob(f"{base}/fit.ranges_are_min_max_of_the_fitted_points_and_all_points_are_fitted/table|branch={branch}", ok,
                                 str({'ranges': (f.get('pressure_range'), f.get('loading_range')), 'fitted': rec.get('fit', (None, None))[:2]})[:300], backend='trace',
                                 replay={'kind': 'c12.ranges'}))
        # from_pointisotherm / model_iso: exactly the points the isotherm marks as the requested branch are fitted, whatever a
        # pressure-based guess would say (marks given by the user: an adsorption point measured just below the previous
        # pressure; a desorption-only isotherm stored with increasing pressure)
        pA = [0.1, 0.2, 0.4, 0.7, 0.65, 0.5, 0.3]
        lA = [1.0, 2.5, 3.0, 4.5, 4.6, 4.4, 3.9]
        for tag, marks, branch in (('ads_point_after_the_maximum', [0, 0, 0, 0, 0, 1, 1], 'ads'), ('ads_point_after_the_maximum', [0, 0, 0, 0, 0, 1, 1], 'des'),
                                   ('des_only_increasing_pressure', [1] * 7, 'des')):
            pp, ll = (pA, lA) if tag.startswith('ads') else (sorted(pA), sorted(lA))
            iso = pygaps.PointIsotherm(pressure=pp, loading=ll, branch=marks, **meta)
            want_p = [a for a, m_ in zip(pp, marks) if m_ == (0 if branch == 'ads' else 1)]
            want_l = [a for a, m_ in zip(ll, marks) if m_ == (0 if branch == 'ads' else 1)]
            rec.clear()
            try:
                MI.ModelIsotherm.from_pointisotherm(iso, model='Langmuir', branch=branch)
                err = ''
            except Exception as exc:
                err = f"{type(exc).__name__}: {exc}"[:120]
            got = rec.get('fit', ([], []))
            ok = not err and sorted(got[0]) == sorted(want_p) and sorted(got[1]) == sorted(want_l)
            obs.append(static_ob(f"{base}/fit.from_pointisotherm_fits_the_points_marked_as_the_branch/{tag}|branch={branch}", ok,
                                 err or str({'fitted': got[:2], 'marked': (want_p, want_l)})[:300], backend='trace', replay={'kind': 'c12.branch_marks'}))
    finally:
        MI.get_isotherm_model = real
    return obs


def bounds_block(_b):
    """the bounds in force: a model built without bounds has the class defaults, one built with user bounds has those, and neither
    building nor altering one instance changes what the next instance (or the class) holds -- every model class, evaluated"""
    import copy
    import pygaps
    import pygaps.modelling as pgm
    pygaps.logger.disabled = True
    obs = []
    for name in sorted(pgm._MODELS if hasattr(pgm, '_MODELS') else FIT_MODELS):
        try:
            cls = type(pgm.get_isotherm_model(name))
        except Exception:
            continue
        base = f"{P}/base_model.IsothermBaseModel.__init__"
        x = {'kind': 'c12.bounds_history', 'model': name}
        defaults0 = copy.deepcopy(dict(zip(cls.param_names, cls.param_default_bounds)))
        a = pgm.get_isotherm_model(name)
        obs.append(static_ob(f"{base}/bounds.defaults_in_force_without_user_bounds/{name}", dict(a.param_bounds) == defaults0, str(a.param_bounds), backend='eval', replay=x))
        user = {p_: (1e-3 * (i + 1), 7.0 + i) for i, p_ in enumerate(cls.param_names)}
        b = pgm.get_isotherm_model(name, param_bounds=dict(user))
        obs.append(static_ob(f"{base}/bounds.user_bounds_in_force/{name}", all(tuple(b.param_bounds[p_]) == user[p_] for p_ in cls.param_names), str(b.param_bounds), backend='eval', replay=x))
        # limits that are exactly zero, integers, or given as lists are limits like any other
        for tag, mk_ in (('zero_lower', lambda i: (0, 7.0 + i)), ('zero_upper', lambda i: (-3.0 - i, 0.0)), ('integers', lambda i: (1, 9 + i)), ('lists', lambda i: [0.0, 2.5 + i])):
            ub = {p_: mk_(i) for i, p_ in enumerate(cls.param_names)}
            try:
                bz = pgm.get_isotherm_model(name, param_bounds=dict(ub))
                ok = all(len(bz.param_bounds[p_]) == 2 and bz.param_bounds[p_][0] == ub[p_][0] and bz.param_bounds[p_][1] == ub[p_][1] for p_ in cls.param_names)
                det = str(bz.param_bounds)
            except Exception as exc:
                ok, det = False, f"{type(exc).__name__}: {exc}"[:120]
            obs.append(static_ob(f"{base}/bounds.user_bounds_in_force/{name}|{tag}", ok, det, backend='eval', replay=dict(x, form=tag)))
        # bounds given for the first parameter only: they hold for it, the defaults for the others
        first_only = {cls.param_names[0]: (0.125, 0.75)}
        try:
            bp = pgm.get_isotherm_model(name, param_bounds=dict(first_only))
            okp = tuple(bp.param_bounds[cls.param_names[0]]) == (0.125, 0.75) and all(tuple(bp.param_bounds[p_]) == tuple(defaults0[p_]) for p_ in cls.param_names[1:])
            detp = str(bp.param_bounds)
        except Exception as exc:
            okp, detp = False, f"{type(exc).__name__}: {exc}"[:120]
        obs.append(static_ob(f"{base}/bounds.user_bounds_in_force/{name}|first_parameter_only", okp, detp, backend='eval', replay=dict(x, form='partial')))
        c = pgm.get_isotherm_model(name)
        obs.append(static_ob(f"{base}/bounds.defaults_in_force_after_a_user_bounded_instance/{name}", dict(c.param_bounds) == defaults0, str(c.param_bounds), backend='eval', replay=x))
        first = cls.param_names[0]
        c.param_bounds[first] = (0.25, 0.5)
        d = pgm.get_isotherm_model(name)
        ok = dict(d.param_bounds) == defaults0 and dict(zip(cls.param_names, cls.param_default_bounds)) == defaults0 and d.param_bounds is not c.param_bounds
        obs.append(static_ob(f"{base}/bounds.instances_do_not_share_their_bounds/{name}", ok, str(d.param_bounds), backend='eval', replay=x))
    return obs


def _dispatch(job):
    kind, arg = job
    return {'fit': fit_block, 'clamp': clamp_block, 'guess': guess_block, 'ctor': ctor_block, 'bounds': bounds_block}[kind](arg)


FIT_MODELS = ['Henry', 'Langmuir', 'DSLangmuir', 'BET', 'Quadratic', 'TemkinApprox', 'FHVST']


def run(rep):
    rep.level = 'other'
    rep.fn('pygaps.modelling.base_model.IsothermBaseModel.fit / fit_leastsq / initial_guess_bounds', 'pygaps.core.modelisotherm.ModelIsotherm.guess',
           'pygaps.core.pointisotherm.PointIsotherm.from_modelisotherm (bounded)', 'pygaps.modelling.virial.Virial.fit (bounded)')
    rep.assume('scipy.optimize.least_squares contract: success => x within the bounds and fun == residual(x); nothing otherwise',
               'model equations as executed by SX (C10); sqrt as s >= 0 with s^2 = argument; real arithmetic',
               'convergence, recovery of generating parameters, refit stability and unit covariance are numerical facts about the optimiser: bounded only')
    rep.trust('CPython 3.12', 'z3 5.1.0', 'pgv.sx', 'pgv.lift', 'pgv.npproxy')
    jobs = [('fit', (n, 'ok')) for n in FIT_MODELS] + [('fit', (n, 'ok', 'reversed')) for n in FIT_MODELS if n != 'Henry'] + [('fit', (n, mode)) for n in ('Langmuir', 'FHVST') for mode in ('fail', 'ValueError')] + \
        [('clamp', None), ('ctor', None), ('bounds', None)] + [('guess', k) for k in (1, 2, 3, 4)]
    obs, crashes = par.pmap(_dispatch, jobs)
    rep.extend(obs)
    if crashes:
        rep.crash = crashes[0]
    from pgv.replayers import c12 as R
    n = 0
    for res in R.recovery_cases(rep.seed, thorough=rep.tier == 'thorough'):
        rep.add_bounded(f"{P}/bounded.{res['name']}", res['ok'], res['detail'], replay={'kind': 'c12.case', 'name': res['name'], 'seed': rep.seed})
        n += 1
    for res in R.verbose_cases():
        rep.add_bounded(f"{P}/bounded.{res['name']}", res['ok'], res['detail'], replay={'kind': 'c12.verbose', 'name': res['name']})
        n += 1
    rep.extra_cov['explanation'] = (f"rmse definition, bounds/guess call site, parameter assignment, failure handling, clamping and the best-of-list rule are "
                                    f"discharged obligations; {n} bounded cases (generator recovery, error identity on noisy data, refit stability, unit "
                                    f"covariance, branch selection, from_modelisotherm) use the real optimiser and are not counted as proved")
