"""SX -- symbolic execution of real Python code objects on z3 values.

The real pyGAPS functions are *run by CPython* on operator-overloaded values
(`SymReal`, `SymBool`).  Whenever the code asks for the truth value of a
symbolic condition the engine decides which way to go (feasibility is asked
from z3 under the current path condition), remembers the alternative, and
re-executes the function from the start for each remaining alternative
(deterministic DFS over decision prefixes).  Each feasible path ends in the
evaluation of sidecar contract clauses through `prove`, which discharges
`assumptions /\\ path-condition => clause` as an unsat query.

Verdicts: proved / refuted(model) / unknown(reason).  `unknown` is never turned
into a violation by callers.
"""
from __future__ import annotations

import itertools
import subprocess
import time
from fractions import Fraction

import z3

# --------------------------------------------------------------------------
# exceptions the engine itself raises inside user code
# --------------------------------------------------------------------------


class Unsupported(Exception):
    """The code did something the symbolic values cannot express (=> undecided).

    User code may swallow exceptions (`except BaseException`), so the fact is also
    recorded as a flag on the current path."""

    def __init__(self, *a):
        super().__init__(*a)
        if _CUR is not None:
            _CUR.flags.add('unsupported')
            _CUR.unsupported_msg = str(a[0]) if a else ''


class PathLimit(Exception):
    pass


class SymZeroDivision(ZeroDivisionError):
    """Division by a symbolic value on the path where that value is zero."""


# --------------------------------------------------------------------------
# exact conversion of concrete numbers
# --------------------------------------------------------------------------


def to_fraction(x):
    """Python number -> exact rational: floats are read as the decimal they spell."""
    if isinstance(x, bool):
        return Fraction(int(x))
    if isinstance(x, int):
        return Fraction(x)
    if isinstance(x, Fraction):
        return x
    if isinstance(x, float):
        if x != x or x in (float('inf'), float('-inf')):
            raise Unsupported(f"non-finite float {x!r} meets a symbolic value")
        return Fraction(repr(x))
    try:
        import numpy
        if isinstance(x, numpy.generic):
            return to_fraction(x.item())
    except ImportError:  # pragma: no cover
        pass
    raise Unsupported(f"cannot lift {type(x).__name__} to a rational")


def _rv(x):
    f = to_fraction(x)
    return z3.RealVal(f"{f.numerator}/{f.denominator}")


LN = z3.Function('pgv_ln', z3.RealSort(), z3.RealSort())
EXP = z3.Function('pgv_exp', z3.RealSort(), z3.RealSort())

_CUR = None  # current engine
_INF = float('inf')


def cur() -> "Engine":
    if _CUR is None:
        raise RuntimeError("no SX engine active")
    return _CUR


# --------------------------------------------------------------------------
# values
# --------------------------------------------------------------------------


def _is_arr(o):
    return type(o).__module__ == 'numpy' and type(o).__name__ == 'ndarray' or \
        type(o).__module__.startswith('pandas')


class NaNValue:
    """Explicit NaN produced by sqrt/log of a negative, or the undefined result of x/0 in 'nan' mode
    (kind 'div0': c/0 with c != 0, i.e. +-inf of unknown sign; 0/0 is a plain NaN)."""
    is_nan = True
    kind = 'nan'

    def _n(self, *_a, **_k):
        return self

    __add__ = __radd__ = __sub__ = __rsub__ = __mul__ = __rmul__ = _n
    __truediv__ = __rtruediv__ = __pow__ = __rpow__ = __neg__ = __abs__ = _n
    log = exp = sqrt = _n

    def _f(self, *_a):
        return False

    __lt__ = __le__ = __gt__ = __ge__ = __eq__ = _f

    def __ne__(self, o):
        return True

    def __hash__(self):
        return 7

    def __repr__(self):
        return "NaN"

    def __format__(self, spec):
        return "nan"

    def __float__(self):
        return float('nan')


NAN = NaNValue()
DIV0 = NaNValue()
DIV0.kind = 'div0'


class SymBool:
    __slots__ = ('e',)

    def __init__(self, e):
        self.e = e

    def __bool__(self):
        return cur().branch(self.e)

    def __and__(self, o):
        return SymBool(z3.And(self.e, _b(o)))

    __rand__ = __and__

    def __or__(self, o):
        return SymBool(z3.Or(self.e, _b(o)))

    __ror__ = __or__

    def __invert__(self):
        return SymBool(z3.Not(self.e))

    def __xor__(self, o):
        return SymBool(z3.Xor(self.e, _b(o)))

    __rxor__ = __xor__

    def __eq__(self, o):
        return SymBool(self.e == _b(o))

    def __ne__(self, o):
        return SymBool(self.e != _b(o))

    def __hash__(self):
        return hash(self.e)

    def __repr__(self):
        return f"SymBool({self.e})"

    # arithmetic on booleans (numpy.sum(mask)) -> integer reals
    def _r(self):
        return SymReal(z3.If(self.e, z3.RealVal(1), z3.RealVal(0)))

    def __add__(self, o):
        return self._r() + (o._r() if isinstance(o, SymBool) else o)

    __radd__ = __add__

    def __mul__(self, o):
        return self._r() * (o._r() if isinstance(o, SymBool) else o)

    __rmul__ = __mul__


def _b(o):
    if isinstance(o, SymBool):
        return o.e
    if isinstance(o, (bool,)):
        return z3.BoolVal(o)
    try:
        import numpy
        if isinstance(o, numpy.bool_):
            return z3.BoolVal(bool(o))
    except ImportError:  # pragma: no cover
        pass
    if z3.is_bool(o):
        return o
    raise Unsupported(f"boolean op with {type(o).__name__}")


class SymReal:
    """A real-valued term.  All arithmetic is exact real arithmetic."""
    __slots__ = ('e',)

    def __init__(self, e):
        self.e = e if z3.is_expr(e) else _rv(e)

    # -- lifting
    @staticmethod
    def lift(o):
        if isinstance(o, SymReal):
            return o.e
        if isinstance(o, SymBool):
            return o._r().e
        if isinstance(o, NaNValue):
            raise _NaNOperand()
        return _rv(o)

    def _bin(self, o, f):
        if _is_arr(o):
            return NotImplemented
        try:
            return SymReal(z3.simplify(f(self.e, SymReal.lift(o))))
        except _NaNOperand:
            return NAN

    def _rbin(self, o, f):
        if _is_arr(o):
            return NotImplemented
        try:
            return SymReal(z3.simplify(f(SymReal.lift(o), self.e)))
        except _NaNOperand:
            return NAN

    def __add__(self, o):
        return self._bin(o, lambda a, b: a + b)

    def __radd__(self, o):
        return self._rbin(o, lambda a, b: a + b)

    def __sub__(self, o):
        return self._bin(o, lambda a, b: a - b)

    def __rsub__(self, o):
        return self._rbin(o, lambda a, b: a - b)

    def __mul__(self, o):
        return self._bin(o, lambda a, b: a * b)

    def __rmul__(self, o):
        return self._rbin(o, lambda a, b: a * b)

    def __neg__(self):
        return SymReal(-self.e)

    def __pos__(self):
        return self

    def __abs__(self):
        return SymReal(z3.If(self.e >= 0, self.e, -self.e))

    def __truediv__(self, o):
        if _is_arr(o):
            return NotImplemented
        if isinstance(o, NaNValue):
            return NAN
        return _div(self.e, SymReal.lift(o))

    def __rtruediv__(self, o):
        if _is_arr(o):
            return NotImplemented
        if isinstance(o, NaNValue):
            return NAN
        return _div(SymReal.lift(o), self.e)

    def __pow__(self, o):
        if _is_arr(o):
            return NotImplemented
        return _pow(self, o)

    def __rpow__(self, o):
        if _is_arr(o):
            return NotImplemented
        return _pow(SymReal(SymReal.lift(o)), self)

    # -- comparisons
    def _cmp(self, o, f):
        if _is_arr(o):
            return NotImplemented
        if isinstance(o, NaNValue):
            return False
        if o is None or isinstance(o, str):
            return NotImplemented
        if isinstance(o, float) and o in (_INF, -_INF):
            # every real is strictly between -inf and +inf
            return bool(f(0.0, o))
        return SymBool(z3.simplify(f(self.e, SymReal.lift(o))))

    def __lt__(self, o):
        return self._cmp(o, lambda a, b: a < b)

    def __le__(self, o):
        return self._cmp(o, lambda a, b: a <= b)

    def __gt__(self, o):
        return self._cmp(o, lambda a, b: a > b)

    def __ge__(self, o):
        return self._cmp(o, lambda a, b: a >= b)

    def __eq__(self, o):
        if o is None or isinstance(o, str):
            return False
        r = self._cmp(o, lambda a, b: a == b)
        return r

    def __ne__(self, o):
        if o is None or isinstance(o, str):
            return True
        return self._cmp(o, lambda a, b: a != b)

    def __hash__(self):
        return hash(self.e)

    def __bool__(self):
        return cur().branch(z3.simplify(self.e != 0))

    # -- conversions that would lose the symbol
    def __float__(self):
        v = z3.simplify(self.e)
        if z3.is_rational_value(v):
            return float(Fraction(v.numerator_as_long(), v.denominator_as_long()))
        raise Unsupported("float() of a symbolic value")

    def __int__(self):
        v = z3.simplify(self.e)
        if z3.is_rational_value(v) and v.denominator_as_long() == 1:
            return v.numerator_as_long()
        raise Unsupported("int() of a symbolic value")

    __index__ = __int__

    def __round__(self, n=None):
        # round(x, n) is a decimal number with n places within half a unit of the last place of x (ties either way)
        eng = cur()
        k = 0 if n is None else int(n)
        scale = z3.RealVal(10) ** k if k >= 0 else 1 / (z3.RealVal(10) ** (-k))
        scale = z3.simplify(scale)
        r = eng.real(f"round{next(eng._fresh)}")
        half = z3.simplify(z3.RealVal(1) / (2 * scale))
        eng.assume(z3.And(r.e - self.e <= half, self.e - r.e <= half, z3.IsInt(r.e * scale)), silent=True)
        return r

    def round(self, n=None):
        return self.__round__(n)

    def __repr__(self):
        return f"SymReal({self.e})"

    def __format__(self, spec):
        return f"<{self.e}>"

    def __str__(self):
        return f"<{self.e}>"

    # numpy calls these on the elements of object arrays
    def log(self):
        return sym_log(self)

    def exp(self):
        return sym_exp(self)

    def sqrt(self):
        return sym_sqrt(self)

    def log10(self):
        return sym_log(self) / sym_log(SymReal(10))

    def conjugate(self):
        return self

    def item(self):
        return self

    @property
    def real(self):
        return self

    # helpers for contract code
    def is_concrete(self):
        return z3.is_rational_value(z3.simplify(self.e))


class _NaNOperand(Exception):
    pass


def _div(num, den):
    eng = cur()
    den_s = z3.simplify(den)
    if z3.is_rational_value(den_s):
        if den_s.numerator_as_long() == 0:
            if eng.div0 == 'nan':
                eng.flags.add('div0')
                return NAN if eng.branch(z3.simplify(num == 0), tag='div0.numerator==0') else DIV0
            return eng.on_div0()
        return SymReal(z3.simplify(num / den_s))
    if eng.div0 == 'assume' and not eng.is_pos(den_s):
        # restrict to the domain where the expression is defined (stated as an assumption by the caller)
        eng.assume(den_s != 0, silent=True)
        return SymReal(z3.simplify(num / den_s))
    if not eng.is_pos(den_s) and eng.branch(den_s == 0, tag='div0'):
        if eng.div0 == 'nan':
            # IEEE / numpy semantics: 0/0 = nan, c/0 = +-inf
            eng.flags.add('div0')
            if eng.branch(z3.simplify(num == 0), tag='div0.numerator==0'):
                return NAN
            return DIV0
        return eng.on_div0()
    return SymReal(z3.simplify(num / den_s))


def _pow(base: SymReal, o):
    # integer exponents are polynomial / rational; everything else goes through exp/ln
    if isinstance(o, SymReal):
        s = z3.simplify(o.e)
        if z3.is_rational_value(s):
            o = Fraction(s.numerator_as_long(), s.denominator_as_long())
        else:
            return _gen_pow(base, o)
    if isinstance(o, NaNValue):
        return NAN
    f = to_fraction(o)
    if f.denominator == 1:
        n = f.numerator
        if n == 0:
            return SymReal(1)
        if n > 0:
            if n > 64:
                raise Unsupported("power too large")
            r = base.e
            for _ in range(n - 1):
                r = r * base.e
            return SymReal(z3.simplify(r))
        inv = _div(z3.RealVal(1), base.e)
        if isinstance(inv, NaNValue):
            return inv
        return _pow(inv, -n)
    if f == Fraction(1, 2):
        return sym_sqrt(base)
    return _gen_pow(base, SymReal(_rv(f)))


def _gen_pow(base: SymReal, expo: SymReal):
    """x ** y for non-integer y == exp(y ln x) on x > 0 (x == 0 -> 0 for y>0; x<0 -> NaN)."""
    eng = cur()
    if eng.is_pos(z3.simplify(base.e)) or eng.branch(z3.simplify(base.e > 0), tag='pow.base>0'):
        return sym_exp(expo * sym_log(base))
    if eng.branch(z3.simplify(base.e == 0), tag='pow.base==0'):
        if eng.branch(z3.simplify(expo.e > 0), tag='pow.exp>0'):
            return SymReal(0)
        return eng.on_div0()
    return NAN


def sym_log(x):
    if isinstance(x, NaNValue):
        return NAN
    if not isinstance(x, SymReal):
        x = SymReal(x)
    eng = cur()
    if eng.is_pos(z3.simplify(x.e)) or eng.branch(z3.simplify(x.e > 0), tag='log.arg>0'):
        t = LN(x.e)
        eng.assume(EXP(t) == x.e, silent=True)
        eng.assume(z3.Implies(x.e == 1, t == 0), silent=True)
        eng.assume(z3.Implies(x.e > 1, t > 0), silent=True)
        eng.assume(z3.Implies(x.e < 1, t < 0), silent=True)
        eng._ln_terms.append((x.e, t))
        return SymReal(t)
    return eng.on_lognonpos()


def sym_exp(x):
    if isinstance(x, NaNValue):
        return NAN
    if not isinstance(x, SymReal):
        x = SymReal(x)
    eng = cur()
    t = EXP(x.e)
    eng.assume(t > 0, silent=True)
    eng.assume(LN(t) == x.e, silent=True)
    eng.assume(z3.Implies(x.e == 0, t == 1), silent=True)
    eng.assume(z3.Implies(x.e < 0, t < 1), silent=True)
    eng.assume(z3.Implies(x.e > 0, t > 1), silent=True)
    return SymReal(t)


def sym_sqrt(x):
    if isinstance(x, NaNValue):
        return NAN
    if not isinstance(x, SymReal):
        x = SymReal(x)
    eng = cur()
    if eng.is_pos(z3.simplify(x.e)) or eng.branch(z3.simplify(x.e >= 0), tag='sqrt.arg>=0'):
        s = eng.fresh('sqrt')
        eng.assume(z3.And(s.e >= 0, s.e * s.e == x.e), silent=True)
        return s
    return NAN


# --------------------------------------------------------------------------
# engine
# --------------------------------------------------------------------------


class Obligation:
    __slots__ = ('name', 'verdict', 'backend', 'time', 'model', 'detail', 'pc', 'extra')

    def __init__(self, name, verdict, backend='z3', time=0.0, model=None, detail='', pc='', extra=None):
        self.name = name
        self.verdict = verdict
        self.backend = backend
        self.time = time
        self.model = model
        self.detail = detail
        self.pc = pc
        self.extra = extra or {}

    def to_dict(self):
        return {k: getattr(self, k) for k in self.__slots__}

    @staticmethod
    def from_dict(d):
        return Obligation(**d)

    def __repr__(self):
        return f"<{self.verdict} {self.name}>"


_ESCALATIONS = [0]


class Engine:
    def __init__(self, timeout_ms=20000, max_paths=20000, div0='raise', lognonpos='nan'):
        self.timeout_ms = timeout_ms
        self.max_paths = max_paths
        self.div0 = div0
        self.lognonpos = lognonpos
        self.solver_time = 0.0
        self.n_queries = 0
        self.assumption_notes = set()
        # per-path state
        self._reset_path([])

    # ---- per path -------------------------------------------------------
    def _reset_path(self, prefix):
        self.prefix = prefix
        self.trace = []  # list of (taken, forced, tag)
        self.pc = []  # z3 constraints (assumptions and decisions)
        self.pc_decisions = []
        self.symbols = {}
        self.obligations = []
        self.flags = set()
        self._fresh = itertools.count()
        self._ln_terms = []
        self.pos_names = set()
        self.pos_terms = set()
        self._last_solver = None

    def _check(self, *extra, timeout_ms=None, seed=None):
        """One non-incremental query: pc /\\ extra.  (A fresh solver lets z3 pick nlsat for QF_NRA; the
        incremental core is weak on nonlinear arithmetic and ignored the timeout in the first version.)"""
        t0 = time.time()
        s = z3.Solver()
        s.set('timeout', timeout_ms or self.timeout_ms)
        if seed is not None:
            s.set('random_seed', seed)
        s.add(*self.pc)
        s.add(*extra)
        r = s.check()
        self._last_solver = s
        self.solver_time += time.time() - t0
        self.n_queries += 1
        return r

    # ---- syntactic sign analysis (saves most feasibility queries) -------------
    def is_pos(self, e, depth=0):
        if depth > 40:
            return False
        if z3.is_rational_value(e):
            return e.numerator_as_long() > 0
        if z3.is_const(e) and e.decl().kind() == z3.Z3_OP_UNINTERPRETED:
            return e.decl().name() in self.pos_names
        if e.get_id() in self.pos_terms:
            return True
        if not z3.is_app(e):
            return False
        k = e.decl().kind()
        ch = e.children()
        if k in (z3.Z3_OP_MUL, z3.Z3_OP_ADD, z3.Z3_OP_DIV):
            return all(self.is_pos(c, depth + 1) for c in ch)
        if k == z3.Z3_OP_POWER:
            return self.is_pos(ch[0], depth + 1)
        if k == z3.Z3_OP_UNINTERPRETED and e.decl().name() == 'pgv_exp':
            return True
        return False

    def note_assumption(self, s):
        self.assumption_notes.add(s)

    # ---- symbols ----------------------------------------------------------
    def real(self, name, positive=False, nonneg=False, lo=None, hi=None) -> SymReal:
        if name in self.symbols:
            return self.symbols[name]
        v = SymReal(z3.Real(name))
        self.symbols[name] = v
        if positive:
            self.pos_names.add(name)
            self.assume(v.e > 0, silent=True)
        if nonneg:
            self.assume(v.e >= 0, silent=True)
        if lo is not None:
            self.assume(v.e >= _rv(lo), silent=True)
        if hi is not None:
            self.assume(v.e <= _rv(hi), silent=True)
        return v

    def mark_pos(self, v):
        """record (and assume) that a term is positive, so that later divisions by it do not fork"""
        e = v.e if isinstance(v, SymReal) else v
        self.pos_terms.add(e.get_id())
        self._keep = getattr(self, '_keep', [])
        self._keep.append(e)  # keep the AST alive: ids are only stable while referenced
        self.assume(e > 0, silent=True)

    def fresh(self, stem='t') -> SymReal:
        name = f"_{stem}{next(self._fresh)}"
        v = SymReal(z3.Real(name))
        return v

    def boolean(self, name) -> SymBool:
        if name in self.symbols:
            return self.symbols[name]
        v = SymBool(z3.Bool(name))
        self.symbols[name] = v
        return v

    # ---- assumptions / branching -------------------------------------------
    def assume(self, cond, silent=False):
        c = _b(cond) if not z3.is_expr(cond) else cond
        self.pc.append(c)

    def branch(self, cond, tag='') -> bool:
        cond = z3.simplify(cond)
        if z3.is_true(cond):
            return True
        if z3.is_false(cond):
            return False
        i = len(self.trace)
        if i < len(self.prefix):
            taken = self.prefix[i]
            forced = False
        else:
            can_t = self._check(cond) != z3.unsat
            can_f = self._check(z3.Not(cond)) != z3.unsat
            if can_t and can_f:
                taken, forced = True, False
                self._pending.append([t for (t, _f, _g) in self.trace] + [False])
            elif can_t:
                taken, forced = True, True
            elif can_f:
                taken, forced = False, True
            else:
                # infeasible path condition: stop here
                self.flags.add('infeasible')
                raise _Infeasible()
        self.trace.append((taken, forced, tag))
        c = cond if taken else z3.Not(cond)
        self.pc.append(c)
        self.pc_decisions.append(c)
        return taken

    def fork(self, n, tag='choice') -> int:
        """Non-deterministic choice among n alternatives (used by stubs: fault kinds, ...)."""
        for k in range(n - 1):
            b = z3.Bool(f"__fork{len(self.trace)}_{tag}")
            if self.branch(b, tag=f"{tag}={k}"):
                return k
        return n - 1

    def on_div0(self):
        self.flags.add('div0')
        if self.div0 == 'nan':
            return DIV0
        raise SymZeroDivision("division by zero (symbolic path)")

    def on_lognonpos(self):
        self.flags.add('log_nonpos')
        return NAN

    # ---- proving ------------------------------------------------------------
    def pc_text(self, limit=6):
        ds = [str(d).replace('\n', ' ') for d in self.pc_decisions]
        if len(ds) > limit:
            ds = ds[:limit] + [f"... (+{len(ds) - limit})"]
        return ' ; '.join(ds)

    def model_dict(self, m):
        out = {}
        for name, v in self.symbols.items():
            try:
                val = m.eval(v.e, model_completion=True)
                out[name] = _val_to_py(val)
            except Exception as exc:  # pragma: no cover
                out[name] = f"?{exc}"
        return out

    def prove(self, name, cond, extra=None) -> Obligation:
        """Discharge `pc => cond`.  cond: SymBool | bool | z3 BoolRef."""
        t0 = time.time()
        if isinstance(cond, bool):
            ob = Obligation(name, 'proved' if cond else 'refuted', 'eval', 0.0,
                            model=self._any_model() if not cond else None, pc=self.pc_text(), extra=extra)
            self.obligations.append(ob)
            return ob
        c = _b(cond)
        c = z3.simplify(c)
        if z3.is_true(c):
            ob = Obligation(name, 'proved', 'z3-simplify', 0.0, pc=self.pc_text(), extra=extra)
            self.obligations.append(ob)
            return ob
        r = self._check(z3.Not(c))
        if r == z3.unknown and _ESCALATIONS[0] < 24:
            # a timeout is a statement about the machine, not about the obligation: when the cores are busy (or nlsat starts
            # from an unlucky seed) the same query that normally takes milliseconds can run out of its budget.  Ask again with
            # six times the budget and another seed before calling it undecided (bounded number of escalations per process).
            _ESCALATIONS[0] += 1
            r = self._check(z3.Not(c), timeout_ms=self.timeout_ms * 6, seed=11)
        backend = 'z3'
        model = None
        detail = ''
        if r == z3.unsat:
            verdict = 'proved'
        elif r == z3.sat:
            verdict = 'refuted'
            model = self.model_dict(self._last_solver.model())
        else:
            detail = self._last_solver.reason_unknown()
            verdict, backend, model, detail2 = self._second_opinion(c)
            detail = f"z3: {detail}; {detail2}"
        ob = Obligation(name, verdict, backend, time.time() - t0, model, detail, self.pc_text(), extra)
        self.obligations.append(ob)
        return ob

    def cover(self) -> bool:
        """pc must be satisfiable (vacuity guard)."""
        return self._check() != z3.unsat

    def _any_model(self):
        if self._check() == z3.sat:
            return self.model_dict(self._last_solver.model())
        return None

    def _second_opinion(self, c):
        """cvc5 on the same query (smt2 text)."""
        s = z3.Solver()
        s.add(*self.pc)
        s.add(z3.Not(c))
        smt = "(set-logic ALL)\n(set-option :produce-models true)\n" + s.to_smt2()
        try:
            p = subprocess.run(
                ['/usr/bin/cvc5', '--lang=smt2', f'--tlimit={self.timeout_ms}', '--nl-ext-tplanes'],
                input=smt, capture_output=True, text=True, timeout=self.timeout_ms / 1000 + 5)
            out = p.stdout.strip().splitlines()
            first = out[0] if out else ''
            if first == 'unsat':
                return 'proved', 'cvc5', None, 'cvc5: unsat'
            if first == 'sat':
                # cvc5 models are not parsed back; try z3 once more for a model with a different tactic
                return 'unknown', 'cvc5', None, 'cvc5: sat (model not imported)'
            return 'unknown', 'z3+cvc5', None, f'cvc5: {first or p.stderr.strip()[:120]}'
        except Exception as exc:  # pragma: no cover
            return 'unknown', 'z3', None, f'cvc5 failed: {exc}'

    # ---- exploration --------------------------------------------------------
    def explore(self, run):
        """Run `run()` once per feasible path.  Yields PathResult."""
        global _CUR
        self._pending = [[]]
        n = 0
        while self._pending:
            prefix = self._pending.pop()
            n += 1
            if n > self.max_paths:
                raise PathLimit(f"more than {self.max_paths} paths")
            self._reset_path(prefix)
            prev = _CUR
            _CUR = self
            outcome = None
            try:
                try:
                    outcome = ('return', run())
                except _Infeasible:
                    outcome = ('infeasible', None)
                except Unsupported as exc:
                    outcome = ('unsupported', str(exc))
                except RecursionError as exc:
                    outcome = ('unsupported', f"recursion: {exc}")
            finally:
                _CUR = prev
            if 'infeasible' in self.flags:
                continue
            if 'unsupported' in self.flags and outcome[0] != 'unsupported':
                outcome = ('unsupported', getattr(self, 'unsupported_msg', ''))
            yield PathResult(n - 1, outcome, list(self.obligations), set(self.flags), self.pc_text(),
                             [t for t in self.trace])


class _Infeasible(BaseException):
    pass


class PathResult:
    def __init__(self, idx, outcome, obligations, flags, pc, trace):
        self.idx = idx
        self.outcome = outcome
        self.obligations = obligations
        self.flags = flags
        self.pc = pc
        self.trace = trace


def _val_to_py(val):
    if z3.is_rational_value(val):
        f = Fraction(val.numerator_as_long(), val.denominator_as_long())
        return float(f) if f.denominator != 1 else int(f)
    if z3.is_algebraic_value(val):
        a = val.approx(20)
        return float(Fraction(a.numerator_as_long(), a.denominator_as_long()))
    if z3.is_true(val):
        return True
    if z3.is_false(val):
        return False
    return str(val)


# convenience for contract code ------------------------------------------------

def And(*xs):
    return SymBool(z3.And(*[_b(x) for x in xs]))


def Or(*xs):
    return SymBool(z3.Or(*[_b(x) for x in xs]))


def Not(x):
    return SymBool(z3.Not(_b(x)))


def Implies(a, b):
    return SymBool(z3.Implies(_b(a), _b(b)))


def eq(a, b):
    """Equality usable on SymReal / numbers / NaN (NaN equals nothing)."""
    if isinstance(a, NaNValue) or isinstance(b, NaNValue):
        return False
    if isinstance(a, SymReal) or isinstance(b, SymReal):
        return SymBool(z3.simplify(SymReal.lift(a) == SymReal.lift(b)))
    return to_fraction(a) == to_fraction(b)
