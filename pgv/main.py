"""Entry point:  python -m pgv.main C01 --tier quick"""
from __future__ import annotations

import argparse
import importlib
import os
import sys
import traceback


def main():
    if os.environ.get('PGV_DEBUG_HANG'):
        import faulthandler
        faulthandler.dump_traceback_later(int(os.environ['PGV_DEBUG_HANG']), exit=True)
    ap = argparse.ArgumentParser()
    ap.add_argument('prop', nargs='?')
    ap.add_argument('--tier', default=os.environ.get('VERIF_TIER', 'quick'), choices=['quick', 'thorough'])
    ap.add_argument('--replay')
    ap.add_argument('--update-ledger', action='store_true')
    args = ap.parse_args()
    if args.replay:
        from pgv import replay
        sys.exit(replay.main([args.replay]))
    seed = int(os.environ.get('VERIF_SEED', '0') or 0)
    import pygaps
    src = os.path.realpath(pygaps.__file__)
    if not src.startswith(os.path.realpath(os.environ.get('PGV_REPO', '/repo')) + os.sep):
        print(f"CHECKER-ERROR pygaps imported from {src}, not from the repository working tree")
        sys.exit(3)
    from pgv.report import Report
    prop = args.prop.upper()
    rep = Report(prop, args.tier, seed)
    try:
        mod = importlib.import_module(f"pgv.checks.{prop.lower()}")
        mod.run(rep)
    except BaseException as exc:  # noqa
        if isinstance(exc, KeyboardInterrupt):
            raise
        rep.crash = f"{type(exc).__name__}: {exc}"
        traceback.print_exc()
    code = rep.finish(update_ledger=args.update_ledger)
    sys.exit(code)


if __name__ == '__main__':
    main()
