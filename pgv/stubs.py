"""Contract stubs for collaborators of the functions under verification.

Each stub returns values constrained only by the callee's *contract* (never by its body)
and records how it was called so that call-site obligations can be stated.
"""
from __future__ import annotations

from pgv import spec_si as S
from pgv import sx


class FailNow(Exception):
    """what a failing thermodynamic backend raises inside a stub"""


class AdsorbateStub:
    """Contract of pygaps.Adsorbate as used by the converters (Appendix A.1).

    saturation_pressure(T, unit) = p_sat / U_P[unit]  (Pa if unit is None)
    molar_mass() = M,  liquid_density = rhobar_l*M,  gas_density = rhobar_g*M,
    liquid_molar_density = rhobar_l, gas_molar_density = rhobar_g          (all > 0)
    With `fail={'liquid_density', ...}` the named getters raise CalculationError
    (adsorbate without backend and without that user property).
    """

    def __init__(self, ads: S.Ads, tables=S.SI, name='N2', fail=()):
        self._a = ads
        self._T = tables
        self.name = name
        self.calls = []
        self.fail = set(fail)

    def _chk(self, what, temp=None):
        self.calls.append((what, temp))
        if what in self.fail:
            from pygaps.utilities.exceptions import CalculationError
            raise CalculationError(f"stub: no {what}")

    def saturation_pressure(self, temp, unit=None, calculate=True):
        self._chk('saturation_pressure', temp)
        if unit is None:
            return self._a.p_sat
        return self._a.p_sat / self._T.U_P[unit]

    pressure_saturation = saturation_pressure

    def molar_mass(self, calculate=True):
        self._chk('molar_mass')
        return self._a.M

    def liquid_density(self, temp, calculate=True):
        self._chk('liquid_density', temp)
        return self._a.rho_l

    def gas_density(self, temp, calculate=True):
        self._chk('gas_density', temp)
        return self._a.rho_g

    def liquid_molar_density(self, temp, calculate=True):
        self._chk('liquid_molar_density', temp)
        return self._a.rhobar_l

    def gas_molar_density(self, temp, calculate=True):
        self._chk('gas_molar_density', temp)
        return self._a.rhobar_g

    def __str__(self):
        return self.name

    def __repr__(self):
        return f"<AdsorbateStub {self.name}>"

    def __eq__(self, o):
        return o is self or (isinstance(o, str) and o.lower() == self.name.lower())

    def __hash__(self):
        return hash(self.name)


class MaterialStub:
    def __init__(self, mat: S.Mat, name='mat'):
        self._m = mat
        self.name = name
        self.properties = {}

    @property
    def density(self):
        return self._m.rho

    @property
    def molar_mass(self):
        return self._m.M

    def __str__(self):
        return self.name

    def __repr__(self):
        return f"<MaterialStub {self.name}>"

    def __eq__(self, o):
        return o is self or o == self.name

    def __hash__(self):
        return hash(self.name)


def sym_ads(eng: sx.Engine) -> S.Ads:
    return S.Ads(eng.real('p_sat', positive=True), eng.real('M_ads', positive=True),
                 eng.real('rhobar_l', positive=True), eng.real('rhobar_g', positive=True))


def sym_mat(eng: sx.Engine) -> S.Mat:
    return S.Mat(eng.real('rho_mat', positive=True), eng.real('M_mat', positive=True))


class ColumnStore:
    """Assumed `pandas.DataFrame` column contract for the data store of a PointIsotherm:
    `df[key]` returns the column, `df[key] = values` replaces it element-wise, keeping the other
    columns, the row order and the row count.  Every write is recorded."""

    def __init__(self, cols):
        self.cols = dict(cols)
        self.writes = []

    def __getitem__(self, key):
        if not isinstance(key, str):
            raise sx.Unsupported(f"ColumnStore: unsupported key {key!r}")
        return self.cols[key]

    def __setitem__(self, key, value):
        self.cols[key] = value
        self.writes.append(key)

    @property
    def columns(self):
        return list(self.cols)

    def copy(self):
        return ColumnStore({k: (v.copy() if hasattr(v, 'copy') else v) for k, v in self.cols.items()})


class Token:
    """Opaque value: may be moved and compared for identity only."""

    def __init__(self, name):
        self.name = name

    def __repr__(self):
        return f"<{self.name}>"
