"""Contract stubs for collaborators of the functions under verification.

Each stub returns values constrained only by the callee's *contract* (never by its body)
and records how it was called so that call-site obligations can be stated.
"""
from __future__ import annotations

from pgv import spec_si as S
from pgv import sx


class FailNow(Exception):
    """what a failing thermodynamic backend raises inside a stub"""


class AdsorbateStub:
    """Contract of pygaps.Adsorbate as used by the converters (Appendix A.1).

    saturation_pressure(T, unit) = p_sat / U_P[unit]  (Pa if unit is None)
    molar_mass() = M,  liquid_density = rhobar_l*M,  gas_density = rhobar_g*M,
    liquid_molar_density = rhobar_l, gas_molar_density = rhobar_g          (all > 0)
    With `fail={'liquid_density', ...}` the named getters raise CalculationError
    (adsorbate without backend and without that user property).
    """

    def __init__(self, ads: S.Ads, tables=S.SI, name='N2', fail=()):
        self._a = ads
        self._T = tables
        self.name = name
        self.calls = []
        self.fail = set(fail)

    def _chk(self, what, temp=None):
        self.calls.append((what, temp))
        if what in self.fail:
            from pygaps.utilities.exceptions import CalculationError
            raise CalculationError(f"stub: no {what}")

    def saturation_pressure(self, temp, unit=None, calculate=True):
        self._chk('saturation_pressure', temp)
        if unit is None:
            return self._a.p_sat
        return self._a.p_sat / self._T.U_P[unit]

    pressure_saturation = saturation_pressure

    def molar_mass(self, calculate=True):
        self._chk('molar_mass')
        return self._a.M

    def liquid_density(self, temp, calculate=True):
        self._chk('liquid_density', temp)
        return self._a.rho_l

    def gas_density(self, temp, calculate=True):
        self._chk('gas_density', temp)
        return self._a.rho_g

    def liquid_molar_density(self, temp, calculate=True):
        self._chk('liquid_molar_density', temp)
        return self._a.rhobar_l

    def gas_molar_density(self, temp, calculate=True):
        self._chk('gas_molar_density', temp)
        return self._a.rhobar_g

    def __str__(self):
        return self.name

    def __repr__(self):
        return f"<AdsorbateStub {self.name}>"

    def __eq__(self, o):
        return o is self or (isinstance(o, str) and o.lower() == self.name.lower())

    def __hash__(self):
        return hash(self.name)


class MaterialStub:
    def __init__(self, mat: S.Mat, name='mat'):
        self._m = mat
        self.name = name
        self.properties = {}

    @property
    def density(self):
        return self._m.rho

    @property
    def molar_mass(self):
        return self._m.M

    def __str__(self):
        return self.name

    def __repr__(self):
        return f"<MaterialStub {self.name}>"

    def __eq__(self, o):
        return o is self or o == self.name

    def __hash__(self):
        return hash(self.name)


def sym_ads(eng: sx.Engine) -> S.Ads:
    return S.Ads(eng.real('p_sat', positive=True), eng.real('M_ads', positive=True),
                 eng.real('rhobar_l', positive=True), eng.real('rhobar_g', positive=True))


def sym_mat(eng: sx.Engine) -> S.Mat:
    return S.Mat(eng.real('rho_mat', positive=True), eng.real('M_mat', positive=True))


class ColumnStore:
    """Assumed `pandas.DataFrame` column contract for the data store of a PointIsotherm:
    `df[key]` returns the column, `df[key] = values` replaces it element-wise, keeping the other
    columns, the row order and the row count.  Every write is recorded."""

    def __init__(self, cols):
        self.cols = dict(cols)
        self.writes = []

    def __getitem__(self, key):
        if not isinstance(key, str):
            raise sx.Unsupported(f"ColumnStore: unsupported key {key!r}")
        return self.cols[key]

    def __setitem__(self, key, value):
        self.cols[key] = value
        self.writes.append(key)

    @property
    def columns(self):
        return list(self.cols)

    def copy(self):
        return ColumnStore({k: (v.copy() if hasattr(v, 'copy') else v) for k, v in self.cols.items()})


class Token:
    """Opaque value: may be moved and compared for identity only."""

    def __init__(self, name):
        self.name = name

    def __repr__(self):
        return f"<{self.name}>"


# ---------------------------------------------------------------------------------------------
# scipy.interpolate.interp1d contract stub
# ---------------------------------------------------------------------------------------------
import z3 as _z3
import numpy as _np

_NOFILL = object()


class Interp1dStub:
    """Assumed contract of scipy.interpolate.interp1d(x, y, kind, fill_value, bounds_error).

    mode 'uf'    : the interpolant is an uninterpreted function of the query (one per instance);
                   only the call site (knots, kind, fill, bounds_error) and the query are observable.
    mode 'linear': kind='linear' semantics on strictly monotonic knots: exact at knots, linear between
                   neighbours; outside the knot range ValueError unless bounds_error=False, then
                   fill_value (scalar, (below, above) pair, or "extrapolate").
    """
    instances = []
    mode = 'uf'

    def __init__(self, x, y, kind='linear', fill_value=_NOFILL, bounds_error=None, **kw):
        self.x = list(x)
        self.y = list(y)
        self.kind = kind
        self.fill_value = fill_value
        self.bounds_error = bounds_error
        self.kw = kw
        self.queries = []
        self.results = []
        self.id = len(Interp1dStub.instances)
        Interp1dStub.instances.append(self)
        self.uf = _z3.Function(f"interp{self.id}", _z3.RealSort(), _z3.RealSort())

    def __call__(self, q):
        arr = _np.asarray(q, dtype=object)
        if arr.ndim == 0:
            r = self._one(arr.item())
            out = _np.empty((), dtype=object)
            out[()] = r
            return out
        out = _np.empty(arr.shape, dtype=object)
        for i, v in enumerate(arr.flat):
            out.flat[i] = self._one(v)
        return out

    def _one(self, q):
        self.queries.append(q)
        if Interp1dStub.mode == 'uf':
            # opaque result: a fresh real per call, recorded with its argument (keeps queries pure NRA;
            # "same argument -> same result" is not needed by any obligation that uses this mode)
            r = sx.cur().fresh(f'interp{self.id}_')
            self.results.append((q, r))
            return r
        return self._linear(q)

    def _linear(self, q):
        if self.kind != 'linear':
            raise sx.Unsupported(f"interp1d kind {self.kind!r} has no contract in the stub")
        x, y = self.x, self.y
        n = len(x)
        if n < 2:
            raise ValueError("x and y arrays must have at least 2 entries")
        asc = bool(x[0] < x[-1])
        lo, hi = (x[0], x[-1]) if asc else (x[-1], x[0])
        ylo, yhi = (y[0], y[-1]) if asc else (y[-1], y[0])
        filled = self.bounds_error is False and self.fill_value is not _NOFILL
        if bool(q < lo):
            if not filled:
                raise ValueError("A value in x_new is below the interpolation range.")
            return self._fill(q, 0, asc)
        if bool(q > hi):
            if not filled:
                raise ValueError("A value in x_new is above the interpolation range.")
            return self._fill(q, 1, asc)
        for i in range(n - 1):
            a, b = (x[i], x[i + 1]) if asc else (x[i + 1], x[i])
            ya, yb = (y[i], y[i + 1]) if asc else (y[i + 1], y[i])
            if bool(q >= a) and bool(q <= b):
                return ya + (yb - ya) * (q - a) / (b - a)
        raise sx.Unsupported("interp1d stub: query not located (non-monotonic knots?)")

    def _fill(self, q, side, asc):
        fv = self.fill_value
        if isinstance(fv, str) and fv == 'extrapolate':
            x, y = self.x, self.y
            if (side == 0) == asc:
                a, b, ya, yb = x[0], x[1], y[0], y[1]
            else:
                a, b, ya, yb = x[-2], x[-1], y[-2], y[-1]
            return ya + (yb - ya) * (q - a) / (b - a)
        if isinstance(fv, (tuple, list)):
            return fv[side]
        return fv


class ModelStub:
    """contract of an isotherm model as seen by ModelIsotherm: loading(p), pressure(n), spreading_pressure(p)
    are (uninterpreted) functions of their argument; every call is recorded."""

    def __init__(self, calculates='loading', name='StubModel'):
        self.name = name
        self.calculates = calculates
        self.calls = []
        self.results = []
        self.pressure_range = (0.1, 10)
        self.loading_range = (0.1, 10)
        self.L = _z3.Function('model_loading', _z3.RealSort(), _z3.RealSort())
        self.Pf = _z3.Function('model_pressure', _z3.RealSort(), _z3.RealSort())
        self.S = _z3.Function('model_spreading', _z3.RealSort(), _z3.RealSort())

    def _ap(self, f, x, what):
        arr = _np.asarray(x, dtype=object)
        self.calls.append((what, x))
        eng = sx.cur()
        if arr.ndim == 0:
            r = eng.fresh(what + '_')
            self.results.append((what, arr.item(), r))
            return r
        out = _np.empty(arr.shape, dtype=object)
        for i, v in enumerate(arr.flat):
            r = eng.fresh(what + '_')
            self.results.append((what, v, r))
            out.flat[i] = r
        return out

    def loading(self, p):
        return self._ap(self.L, p, 'loading')

    def pressure(self, n):
        return self._ap(self.Pf, n, 'pressure')

    def spreading_pressure(self, p):
        return self._ap(self.S, p, 'spreading_pressure')


# ---------------------------------------------------------------------------------------------
# scipy.optimize / scipy.integrate contract stubs
# ---------------------------------------------------------------------------------------------

class _OptResult:
    def __init__(self, x, success, fun=None, message='stub'):
        self.x = x
        self.success = success
        self.fun = fun
        self.message = message


class Captured(Exception):
    """raised by a stub in 'capture' mode right after recording the call (the caller only wants the closure)"""


class OptimizeStub:
    """Assumed contracts:
    root(f, x0): success => f(x) = 0;  minimize(f, x0): success => x is a minimiser (nothing else);
    minimize_scalar / least_squares: see callers.  Nothing is assumed when success is false.
    Every call forks into success / failure and records its arguments."""

    def __init__(self, outcomes=('ok', 'fail')):
        self.calls = []
        self.outcomes = outcomes

    def _fork_ok(self, what):
        eng = sx.cur()
        if self.outcomes == ('ok',):
            return True
        return eng.branch(_z3.Bool(f"{what}_succeeds_{len(self.calls)}"), tag=f"{what}:success")

    def root(self, fun, x0, **kw):
        eng = sx.cur()
        if self.outcomes == ('capture',):
            self.calls.append({'kind': 'root', 'fun': fun, 'x0': x0, 'kw': kw, 'x': None, 'success': None})
            raise Captured()
        ok = self._fork_ok('root')
        if hasattr(x0, '__len__') and not isinstance(x0, str) and getattr(x0, 'ndim', 1) >= 1:
            x = _np.empty(len(x0), dtype=object)
            for i in range(len(x0)):
                x[i] = eng.fresh(f'root_x{i}_')
        else:
            x = eng.fresh('root_x')
        rec = {'kind': 'root', 'fun': fun, 'x0': x0, 'kw': kw, 'x': x, 'success': ok}
        self.calls.append(rec)
        r = None
        if ok:
            r = fun(x)
            r = r.item() if hasattr(r, 'item') and getattr(r, 'ndim', 1) == 0 else r
            if isinstance(r, _np.ndarray):
                for v in r.flat:
                    eng.assume(sx.eq(v, 0))
            else:
                eng.assume(sx.eq(r, 0))
        # (the result object carries the residual at x, as scipy's does; code that checks it finds what the contract assumed)
        return _OptResult(x, ok, fun=r)

    def minimize(self, fun, x0, **kw):
        eng = sx.cur()
        ok = self._fork_ok('minimize')
        x = eng.fresh('min_x')
        self.calls.append({'kind': 'minimize', 'fun': fun, 'x0': x0, 'kw': kw, 'x': x, 'success': ok})
        return _OptResult(x, ok)


def _minimize_scalar(self, fun, bounds=None, method=None, **kw):
    """assumed contract of scipy.optimize.minimize_scalar(method='bounded'): success => x inside the bounds (that x is a
    *global* minimiser is not assumed: Brent's method finds a local one); nothing when success is false"""
    eng = sx.cur()
    ok = self._fork_ok('minimize_scalar')
    x = eng.fresh('ms_x')
    if bounds is not None and ok:
        eng.assume((x >= bounds[0]) & (x <= bounds[1]))
    self.calls.append({'kind': 'minimize_scalar', 'fun': fun, 'bounds': bounds, 'method': method, 'kw': kw, 'x': x, 'success': ok})
    return _OptResult(x, ok)


OptimizeStub.minimize_scalar = _minimize_scalar


class IntegrateStub:
    """quad(f, a, b)[0] = integral of f over [a, b] (assumed); the call is recorded, the value is opaque."""

    def __init__(self):
        self.calls = []

    def quad(self, f, a, b, **kw):
        val = sx.cur().fresh('quad')
        self.calls.append({'f': f, 'a': a, 'b': b, 'kw': kw, 'value': val})
        return (val, 0.0)


class StatsStub:
    """scipy.stats.linregress contract stub with the *exact-fit lemma*:
    if all points lie on one line y = a x + b (x not constant) then slope = a, intercept = b, r^2 = 1, stderr = 0;
    otherwise nothing is known about the result (fresh symbols, |r| <= 1, stderr >= 0).  Calls are recorded."""

    def __init__(self):
        self.calls = []

    def linregress(self, x, y=None, **kw):
        eng = sx.cur()
        xs, ys = list(x), list(y)
        if len(xs) != len(ys):
            raise ValueError("all the input array dimensions must match")
        if len(xs) < 2:
            raise ValueError("Inputs must not be empty.")
        a = (ys[1] - ys[0]) / (xs[1] - xs[0])
        b = ys[0] - a * xs[0]
        cond = [sx.eq(ys[i], a * xs[i] + b) for i in range(2, len(xs))]
        cond = [c for c in cond if c is not True]
        exact = not cond or (all(c is not False for c in cond) and eng._check(_z3.Not(_z3.And(*[sx._b(c) for c in cond]))) == _z3.unsat)
        if exact:
            r = eng.fresh('r')
            eng.assume(_z3.And(r.e * r.e == 1))
            res = (a, b, r, sx.SymReal(0), sx.SymReal(0))
        else:
            s, c, r, se = eng.fresh('slope'), eng.fresh('icpt'), eng.fresh('r'), eng.fresh('stderr')
            eng.assume(_z3.And(r.e >= -1, r.e <= 1, se.e >= 0))
            res = (s, c, r, sx.SymReal(0), se)
        self.calls.append({'x': xs, 'y': ys, 'exact': exact, 'result': res})
        return res
