"""Generator of isotherms for the round-trip stand-ins (C06 JSON, C07 CSV / Excel / AIF) and the comparison oracle."""
from __future__ import annotations

import random

import numpy

PRESSURE = [('absolute', 'bar'), ('absolute', 'Pa'), ('absolute', 'torr'), ('relative', None), ('relative%', None)]
LOADING = [('molar', 'mmol'), ('molar', 'cm3(STP)'), ('mass', 'g'), ('volume_gas', 'cm3'), ('volume_liquid', 'mL'), ('fraction', None), ('percent', None)]
MATERIAL = [('mass', 'g'), ('mass', 'kg'), ('volume', 'cm3'), ('molar', 'mol')]
MODELS = ['Henry', 'Langmuir', 'DSLangmuir', 'TSLangmuir', 'BET', 'GAB', 'Freundlich', 'DR', 'DA', 'Quadratic', 'TemkinApprox', 'Toth',
          'JensenSeaton', 'Virial', 'FHVST', 'WVST']


def metadata(fmt, rnd):
    if fmt == 'json':
        pool = [('comment', 'plain text'), ('unicode', 'météo ßÅ 测试'), ('numlike', '12'), ('floatlike', '1e5'), ('boollike', 'true'), ('nonelike', 'None'),
                ('count', 7), ('ratio', 0.125), ('neg', -3.5), ('flag', True), ('off', False), ('tags', ['a', 'b', 3]), ('empty', ''), ('with,comma', 'a,b'),
                ('date', '2020-01-02'), ('big', 10 ** 12)]
    elif fmt in ('csv', 'aif'):
        pool = [('comment', 'plain text'), ('user', 'someone'), ('count', 7), ('ratio', 0.125), ('neg', -3.5), ('flag', True), ('off', False),
                ('date', '2020-01-02'), ('lab', 'lab B'), ('instrument', 'ASAP-2020')]
    else:  # excel
        pool = [('comment', 'plain text'), ('user', 'someone'), ('count', 7), ('ratio', 0.125), ('neg', -3.5), ('flag', True), ('date', '2020-01-02')]
    k = rnd.randint(0, min(5, len(pool)))
    return dict(rnd.sample(pool, k))


def _model(name, rnd):
    import pygaps.modelling as pgm
    m = pgm.get_isotherm_model(name)
    for p, (lo, hi) in zip(m.param_names if isinstance(m.param_names, (list, tuple)) else [m.param_names], m.param_default_bounds):
        lo = 0.1 if lo in (0, 0.0) or lo == -numpy.inf else lo
        hi = lo + 2.0 if hi == numpy.inf else hi
        m.params[p] = round(rnd.uniform(lo + 0.05 * (hi - lo), lo + 0.9 * (hi - lo)), 6)
    m.pressure_range = (0.01, 0.9)
    m.loading_range = (0.1, 3.5)
    m.rmse = round(rnd.uniform(0, 0.1), 6)
    return m


def make(fmt, seed, n):
    """yield (name, isotherm)"""
    import pandas
    import pygaps
    pygaps.logger.disabled = True
    rnd = random.Random(seed)
    for k in range(n):
        cls = ('base', 'point', 'point', 'model')[k % 4]
        pm, pu = rnd.choice(PRESSURE)
        lb, lu = rnd.choice(LOADING)
        mb, mu = rnd.choice(MATERIAL)
        meta = dict(material='pgv_rt_mat', adsorbate=rnd.choice(['nitrogen', 'carbon dioxide', 'pgv_unknown_gas']), temperature=rnd.choice([77.355, 298.15, 303]),
                    pressure_mode=pm, pressure_unit=pu, loading_basis=lb, loading_unit=lu, material_basis=mb, material_unit=mu,
                    temperature_unit=rnd.choice(['K', 'K', '°C']))
        if rnd.random() < 0.4:
            meta['material'] = {'name': 'pgv_rt_mat2', 'density': 1.5, 'batch': 'b7'} if fmt in ('json',) else {'name': 'pgv_rt_mat2', 'density': 1.5}
        meta.update(metadata(fmt, rnd))
        name = f"{cls}|{pm}:{pu}|{lb}:{lu}|{mb}:{mu}|meta={sorted(set(meta) - {'material', 'adsorbate', 'temperature', 'pressure_mode', 'pressure_unit', 'loading_basis', 'loading_unit', 'material_basis', 'material_unit', 'temperature_unit'})}"
        try:
            if cls == 'base':
                iso = pygaps.core.baseisotherm.BaseIsotherm(**meta)
            elif cls == 'point':
                npts = rnd.choice([1, 2, 7, 40])
                layout = rnd.choice(['ads', 'des', 'both', 'user'])
                p = numpy.round(numpy.sort(numpy.array([rnd.uniform(0.001, 0.95) for _ in range(npts)])), 8)
                l = numpy.round(numpy.cumsum([rnd.uniform(0.01, 1.0) for _ in range(npts)]), 8)
                if layout == 'ads' and npts > 2 and rnd.random() < 0.5:
                    # measured order need not be monotone: the user says "all adsorption"
                    order = list(range(npts))
                    rnd.shuffle(order)
                    p, l = p[order], l[order]
                    layout = 'ads(non-monotone)'
                    branch = 'ads'
                elif layout == 'both' and npts > 2:
                    p = numpy.concatenate([p, p[::-1][1:]])
                    l = numpy.concatenate([l, (l * 1.05)[::-1][1:]])
                    branch = 'guess'
                elif layout == 'user':
                    branch = [rnd.randint(0, 1) for _ in range(len(p))]
                elif layout != 'ads(non-monotone)':
                    branch = layout
                data = {'pressure': p, 'loading': l}
                extra = rnd.choice(['none', 'numeric', 'text']) if fmt in ('json', 'csv') else rnd.choice(['none', 'numeric'])
                if extra == 'numeric':
                    data['enthalpy'] = numpy.round([rnd.uniform(5, 40) for _ in range(len(p))], 6)
                elif extra == 'text':
                    data['remark'] = [rnd.choice(['ok', 'bad', 'redo']) for _ in range(len(p))]
                iso = pygaps.PointIsotherm(isotherm_data=pandas.DataFrame(data), pressure_key='pressure', loading_key='loading', branch=branch, **meta)
                name += f"|n={len(p)}|branch={layout}|extra={extra}"
            else:
                mname = MODELS[(k // 4) % len(MODELS)]
                iso = pygaps.ModelIsotherm(model=_model(mname, rnd), branch=rnd.choice(['ads', 'des']), **meta)
                name += f"|model={mname}"
        except Exception as exc:
            continue
        yield f"{k}:{name}", iso
    yield from converted(fmt)
    yield from marks(fmt)
    if fmt in ('json', 'csv'):
        yield from textcols(fmt)
    yield from shapes(fmt)


def shapes(fmt):
    """legal data shapes the random generator never draws: a point at exactly zero pressure (first, in the middle after a
    desorption to vacuum, zero loading too), several supplementary columns in non-alphabetical order"""
    import pandas
    import pygaps
    pygaps.logger.disabled = True
    meta = dict(material='pgv_rt_mat', adsorbate='nitrogen', temperature=77.355, pressure_mode='absolute', pressure_unit='bar', loading_basis='molar',
                loading_unit='mmol', material_basis='mass', material_unit='g', temperature_unit='K')
    cases = {
        'zero_first': ([0.0, 0.1, 0.2, 0.4], [0.0, 1.0, 1.5, 2.0], [0, 0, 0, 0]),
        'zero_after_desorption': ([0.5, 1.0, 2.0, 3.0, 2.0, 1.0, 0.0], [1.0, 1.5, 2.0, 2.5, 2.3, 1.9, 0.4], [0, 0, 0, 0, 1, 1, 1]),
        'zero_in_the_middle': ([0.5, 1.0, 2.0, 1.0, 0.0, 0.5, 1.5], [1.0, 1.5, 2.0, 1.9, 0.4, 0.9, 1.6], [0, 0, 0, 1, 1, 0, 0]),
    }
    for tag, (p, l, b) in cases.items():
        if fmt == 'aif' and tag == 'zero_in_the_middle':
            continue  # interleaved branches: listed finding of the AIF format
        yield f"shape:{tag}", pygaps.PointIsotherm(pressure=p, loading=l, branch=b, **meta)
    # required values that are zero or falsy in Python: 0 degrees Celsius, and a numerical zero among the user's metadata
    zmeta = dict(meta, temperature=0.0, temperature_unit='°C')
    yield "shape:temperature_zero_celsius", pygaps.PointIsotherm(pressure=[0.1, 0.2, 0.4], loading=[1.0, 1.5, 2.0], **zmeta)
    yield "shape:metadata_value_zero", pygaps.PointIsotherm(pressure=[0.1, 0.2, 0.4], loading=[1.0, 1.5, 2.0], activation_offset=0.0, **meta)
    # material properties: text and numbers, a property name that contains the marker the flat formats prefix them with
    mmeta = dict(meta, material={'name': 'pgv_rt_mat3', 'density': 1.5, 'batch': 'b7', 'raw_material_source': 'mine', 'subsample_id': 'a1'})
    yield "shape:material_properties", pygaps.PointIsotherm(pressure=[0.1, 0.2, 0.4], loading=[1.0, 1.5, 2.0], **mmeta)
    # metadata keys that start with an underscore (document-database style _id / _rev) are metadata like any other
    yield "shape:metadata_keys_with_leading_underscore", pygaps.PointIsotherm(pressure=[0.1, 0.2, 0.4], loading=[1.0, 1.5, 2.0], _id='5f1e9c0b7a', _rev=3.5, **meta)
    # a number that is not a number among the metadata (a mass that was not recorded)
    yield "shape:metadata_nan", pygaps.PointIsotherm(pressure=[0.1, 0.2, 0.4], loading=[1.0, 1.5, 2.0], dry_weight=float('nan'), **meta)
    # whole numbers with a sign among the metadata (the Excel reader returns every number as a float: the same value, and equal)
    if True:
        yield "shape:metadata_negative_integer", pygaps.PointIsotherm(pressure=[0.1, 0.2, 0.4], loading=[1.0, 1.5, 2.0], cycle=-5, offset=-2.5, **meta)
    # values that use all eight documented decimals at magnitudes above one (eight decimals are not eight significant digits)
    yield "shape:eight_decimals_above_one", pygaps.PointIsotherm(pressure=[1.23456789, 12.3456789, 123.456789], loading=[0.12345678, 1.12345678, 11.12345678], **meta)
    # a supplementary column that was not measured at every point (missing values)
    gaps = pandas.DataFrame({'pressure': [0.1, 0.2, 0.3, 0.4], 'loading': [1.0, 1.5, 1.8, 2.0], 'enthalpy': [15.2, float('nan'), 14.1, float('nan')]})
    yield "shape:extra_column_with_missing_values", pygaps.PointIsotherm(isotherm_data=gaps, pressure_key='pressure', loading_key='loading', **meta)
    # a table with its own names for the pressure and loading columns
    own = pandas.DataFrame({'p_bar': [0.1, 0.2, 0.4], 'uptake': [1.0, 1.5, 2.0], 'dose': [3.0, 4.0, 5.0]})
    if fmt != 'aif':  # (AIF names its pressure and amount columns itself)
        yield "shape:own_column_names", pygaps.PointIsotherm(isotherm_data=own, pressure_key='p_bar', loading_key='uptake', **meta)
    # a model that was never fitted: parameters set, ranges and fit error not (nan)
    import pygaps.modelling as pgm
    bare = pgm.get_isotherm_model('Langmuir', parameters={'K': 2.0, 'n_m': 5.0})
    yield "shape:model_without_ranges", pygaps.ModelIsotherm(model=bare, **meta)
    # an exact fit: fit error exactly 0, ranges starting at exactly 0
    exact = pgm.get_isotherm_model('Henry', parameters={'K': 2.0})
    exact.pressure_range, exact.loading_range, exact.rmse = (0.0, 1.5), (0.0, 3.0), 0.0  # (as a fit leaves them: set on the object)
    yield "shape:model_fit_error_exactly_zero", pygaps.ModelIsotherm(model=exact, **meta)
    # a table with repeated row labels (pandas.concat of two measurements), branch given and guessed
    a = pandas.DataFrame({'pressure': [0.1, 0.2, 0.3], 'loading': [1.0, 2.0, 2.5]})
    for br in ('ads', 'guess'):
        try:
            iso = pygaps.PointIsotherm(isotherm_data=pandas.concat([a, a + 0.3]), pressure_key='pressure', loading_key='loading', branch=br, **meta)
        except Exception as exc:  # a legal table: reported by the round-trip case, not a generator crash
            iso = exc
        yield f"shape:repeated_row_labels|branch={br}", iso
    # a model isotherm whose ranges are numpy scalars (what a fit leaves behind)
    m = _model('Langmuir', random.Random(5))
    m.pressure_range = (numpy.float64(0.01), numpy.float64(0.9))
    m.loading_range = (numpy.float64(0.1), numpy.float64(3.5))
    yield "shape:model_ranges_numpy_floats", pygaps.ModelIsotherm(model=m, **meta)
    p, l = [0.05, 0.1, 0.2, 0.4, 0.3, 0.15], [0.5, 1.0, 1.5, 2.0, 1.9, 1.6]
    cols = {'temperature_cell': [77.1, 77.2, 77.3, 77.2, 77.1, 77.0], 'enthalpy': [9.0, 8.5, 8.0, 7.5, 7.7, 8.1], 'dose': [1, 2, 3, 4, 5, 6]}
    for order in (('temperature_cell', 'enthalpy', 'dose'), ('dose', 'enthalpy', 'temperature_cell'), ('enthalpy', 'temperature_cell', 'dose')):
        df = pandas.DataFrame({'pressure': p, 'loading': l, **{c: [float(v) for v in cols[c]] for c in order}})
        yield f"shape:extra_columns|{'+'.join(order)}", pygaps.PointIsotherm(isotherm_data=df, pressure_key='pressure', loading_key='loading', **meta)


def textcols(fmt):
    """extra text columns whose values coincide with words the formats use themselves (branch names, markers, literals)"""
    import pandas
    import pygaps
    pygaps.logger.disabled = True
    p, l = [0.05, 0.1, 0.2, 0.4, 0.3, 0.15], [0.5, 1.0, 1.5, 2.0, 1.9, 1.6]
    meta = dict(material='pgv_rt_mat', adsorbate='nitrogen', temperature=77.355, pressure_mode='absolute', pressure_unit='bar', loading_basis='molar',
                loading_unit='mmol', material_basis='mass', material_unit='g', temperature_unit='K')
    words = {'branch_names': ['ads', 'ads', 'ads', 'ads', 'des', 'des'], 'mixed': ['des', 'ads', 'guess', 'all', 'des', 'ads'],
             'plain': ['up', 'up', 'up', 'top', 'down', 'down']}
    if fmt == 'json':
        words['literals'] = ['true', 'false', 'None', 'nan', '1', '0']
    for tag, col in words.items():
        for branch in ([0, 0, 0, 0, 1, 1], [0, 0, 0, 0, 0, 0]):
            pp, ll = (p, l) if any(branch) else (sorted(p), sorted(l))
            df = pandas.DataFrame({'pressure': pp, 'loading': ll, 'direction': col})
            yield f"textcol:{tag}|branch={''.join(map(str, branch))}", pygaps.PointIsotherm(isotherm_data=df, pressure_key='pressure', loading_key='loading', branch=branch, **meta)


def marks(fmt):
    """branch marks given in every documented form: booleans, 0/1 integers, 0.0/1.0, as a list or as a table column"""
    import pandas
    import pygaps
    pygaps.logger.disabled = True
    p, l = [0.05, 0.1, 0.2, 0.4, 0.3, 0.15], [0.5, 1.0, 1.5, 2.0, 1.9, 1.6]
    meta = dict(material='pgv_rt_mat', adsorbate='nitrogen', temperature=77.355, pressure_mode='absolute', pressure_unit='bar', loading_basis='molar',
                loading_unit='mmol', material_basis='mass', material_unit='g', temperature_unit='K')
    for kind, conv in (('bool', bool), ('int', int), ('float', float)):
        for pattern in ([0, 0, 0, 0, 1, 1], [0, 1, 0, 1, 0, 1], [1, 1, 1, 1, 1, 1], [0, 0, 0, 0, 0, 0]):
            b = [conv(x) for x in pattern]
            tag = ''.join(str(x) for x in pattern)
            if len(set(pattern)) == 1:
                p, l = [0.05, 0.1, 0.15, 0.2, 0.3, 0.4], [0.5, 1.0, 1.5, 1.6, 1.9, 2.0]  # one branch: measured in order
            else:
                p, l = [0.05, 0.1, 0.2, 0.4, 0.3, 0.15], [0.5, 1.0, 1.5, 2.0, 1.9, 1.6]
            yield f"marks:{kind}|list|{tag}", pygaps.PointIsotherm(pressure=p, loading=l, branch=b, **meta)
            yield f"marks:{kind}|column|{tag}", pygaps.PointIsotherm(isotherm_data=pandas.DataFrame({'pressure': p, 'loading': l, 'branch': b}),
                                                                      pressure_key='pressure', loading_key='loading', **meta)


def converted(fmt):
    """isotherms that reached their representation through the conversion methods (labels as the methods leave them,
    e.g. loading_unit None after a conversion to a fractional basis), one per target representation"""
    import pygaps
    pygaps.logger.disabled = True
    p, l = [0.05, 0.1, 0.2, 0.4, 0.3, 0.15], [0.5, 1.0, 1.5, 2.0, 1.9, 1.6]
    for (pm, pu) in PRESSURE:
        for (lb, lu) in LOADING:
            for (mb, mu) in (('mass', 'g'), ('volume', 'cm3'), ('molar', 'mol')):
                if fmt != 'json' and (PRESSURE.index((pm, pu)) + LOADING.index((lb, lu))) % 2 and mb != 'mass':
                    continue  # the slower file formats take every other combination of the non-default material bases
                iso = pygaps.PointIsotherm(pressure=p, loading=l, material={'name': 'pgv_rt_conv', 'density': 1.5, 'molar_mass': 120.0}, adsorbate='nitrogen',
                                           temperature=77.355, pressure_mode='absolute', pressure_unit='bar', loading_basis='molar', loading_unit='mmol',
                                           material_basis='mass', material_unit='g', temperature_unit='K', comment='converted')
                try:
                    iso.convert(pressure_mode=pm, pressure_unit=pu, loading_basis=lb, loading_unit=lu, material_basis=mb, material_unit=mu)
                    for col in (iso.pressure_key, iso.loading_key):
                        iso.data_raw[col] = numpy.round(iso.data_raw[col], 8)
                except Exception:
                    continue
                yield f"conv:point|{pm}:{pu}|{lb}:{lu}|{mb}:{mu}", iso


def compare(a, b, fmt):
    """-> list of differences between the original `a` and the re-imported `b` (per the property of that format)"""
    import pandas
    import pygaps
    diffs = []
    if type(a) is not type(b):
        return [f"class {type(b).__name__} != {type(a).__name__}"]
    # (the objects' own metadata next to their dictionary export: the export is part of what is being checked)
    da, db = {**dict(getattr(a, 'properties', {}) or {}), **a.to_dict()}, {**dict(getattr(b, 'properties', {}) or {}), **b.to_dict()}
    for k in sorted(set(da) | set(db)):
        va, vb = da.get(k, '<absent>'), db.get(k, '<absent>')
        if fmt != 'json' and isinstance(va, float) and isinstance(vb, (int, float)) and not isinstance(vb, bool):
            same = abs(va - vb) <= 1e-8 * max(1, abs(va)) or (va != va and vb != vb)
        elif fmt != 'json' and isinstance(va, int) and not isinstance(va, bool) and isinstance(vb, float):
            same = va == vb
        else:
            same = (va == vb or (isinstance(va, float) and isinstance(vb, float) and va != va and vb != vb)) and (fmt != 'json' or type(va) is type(vb))
        if not same:
            diffs.append(f"{k}: {va!r} -> {vb!r}")
    # equality is agreement of the identifiers
    try:
        if (a.iso_id == b.iso_id) != (a == b):
            diffs.append(f"identifiers agree: {a.iso_id == b.iso_id}, but a == b is {a == b}")
    except Exception as exc:
        diffs.append(f"equality: {type(exc).__name__}: {exc}"[:100])
    if isinstance(a, pygaps.PointIsotherm):
        ca, cb = list(a.data_raw.columns), list(b.data_raw.columns)
        if sorted(ca) != sorted(cb):
            diffs.append(f"columns {ca} -> {cb}")
        else:
            if len(a.data_raw) != len(b.data_raw):
                diffs.append(f"rows {len(a.data_raw)} -> {len(b.data_raw)}")
            else:
                for c in ca:
                    xa, xb = list(a.data_raw[c]), list(b.data_raw[c])
                    try:
                        fa, fb = [float(x) for x in xa], [float(y) for y in xb]
                        ok = all((x != x and y != y) or abs(x - y) <= 1e-8 for x, y in zip(fa, fb))  # a missing value stays missing
                    except (TypeError, ValueError):
                        ok = [str(x) for x in xa] == [str(y) for y in xb]
                    if ok and c != 'branch' and pandas.api.types.is_numeric_dtype(a.data_raw[c]) and not pandas.api.types.is_bool_dtype(a.data_raw[c]) \
                            and not pandas.api.types.is_numeric_dtype(b.data_raw[c]):
                        ok = False  # numbers came back as text
                    if not ok:
                        diffs.append(f"column {c}: {xa[:3]} -> {xb[:3]}")
    if isinstance(a, pygaps.ModelIsotherm):
        ma, mb = a.model, b.model
        if ma.name != mb.name:
            diffs.append(f"model {ma.name} -> {mb.name}")
        for p in ma.params:
            if abs(float(ma.params[p]) - float(mb.params.get(p, float('nan')))) > 1e-8 * max(1, abs(ma.params[p])):
                diffs.append(f"param {p}: {ma.params[p]} -> {mb.params.get(p)}")
        same_num = lambda u, v: len(u) == len(v) and all((x == y) or (x != x and y != y) for x, y in zip(map(float, u), map(float, v)))  # nan is nan
        if not same_num(ma.pressure_range, mb.pressure_range) or not same_num(ma.loading_range, mb.loading_range):
            diffs.append(f"ranges {ma.pressure_range, ma.loading_range} -> {mb.pressure_range, mb.loading_range}")
        if not same_num([ma.rmse], [mb.rmse]) and (fmt == 'json' or abs(float(ma.rmse) - float(mb.rmse)) > 1e-8 or (ma.rmse == ma.rmse) != (mb.rmse == mb.rmse)):
            diffs.append(f"rmse {ma.rmse} -> {mb.rmse}")
        if fmt == 'json':
            # every prediction of the model
            try:
                if ma.calculates == 'loading':
                    xs = numpy.linspace(0.05, 0.8, 5)
                    pa, pb = ma.loading(xs), mb.loading(xs)
                else:
                    xs = numpy.linspace(0.1, 0.6, 5)
                    pa, pb = ma.pressure(xs), mb.pressure(xs)
                if not numpy.allclose(numpy.asarray(pa, dtype=float), numpy.asarray(pb, dtype=float), rtol=1e-12, equal_nan=True):
                    diffs.append(f"predictions {list(map(float, pa))[:3]} -> {list(map(float, pb))[:3]}")
            except Exception as exc:
                diffs.append(f"prediction raised {type(exc).__name__}")
    if not diffs and a.iso_id != b.iso_id:
        diffs.append(f"iso_id {a.iso_id} -> {b.iso_id} although the content is equal")
    return diffs
