"""Verdict bookkeeping, evidence files, known findings, replay files, exit codes."""
from __future__ import annotations

import hashlib
import json
import os
import re
import subprocess
import sys
import time
from collections import Counter

ROOT = os.path.dirname(os.path.dirname(os.path.abspath(__file__)))
# PGV_OUT redirects everything a run writes (evidence, replay files); used when the checks are pointed at a scratch
# copy of the repository (mutation testing) so that /verif/evidence always comes from /repo itself
_OUT = os.environ.get('PGV_OUT') or ROOT
EVIDENCE_DIR = os.path.join(_OUT, 'evidence')
REPLAY_DIR = os.path.join(_OUT, 'replays')
KNOWN_FILE = os.path.join(ROOT, 'known_findings.json')
LEDGER_FILE = os.path.join(ROOT, 'baseline_obligations.json')

EXIT_OK, EXIT_VIOLATION, EXIT_UNDECIDED, EXIT_CRASH = 0, 1, 2, 3


def ob_key(name: str) -> str:
    """obligation name without the trailing path id"""
    return re.sub(r'/p\d+$', '', name)


def fc_key(name: str) -> str:
    """<prop>/<function>/<clause>"""
    return '/'.join(name.split('/')[:3])


def _safe(s):
    s2 = re.sub(r'[^A-Za-z0-9_.-]+', '_', s)
    if len(s2) > 120:
        s2 = s2[:100] + '_' + hashlib.md5(s.encode()).hexdigest()[:10]
    return s2


def _kf_matches(f, name, detail):
    """a listed finding is identified by the obligation / case name and, where the entry says so, by what was observed
    ('detail' regex): another failure of the same obligation is a different violation and is reported"""
    if not re.search(f['match'], name):
        return False
    if f.get('detail') is not None and not re.search(f['detail'], str(detail or '')):
        return False
    return True


def load_known():
    if not os.path.exists(KNOWN_FILE):
        return {'findings': [], 'fixed': []}
    with open(KNOWN_FILE) as f:
        return json.load(f)


def load_ledger():
    if not os.path.exists(LEDGER_FILE):
        return {}
    with open(LEDGER_FILE) as f:
        return json.load(f)


class Report:
    def __init__(self, prop, tier='quick', seed=0, level='proof', checker_cmd=None):
        self.prop = prop
        self.tier = tier
        self.seed = seed
        self.level = level
        self.t0 = time.time()
        self.obs = []  # dicts
        self.bounded = []  # dicts: name, ok, detail, replay
        self.functions = []
        self.inlined = []
        self.assumptions = []
        self.trusted = []
        self.shape_bounded = {}
        self.notes = []
        self.extra_cov = {}
        self.solver_time = 0.0
        self.checker_cmd = checker_cmd or f"./check {prop} --tier {tier}"
        self.crash = None

    # -- collecting ----------------------------------------------------------
    def add(self, ob):
        d = ob if isinstance(ob, dict) else ob.to_dict()
        self.obs.append(d)
        self.solver_time += d.get('time') or 0.0

    def extend(self, obs):
        for o in obs:
            self.add(o)

    def add_eval(self, name, ok, detail='', replay=None, backend='eval', model=None):
        """An obligation decided by exhaustive evaluation of a finite domain or by a static scan."""
        self.add({'name': name, 'verdict': 'proved' if ok else 'refuted', 'backend': backend, 'time': 0.0,
                  'model': model, 'detail': detail, 'pc': '', 'extra': {'replay': replay} if replay else {}})

    def add_bounded(self, name, ok, detail='', replay=None):
        self.bounded.append({'name': name, 'ok': bool(ok), 'detail': detail, 'replay': replay})

    def fn(self, *names):
        for n in names:
            if n not in self.functions:
                self.functions.append(n)

    def assume(self, *xs):
        for x in xs:
            if x not in self.assumptions:
                self.assumptions.append(x)

    def trust(self, *xs):
        for x in xs:
            if x not in self.trusted:
                self.trusted.append(x)

    # -- finishing -----------------------------------------------------------
    def finish(self, floor=None, update_ledger=False):
        known = load_known()
        ledger = load_ledger()
        kf = [k for k in known.get('findings', []) if k['property'] == self.prop]
        lines = []
        exit_code = EXIT_OK
        verdicts = Counter(o['verdict'] for o in self.obs)
        refuted = [o for o in self.obs if o['verdict'] == 'refuted']
        unknown = [o for o in self.obs if o['verdict'] in ('unknown', 'unsupported')]
        known_hits = {}
        known_bounded = {}
        violations = []
        # group refuted obligations by key (one report per function/clause/config)
        seen = set()
        for o in refuted:
            k = ob_key(o['name'])
            hit = None
            for f in kf:
                if _kf_matches(f, o['name'], o.get('detail')):
                    hit = f
                    break
            if hit:
                known_hits.setdefault(hit['id'], [hit, 0])[1] += 1
                o['known_finding'] = hit['id']
                continue
            if k in seen:
                continue
            seen.add(k)
            violations.append(o)
        for b in self.bounded:
            if not b['ok']:
                hit = None
                for f in kf:
                    if _kf_matches(f, b['name'], b.get('detail')):
                        hit = f
                        break
                if hit:
                    known_hits.setdefault(hit['id'], [hit, 0])[1] += 1
                    known_bounded[hit['id']] = known_bounded.get(hit['id'], 0) + 1
                    b['known_finding'] = hit['id']
                else:
                    violations.append({'name': b['name'], 'verdict': 'refuted', 'backend': 'bounded-rc',
                                       'detail': b['detail'], 'model': None, 'pc': '',
                                       'extra': {'replay': b.get('replay')}})
        for hid, (f, n) in known_hits.items():
            lines.append(f"KNOWN-FINDING: property={self.prop} {f['id']}: {f['what']} [{n} obligation(s)]")
        nviol = 0
        max_report = 25
        for o in violations:
            nviol += 1
            if nviol > max_report:
                continue
            path, confirmed = self._write_replay(o)
            suffix = '' if confirmed else ' no-failing-input-found'
            lines.append(f"VIOLATION property={self.prop} replay={path}{suffix}")
            lines.append(f"  obligation: {o['name']}  [{o.get('backend')}] {str(o.get('detail'))[:300]}")
            exit_code = EXIT_VIOLATION
        if nviol > max_report:
            lines.append(f"  ... and {nviol - max_report} further violated obligations (see evidence)")
        # undecided
        base_unknown = set(ledger.get(self.prop, {}).get('undecided', []))
        new_unknown = [o for o in unknown if ob_key(o['name']) not in base_unknown]
        if new_unknown and exit_code == EXIT_OK:
            exit_code = EXIT_UNDECIDED
        for o in new_unknown[:10]:
            lines.append(f"UNDECIDED property={self.prop} obligation={o['name']} ({str(o.get('detail'))[:200]})")
        # vacuity: obligation floor
        n_ob = len(self.obs)
        led = {} if update_ledger else ledger.get(self.prop, {})
        fl = floor if floor is not None else led.get('floor', {}).get(self.tier, 1)
        if n_ob < max(1, fl):
            lines.append(f"CHECKER-ERROR property={self.prop} only {n_ob} obligations generated (floor {fl})")
            if exit_code == EXIT_OK:
                exit_code = EXIT_CRASH
        # per function/clause disappearance (a contract that silently generates nothing)
        have = Counter(fc_key(o['name']) for o in self.obs)
        for fc in led.get('clauses', {}).get(self.tier, []):
            if have.get(fc, 0) == 0:
                lines.append(f"CHECKER-ERROR property={self.prop} no obligation generated for {fc}")
                if exit_code == EXIT_OK:
                    exit_code = EXIT_CRASH
        if self.crash:
            lines.append(f"CHECKER-ERROR property={self.prop} {self.crash}")
            if exit_code == EXIT_OK:
                exit_code = EXIT_CRASH
        self._known_bounded = known_bounded
        self._write_evidence(verdicts, violations, known_hits, unknown)
        bfail = [b for b in self.bounded if not b['ok']]
        if refuted or unknown or bfail:
            os.makedirs(os.path.join(REPLAY_DIR, self.prop), exist_ok=True)
            with open(os.path.join(REPLAY_DIR, self.prop, '_not_proved.json'), 'w') as f:
                json.dump([{'name': o['name'], 'verdict': o['verdict'], 'known': o.get('known_finding'),
                            'observed': (o.get('extra') or {}).get('observed'), 'detail': str(o.get('detail'))[:200]}
                           for o in (refuted + unknown)[:20000]] +
                          [{'name': b['name'], 'verdict': 'bounded-failed', 'known': b.get('known_finding'), 'observed': None,
                            'detail': str(b['detail'])[:300]} for b in bfail[:20000]], f, indent=0)
        if update_ledger:
            self._update_ledger(unknown)
        proved = verdicts.get('proved', 0)
        lines.append(
            f"{self.prop} [{self.tier}] obligations={n_ob} proved={proved} refuted={len(refuted)} "
            f"(known={sum(n for _f, n in known_hits.values())}) undecided={len(unknown)} "
            f"bounded={sum(1 for b in self.bounded if b['ok'])}/{len(self.bounded)} "
            f"wall={time.time() - self.t0:.1f}s exit={exit_code}")
        print('\n'.join(lines))
        sys.stdout.flush()
        return exit_code

    def _write_replay(self, o):
        d = os.path.join(REPLAY_DIR, self.prop)
        os.makedirs(d, exist_ok=True)
        path = os.path.join(d, _safe(ob_key(o['name'])) + '.json')
        spec = (o.get('extra') or {}).get('replay')
        doc = {
            'property': self.prop,
            'obligation': o['name'],
            'verdict': o['verdict'],
            'backend': o.get('backend'),
            'solver_output': {'model': o.get('model'), 'detail': o.get('detail'), 'path_condition': o.get('pc')},
            'replay': spec,
            'observed': (o.get('extra') or {}).get('observed'),
        }
        confirmed = False
        if spec:
            with open(path, 'w') as f:
                json.dump(doc, f, indent=1, default=str)
            try:
                p = subprocess.run([sys.executable, '-m', 'pgv.replay', path, '--json'], cwd=ROOT,
                                   capture_output=True, text=True, timeout=300,
                                   env=dict(os.environ, PYTHONPATH=f"{os.environ.get('PGV_REPO', '/repo')}/src:{ROOT}"))
                res = json.loads(p.stdout.strip().splitlines()[-1]) if p.stdout.strip() else {
                    'confirmed': False, 'error': p.stderr[-500:]}
            except Exception as exc:  # pragma: no cover
                res = {'confirmed': False, 'error': repr(exc)}
            doc['native_replay'] = res
            confirmed = bool(res.get('confirmed'))
        with open(path, 'w') as f:
            json.dump(doc, f, indent=1, default=str)
        return os.path.relpath(path, _OUT), confirmed

    def _write_evidence(self, verdicts, violations, known_hits, unknown):
        os.makedirs(EVIDENCE_DIR, exist_ok=True)
        n_ob = len(self.obs)
        proved = verdicts.get('proved', 0)
        by_backend = Counter(o.get('backend', '?') for o in self.obs if o['verdict'] == 'proved')
        keys = set(ob_key(o['name']) for o in self.obs)
        samples = []
        step = max(1, n_ob // 8)
        for o in self.obs[::step][:8]:
            samples.append({'obligation': o['name'], 'verdict': o['verdict'], 'backend': o.get('backend'),
                            'path_condition': o.get('pc', '')[:400]})
        for o in [o for o in self.obs if o['verdict'] != 'proved'][:6]:
            samples.append({'obligation': o['name'], 'verdict': o['verdict'], 'model': o.get('model'),
                            'detail': str(o.get('detail'))[:300], 'known_finding': o.get('known_finding')})
        for b in self.bounded[:3]:
            samples.append({'bounded_case': b['name'], 'ok': b['ok'], 'detail': str(b['detail'])[:200]})
        kb = getattr(self, '_known_bounded', {})
        n_known = sum(n - kb.get(hid, 0) for hid, (_f, n) in known_hits.items())  # refuted *obligations* listed as known findings
        n_claimed = n_ob - n_known  # obligations of the claim: everything generated minus the listed known findings
        all_discharged = proved == n_claimed and n_claimed > 0
        level = self.level
        cov = {
            'obligations': n_claimed,
            'discharged': proved,
            'obligations_generated': n_ob,
            'obligations_refuted_as_known_findings': n_known,
            'refuted': verdicts.get('refuted', 0),
            'refuted_known_findings': {hid: n for hid, (_f, n) in known_hits.items()},
            'undecided': len(unknown),
            'checker_cmd': self.checker_cmd,
            'trusted_base': self.trusted,
            'by_backend': dict(by_backend),
            'solver_time_s': round(self.solver_time, 3),
            'functions_under_contract': self.functions,
            'inlined_helpers': self.inlined,
            'shape_bounded': self.shape_bounded,
            'bounded': {'cases': len(self.bounded), 'passed': sum(1 for b in self.bounded if b['ok']),
                        'failed_known_findings': sum(kb.values()),
                        'note': 'bounded stand-in (run-time contracts on real code); never counted as proved'},
            'evaluations': n_ob + len(self.bounded),
            'distinct_nontrivial': len(keys) + len(set(b['name'] for b in self.bounded)),
            'rule': 'one obligation per (function, contract clause, configuration, feasible path); distinct = '
                    'distinct (function, clause, configuration) keys; non-trivial = not closed by constant folding alone '
                    'is NOT separately measured, so every key is counted once',
            'samples': samples,
            'explanation': '; '.join(self.notes) if self.notes else
                           'contract obligations generated by symbolic execution of the real code objects',
        }
        cov.update(self.extra_cov)
        if level == 'proof' and not all_discharged:
            # a proof-level evidence file needs obligations == discharged; otherwise say what it is
            level = 'other'
            cov['explanation'] = (
                f"{proved} of {n_claimed} obligations discharged (plus {n_known} refuted obligations that are listed known findings); "
                f"the rest are new violations or undecided. " + cov['explanation'])
        doc = {
            'property_id': self.prop,
            'tier': self.tier,
            'seed': int(self.seed),
            'level': level,
            'coverage': cov,
            'assumptions': self.assumptions,
            'wall_s': round(time.time() - self.t0, 2),
            'violations': len(violations),
        }
        with open(os.path.join(EVIDENCE_DIR, f"{self.prop}.json"), 'w') as f:
            json.dump(doc, f, indent=1, default=str)

    def _update_ledger(self, unknown):
        ledger = load_ledger()
        led = ledger.setdefault(self.prop, {})
        n_ob = len(self.obs)
        led.setdefault('floor', {})[self.tier] = int(n_ob * 0.5)
        led.setdefault('clauses', {})[self.tier] = sorted(set(fc_key(o['name']) for o in self.obs))
        led['undecided'] = sorted(set(ob_key(o['name']) for o in unknown))
        led.setdefault('count', {})[self.tier] = n_ob
        with open(LEDGER_FILE, 'w') as f:
            json.dump(ledger, f, indent=1, sort_keys=True)
