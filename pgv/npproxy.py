"""A stand-in for the `numpy` module object inside a pyGAPS module under symbolic execution.

Everything falls through to real numpy except the few functions whose C implementation cannot work
on symbolic elements; those are re-stated by their definition (assumed numpy contract):
log/exp/sqrt/log10/power/abs element-wise, isnan / nan_to_num on the explicit NaN object,
sum (booleans are counted by forking), zeros_like, maximum/minimum, isclose (exact equality).
Works for SX values (SymReal) and for sympy expressions (CAS engine).
"""
from __future__ import annotations

import numpy as _np

from pgv import sx


class NumpyContractError(ValueError):
    """an exception numpy itself raises for this call (re-stated here because the re-stated routine stands in for numpy's)"""
    _pgv_contract = True


def _is_sym(x):
    return isinstance(x, (sx.SymReal, sx.SymBool, sx.NaNValue))


def _has_sym(args):
    for x in args:
        if _is_sym(x):
            return True
        if isinstance(x, _np.ndarray) and x.dtype == object and any(_is_sym(v) for v in x.flat):
            return True
        if isinstance(x, (list, tuple)) and _has_sym(x):
            return True
    return False


def _elementwise(f):
    def g(x, *a, **k):
        if isinstance(x, _np.ndarray):
            if x.dtype != object:
                x = x.astype(object)
            out = _np.empty(x.shape, dtype=object)
            for i, v in enumerate(x.flat):
                out.flat[i] = f(v)
            if x.ndim == 0:
                return out[()]
            return out
        if isinstance(x, (list, tuple)):
            return g(_np.array(x, dtype=object))
        if hasattr(x, '_map'):  # SeriesStub
            return x._map(f)
        return f(x)
    return g


class NumpyProxy:
    def __init__(self, mode='sx'):
        self._mode = mode
        if mode == 'sympy':
            import sympy
            self._sp = sympy

    def __getattr__(self, name):
        attr = getattr(_np, name)
        if callable(attr) and not isinstance(attr, type):
            # a numpy routine without a re-statement here: fine on concrete numbers, "unsupported" (undecided, never a
            # crash and never a verdict) when its C implementation rejects symbolic elements
            def guarded(*a, **k):
                try:
                    return attr(*a, **k)
                except TypeError as exc:
                    if _has_sym(a) or _has_sym(tuple(k.values())):
                        raise sx.Unsupported(f"numpy.{name} on symbolic values: {exc}") from None
                    raise
            guarded.__name__ = name
            return guarded
        return attr

    # ---- sign handling ------------------------------------------------------------
    def copysign(self, x, y, *a, **k):
        if hasattr(x, '_map') or hasattr(y, '_map'):
            raise sx.Unsupported("numpy.copysign on a Series")
        if isinstance(x, (_np.ndarray, list, tuple)) or isinstance(y, (_np.ndarray, list, tuple)):
            xa, ya = _np.asarray(x, dtype=object), _np.asarray(y, dtype=object)
            b = _np.broadcast(xa, ya)
            out = _np.empty(b.shape, dtype=object)
            out.flat = [self.copysign(u, v) for u, v in b]
            return out
        if not (_is_sym(x) or _is_sym(y)) and self._mode != 'sympy':
            return _np.copysign(x, y)
        if self._mode == 'sympy' and not _is_sym(x) and not _is_sym(y):
            return self._sp.Piecewise((self._sp.Abs(x), y >= 0), (-self._sp.Abs(x), True))
        ax = abs(x)
        return ax if y >= 0 else -ax

    def _minmax(self, x, y, smaller):
        def one(u, v):
            if self._mode == 'sympy' and not (_is_sym(u) or _is_sym(v)):
                return (self._sp.Min if smaller else self._sp.Max)(u, v)
            if not (_is_sym(u) or _is_sym(v)):
                return (_np.minimum if smaller else _np.maximum)(u, v)
            return (u if u <= v else v) if smaller else (u if u >= v else v)
        if isinstance(x, (_np.ndarray, list, tuple)) or isinstance(y, (_np.ndarray, list, tuple)):
            xa, ya = _np.asarray(x, dtype=object), _np.asarray(y, dtype=object)
            b = _np.broadcast(xa, ya)
            out = _np.empty(b.shape, dtype=object)
            out.flat = [one(u, v) for u, v in b]
            return out
        return one(x, y)

    def minimum(self, x, y, *a, **k):
        if self._mode != 'sympy' and not _has_sym((x, y)):
            return _np.minimum(x, y, *a, **k)
        return self._minmax(x, y, True)

    def maximum(self, x, y, *a, **k):
        if self._mode != 'sympy' and not _has_sym((x, y)):
            return _np.maximum(x, y, *a, **k)
        return self._minmax(x, y, False)

    def sign(self, x, *a, **k):
        def one(v):
            if self._mode == 'sympy' and not _is_sym(v):
                return self._sp.sign(v)
            if not _is_sym(v):
                return _np.sign(v)
            return 1 if v > 0 else (-1 if v < 0 else 0)
        return _elementwise(one)(x)

    # ---- transcendental ---------------------------------------------------------
    def _log1(self, v):
        if self._mode == 'sympy' and not _is_sym(v):
            return self._sp.log(v)
        if isinstance(v, (int, float)) and not _is_sym(v):
            return sx.sym_log(sx.SymReal(v)) if sx._CUR is not None else _np.log(v)
        return sx.sym_log(v)

    def _exp1(self, v):
        if self._mode == 'sympy' and not _is_sym(v):
            return self._sp.exp(v)
        if isinstance(v, (int, float)) and not _is_sym(v):
            return sx.sym_exp(sx.SymReal(v)) if sx._CUR is not None else _np.exp(v)
        return sx.sym_exp(v)

    def _sqrt1(self, v):
        if self._mode == 'sympy' and not _is_sym(v):
            return self._sp.sqrt(v)
        if isinstance(v, (int, float)) and not _is_sym(v):
            return sx.sym_sqrt(sx.SymReal(v)) if sx._CUR is not None else _np.sqrt(v)
        return sx.sym_sqrt(v)

    def log(self, x, *a, **k):
        return _elementwise(self._log1)(x)

    def exp(self, x, *a, **k):
        return _elementwise(self._exp1)(x)

    def sqrt(self, x, *a, **k):
        return _elementwise(self._sqrt1)(x)

    def log10(self, x, *a, **k):
        return _elementwise(lambda v: self._log1(v) / self._log1(10))(x)

    def power(self, x, y, *a, **k):
        if isinstance(y, _np.ndarray):
            raise sx.Unsupported("numpy.power with array exponent")
        return _elementwise(lambda v: v ** y)(x)

    def abs(self, x, *a, **k):
        return _elementwise(abs)(x)

    absolute = abs

    # ---- NaN handling -----------------------------------------------------------
    def isnan(self, x, *a, **k):
        r = _elementwise(lambda v: isinstance(v, sx.NaNValue) or (isinstance(v, float) and v != v))(x)
        return _np.asarray(r, dtype=bool)

    def isfinite(self, x, *a, **k):
        # a symbolic real is a finite number; the undefined results (nan, and the +-inf a division by zero may give) are not
        if not _has_sym((x,)) and not isinstance(x, sx.NaNValue):
            return _np.isfinite(x, *a, **k)
        r = _elementwise(lambda v: not isinstance(v, sx.NaNValue) and not (isinstance(v, float) and (v != v or v in (float('inf'), float('-inf')))))(x)
        return _np.asarray(r, dtype=bool)

    def nan_to_num(self, x, copy=True, nan=0.0, **k):
        def repl(v):
            # nan -> 0; the undefined result of a division by zero may be nan or +-inf in numpy, i.e. 0 or +-1.8e308
            # after nan_to_num: modelled as an unconstrained fresh real (sound over-approximation)
            if v.kind == 'nan':
                return nan
            big = sx.cur().fresh('inf_')  # +-inf -> +-1.8e308
            sx.cur().assume(big.e * big.e > sx._rv(10) ** 600)
            return big
        if isinstance(x, _np.ndarray) and x.dtype == object:
            tgt = x.copy() if copy else x
            for i, v in enumerate(tgt.flat):
                if isinstance(v, sx.NaNValue):
                    tgt.flat[i] = repl(v)
            if tgt.ndim == 0:
                return tgt[()]
            return tgt
        if not copy and not isinstance(x, _np.ndarray) and (_is_sym(x) or isinstance(x, (int, float, _np.generic))) and self._mode != 'sympy':
            # numpy >= 2: nan_to_num(<scalar>, copy=False) raises -- the scalar cannot be converted to an array without a copy
            # (arithmetic on 0-d arrays gives scalars, so this is where a 0-d / scalar argument ends up)
            if _np.lib.NumpyVersion(_np.__version__) >= '2.0.0':
                raise NumpyContractError("Unable to avoid copy while creating an array as requested.")
        if isinstance(x, sx.NaNValue):
            return repl(x)
        if _is_sym(x) or (self._mode == 'sympy'):
            return x
        return _np.nan_to_num(x, copy=copy, nan=nan, **k)

    # ---- reductions ---------------------------------------------------------------
    def sum(self, x, *a, **k):
        if isinstance(x, _np.ndarray) and x.dtype == object and not a and not k:
            vals = list(x.flat)
            if vals and all(isinstance(v, (sx.SymBool, bool, _np.bool_)) for v in vals):
                return sum(1 for v in vals if bool(v))  # forks per symbolic element; result is a concrete int
            tot = 0
            for v in vals:
                tot = tot + v
            return tot
        return _np.sum(x, *a, **k)

    def zeros_like(self, x, *a, **k):
        if isinstance(x, _np.ndarray) and x.dtype == object:
            out = _np.empty(x.shape, dtype=object)
            for i in range(out.size):
                out.flat[i] = 0
            return out
        if _is_sym(x):
            return 0
        return _np.zeros_like(x, *a, **k)

    def zeros(self, shape, *a, **k):
        if sx._CUR is None:
            return _np.zeros(shape, *a, **k)
        out = _np.empty(shape, dtype=object)
        for i in range(out.size):
            out.flat[i] = 0
        return out

    def any(self, x, *a, **k):
        if isinstance(x, _np.ndarray) and x.dtype == object:
            return any(bool(v) for v in x.flat)
        if isinstance(x, sx.SymBool):
            return bool(x)
        return _np.any(x, *a, **k)

    def all(self, x, *a, **k):
        if isinstance(x, _np.ndarray) and x.dtype == object:
            return all(bool(v) for v in x.flat)
        if isinstance(x, sx.SymBool):
            return bool(x)
        return _np.all(x, *a, **k)

    def isclose(self, a, b, rtol=1e-05, atol=1e-08, equal_nan=False):
        # numpy's documented definition: |a - b| <= atol + rtol * |b| (element-wise, default tolerances included)
        if not _has_sym((a, b)):
            return _np.isclose(a, b, rtol=rtol, atol=atol, equal_nan=equal_nan)
        from fractions import Fraction as _F
        rt, at = _F(str(rtol)), _F(str(atol))

        def one(u, v):
            if isinstance(u, sx.NaNValue) or isinstance(v, sx.NaNValue):
                return False
            return abs(u - v) <= at + rt * abs(v)
        if isinstance(a, (_np.ndarray, list, tuple)) or isinstance(b, (_np.ndarray, list, tuple)):
            xa, xb = _np.asarray(a, dtype=object), _np.asarray(b, dtype=object)
            br = _np.broadcast(xa, xb)
            out = _np.empty(br.shape, dtype=object)
            out.flat = [one(u, v) for u, v in br]
            return out
        return one(a, b)

    def asarray(self, x, *a, **k):
        if _is_sym(x):
            out = _np.empty((), dtype=object)
            out[()] = x
            return out
        if hasattr(x, '_v') and hasattr(x, 'values'):
            return x.values
        if _has_sym((x,)):
            # symbolic elements stand for floats: an ndarray of them *is* already of the requested float type, and
            # numpy.asarray returns such an array itself (aliasing!); a list / tuple gives a new array
            if isinstance(x, _np.ndarray):
                return x
            return _np.asarray(x, dtype=object)
        return _np.asarray(x, *a, **k)

    def array(self, x, *a, **k):
        if _is_sym(x):
            return self.asarray(x)
        return _np.array(x, *a, **k)
