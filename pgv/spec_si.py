"""Independent SI specification of the representations pyGAPS converts between.

Written from SI / CODATA definitions, *not* read from /repo.  Everything is an exact
`Fraction` (or symbolic); spec functions work on SymReal, sympy and Fractions alike.
"""
from fractions import Fraction as F

# pressure units in Pa
U_P = {
    'Pa': F(1), 'kPa': F(1000), 'MPa': F(10)**6, 'mbar': F(100), 'bar': F(10)**5,
    'atm': F(101325), 'mmHg': F('133.322387415'), 'torr': F(101325, 760),
}
# amount units in mol.  (STP) = 0 degC, 1 atm: molar volume of an ideal gas 22413.969.. cm3/mol
_VM_STP = F('22413.96954')  # cm3/mol (CODATA 2018, 273.15 K, 101325 Pa)
U_N = {
    'mmol': F(1, 1000), 'mol': F(1), 'kmol': F(1000),
    'cm3(STP)': 1 / _VM_STP, 'mL(STP)': 1 / _VM_STP, 'cc(STP)': 1 / _VM_STP, 'L(STP)': 1000 / _VM_STP,
}
# mass units in g
U_M = {'amu': F('1.66053906660e-24'), 'mg': F(1, 1000), 'cg': F(1, 100), 'dg': F(1, 10), 'g': F(1), 'kg': F(1000)}
# volume units in cm3
U_V = {'cm3': F(1), 'mL': F(1), 'cc': F(1), 'dm3': F(1000), 'L': F(1000), 'm3': F(10)**6}



class Tables:
    """Unit magnitudes.  `SI` holds the SI values; a check may instantiate the *structure* of the spec
    with the code's own (lifted) tables after proving each entry equals the SI value to the last digit."""

    def __init__(self, U_P, U_N, U_M, U_V):
        self.U_P, self.U_N, self.U_M, self.U_V = U_P, U_N, U_M, U_V


SI = Tables(U_P, U_N, U_M, U_V)

PRESSURE_MODES = {'absolute': U_P, 'relative': None, 'relative%': None}
LOADING_BASES = {'molar': U_N, 'mass': U_M, 'volume_gas': U_V, 'volume_liquid': U_V, 'fraction': None, 'percent': None}
MATERIAL_BASES = {'mass': U_M, 'volume': U_V, 'molar': U_N}


def pressure_reprs():
    return [('absolute', u) for u in U_P] + [('relative', None), ('relative%', None)]


def loading_reprs():
    out = []
    for b, t in LOADING_BASES.items():
        if t is None:
            out.append((b, None))
        else:
            out.extend((b, u) for u in t)
    return out


def material_reprs():
    return [(b, u) for b, t in MATERIAL_BASES.items() for u in t]


def last_digit_tolerance(text: str) -> F:
    """One unit in the last decimal place of a numeric literal as written in the source."""
    t = text.strip().lower().replace('_', '')
    exp = 0
    if 'e' in t:
        t, e = t.split('e')
        exp = int(e)
    if '.' in t:
        decimals = len(t.split('.')[1])
    else:
        decimals = 0
    return F(10) ** (exp - decimals)


class Ads:
    """Adsorbate constants at the isotherm temperature (symbols > 0), rho = rhobar * M."""

    def __init__(self, p_sat, M, rhobar_l, rhobar_g):
        self.p_sat, self.M, self.rhobar_l, self.rhobar_g = p_sat, M, rhobar_l, rhobar_g

    @property
    def rho_l(self):
        return self.rhobar_l * self.M

    @property
    def rho_g(self):
        return self.rhobar_g * self.M


class Mat:
    def __init__(self, rho, M):
        self.rho, self.M = rho, M


def canon_p(v, mode, unit, ads: Ads, T=SI):
    """pressure -> Pa"""
    if mode == 'absolute':
        return v * T.U_P[unit]
    if mode == 'relative':
        return v * ads.p_sat
    if mode == 'relative%':
        return v * ads.p_sat / 100
    raise KeyError(mode)


def mol(v, basis, unit, ads: Ads, T=SI):
    """amount of adsorbate -> mol"""
    if basis == 'molar':
        return v * T.U_N[unit]
    if basis == 'mass':
        return v * T.U_M[unit] / ads.M
    if basis == 'volume_gas':
        return v * T.U_V[unit] * ads.rhobar_g
    if basis == 'volume_liquid':
        return v * T.U_V[unit] * ads.rhobar_l
    raise KeyError(basis)


def gram_s(basis, unit, mat: Mat, T=SI):
    """grams of solid per one material unit"""
    if basis == 'mass':
        return T.U_M[unit]
    if basis == 'volume':
        return T.U_V[unit] * mat.rho
    if basis == 'molar':
        return T.U_N[unit] * mat.M
    raise KeyError(basis)


AS_LOADING = {'mass': 'mass', 'volume': 'volume_liquid', 'molar': 'molar'}


def canon_l(v, lb, lu, mb, mu, ads: Ads, mat: Mat, T=SI):
    """loading -> mol adsorbate per g solid"""
    if lb in ('fraction', 'percent'):
        f = v if lb == 'fraction' else v / 100
        return mol(f, AS_LOADING[mb], mu, ads, T) / gram_s(mb, mu, mat, T)
    return mol(v, lb, lu, ads, T) / gram_s(mb, mu, mat, T)


def canon_amount(v, lb, lu, mb, mu, ads: Ads, T=SI):
    """`c_loading` semantic: amount of adsorbate in mol *per one material unit* (material repr fixed)."""
    if lb in ('fraction', 'percent'):
        f = v if lb == 'fraction' else v / 100
        if mb is None:
            return f  # fraction <-> percent: the material representation is not involved
        return mol(f, AS_LOADING[mb], mu, ads, T)
    return mol(v, lb, lu, ads, T)


def kelvin(t, unit):
    if unit == 'K':
        return t
    if unit == '°C':
        return t + F('273.15')
    raise KeyError(unit)
