"""Static frame checker: a conservative, modular AST analysis of what a function may write through
its parameters (modifies clause) and which module-level mutable state it writes.

Per function it computes the set of parameter-rooted locations that may be written:
  * attribute / subscript stores and augmented assignments through parameters and their aliases,
  * calls of known in-place methods on them (list/dict/DataFrame mutators, `inplace=True`),
  * calls of in-repo methods whose own summary writes `self` (e.g. PointIsotherm.convert_*),
  * calls of in-repo functions whose summary writes the corresponding parameter (fixpoint).
A name re-bound to a fresh object stops being an alias.  Results of the accessor methods listed in
FRESH are assumed to be fresh objects (listed as an assumption).  Everything unknown that is called
*on* a tracked object is recorded as 'assumed pure' (never as a violation).
"""
from __future__ import annotations

import ast
import inspect
import textwrap

INPLACE_METHODS = {
    'append', 'extend', 'insert', 'remove', 'pop', 'clear', 'update', 'sort', 'reverse', 'setdefault', 'popitem',
    '__setitem__', '__delitem__', 'add', 'discard', 'fill', 'resize', 'put', 'itemset', 'setflags', 'partition',
}
INPLACE_KW = {'inplace'}
# methods whose result does not alias the receiver (documented to return new objects / immutable values)
FRESH = {
    'to_dict', 'copy', 'deepcopy', 'pressure', 'loading', 'other_data', 'pressure_at', 'loading_at', 'spreading_pressure_at',
    'has_branch', 'get', 'keys', 'items', 'lower', 'upper', 'format', 'split', 'strip', 'startswith', 'endswith', 'join',
    'tolist', 'astype', 'round', 'reindex', 'dropna', 'fillna', 'max', 'min', 'sum', 'mean', 'to_json', 'to_csv',
    'to_aif', 'to_xl', 'to_db', 'get_prop', 'saturation_pressure', 'molar_mass', 'liquid_density', 'gas_density',
    'liquid_molar_density', 'gas_molar_density', 'surface_tension', 'enthalpy_liquefaction', 'enthalpy_vaporisation',
    'p_triple', 't_triple', 'p_critical', 't_critical', 'find', 'initial_guess', 'initial_guess_bounds', 'data',
    'index', 'count', 'equals', 'iso_id', 'print_info', 'plot', 'isin', 'between', 'idxmax', 'idxmin', 'get_loc',
    'from_isotherm', 'from_pointisotherm', 'from_modelisotherm', 'guess',
}
FRESH_ATTRS = {'units', 'iso_id', 'temperature', 'name', 'shape', 'size', 'empty', 'columns', 'formula', 'backend_name',
               'density', 'backend'}  # 'backend': the CoolProp state is a cache (typestate verified separately)
ALIAS_FUNCS = {'asarray', 'asanyarray', 'ascontiguousarray', 'atleast_1d', 'ravel', 'squeeze'}
CACHE_FIELDS = {'l_interpolator', 'p_interpolator', '_state', '_backend_mode'}
GLOBAL_MUTABLES = {'ADSORBATE_LIST', 'MATERIAL_LIST', '_LOADED', 'COOLPROP_BACKEND'}


class Summary:
    def __init__(self, qual, params):
        self.qual = qual
        self.params = params
        self.writes = {}  # param -> list of (lineno, what)
        self.self_fields = set()  # for methods: attribute names assigned on self
        self.globals_written = []  # (name, lineno, what)
        self.globals_read = set()
        self.assumed_pure = set()
        self.calls_repo = []  # (callee simple name, [arg roots per position], kw roots, lineno, receiver roots)

    def add_write(self, roots, lineno, what):
        for r in roots:
            self.writes.setdefault(r, []).append((lineno, what))


class Analyzer:
    def __init__(self):
        self.funcs = {}  # qualname -> (ast.FunctionDef, module name, class name or None)
        self.by_simple = {}
        self.summaries = {}
        self.module_mutables = {}  # module name -> names bound at module level to a mutable container

    def add_module(self, module):
        src = inspect.getsource(module)
        tree = ast.parse(src)
        mname = module.__name__
        muts = set()
        for node in tree.body:
            tg, val = [], None
            if isinstance(node, ast.Assign):
                tg, val = node.targets, node.value
            elif isinstance(node, ast.AnnAssign) and node.value is not None:
                tg, val = [node.target], node.value
            if val is not None and (isinstance(val, (ast.Dict, ast.List, ast.Set, ast.DictComp, ast.ListComp, ast.SetComp)) or (
                    isinstance(val, ast.Call) and isinstance(val.func, ast.Name) and val.func.id in ('dict', 'list', 'set', 'defaultdict', 'OrderedDict'))):
                muts |= {t.id for t in tg if isinstance(t, ast.Name)}
        self.module_mutables[mname] = muts
        for node in tree.body:
            if isinstance(node, ast.FunctionDef):
                self._add(node, mname, None)
            elif isinstance(node, ast.ClassDef):
                for sub in node.body:
                    if isinstance(sub, ast.FunctionDef):
                        self._add(sub, mname, node.name)

    def _add(self, node, mname, cls):
        setter = any(isinstance(d, ast.Attribute) and d.attr == 'setter' for d in node.decorator_list)
        name = node.name + ('.setter' if setter else '')
        qual = f"{mname}.{cls + '.' if cls else ''}{name}"
        self.funcs[qual] = (node, mname, cls)
        self.by_simple.setdefault(name, []).append(qual)  # setters are reached by assignment, not by call

    # -- intraprocedural pass ------------------------------------------------------
    def analyze_all(self, rounds=4):
        for qual, (node, mname, cls) in self.funcs.items():
            self.summaries[qual] = self._analyze(qual, node)
        # propagate through calls to in-repo functions / methods until stable
        for _ in range(rounds):
            changed = False
            for qual, s in self.summaries.items():
                for (callee, arg_roots, kw_roots, lineno, recv_roots) in s.calls_repo:
                    for cq in self.by_simple.get(callee, []):
                        cs = self.summaries.get(cq)
                        if cs is None:
                            continue
                        cnode = self.funcs[cq][0]
                        is_method = self.funcs[cq][2] is not None and cs.params and cs.params[0] in ('self', 'cls')
                        pos_params = cs.params[1:] if is_method else cs.params
                        if is_method and recv_roots:
                            fields = {f for f in cs.self_fields if f.split('.')[-1].split('[')[0] not in CACHE_FIELDS
                                      and not any(f.startswith('self.' + c) for c in CACHE_FIELDS)}
                            if fields:
                                what = f"calls {cq} which modifies self ({sorted(fields) or 'in place'})"
                                before = sum(len(v) for v in s.writes.values())
                                for r in recv_roots:
                                    if not any(w[1] == what for w in s.writes.get(r, [])):
                                        s.writes.setdefault(r, []).append((lineno, what))
                                changed |= sum(len(v) for v in s.writes.values()) != before
                        for i, roots in enumerate(arg_roots):
                            if i < len(pos_params) and roots and pos_params[i] in cs.writes:
                                what = f"passes it to {cq}({pos_params[i]}) which writes it"
                                for r in roots:
                                    if not any(w[1] == what for w in s.writes.get(r, [])):
                                        s.writes.setdefault(r, []).append((lineno, what))
                                        changed = True
                        for k, roots in kw_roots.items():
                            if roots and k in cs.writes:
                                what = f"passes it to {cq}({k}=) which writes it"
                                for r in roots:
                                    if not any(w[1] == what for w in s.writes.get(r, [])):
                                        s.writes.setdefault(r, []).append((lineno, what))
                                        changed = True
            if not changed:
                break

    def _analyze(self, qual, fnode):
        a = fnode.args
        params = [x.arg for x in a.posonlyargs + a.args + a.kwonlyargs]
        s = Summary(qual, params)
        env = {p: {p} for p in params}
        if a.vararg:
            env[a.vararg.arg] = set()
        if a.kwarg:
            env[a.kwarg.arg] = set()  # the ** dict is owned by the callee
        declared_global = set()
        w = _Walker(self, s, env, declared_global)
        w.mutables = GLOBAL_MUTABLES | self.module_mutables.get(self.funcs[qual][1] if qual in self.funcs else '', set())
        w.run(fnode.body)
        return s


class _Walker:
    def __init__(self, an, summary, env, declared_global):
        self.an = an
        self.s = summary
        self.env = env
        self.glob = declared_global
        self.mutables = GLOBAL_MUTABLES

    # roots of an expression: which parameters it may alias
    def roots(self, e):
        if isinstance(e, ast.Name):
            return set(self.env.get(e.id, set()))
        if isinstance(e, ast.Attribute):
            if e.attr in FRESH_ATTRS:
                return set()
            return self.roots(e.value)
        if isinstance(e, ast.Subscript):
            return self.roots(e.value)
        if isinstance(e, ast.Starred):
            return self.roots(e.value)
        if isinstance(e, (ast.Tuple, ast.List)):
            out = set()
            for x in e.elts:
                out |= self.roots(x)
            return out
        if isinstance(e, ast.IfExp):
            return self.roots(e.body) | self.roots(e.orelse)
        if isinstance(e, ast.BoolOp):
            out = set()
            for x in e.values:
                out |= self.roots(x)
            return out
        if isinstance(e, ast.NamedExpr):
            return self.roots(e.value)
        if isinstance(e, ast.Call):
            f = e.func
            if isinstance(f, ast.Attribute):
                if f.attr in ALIAS_FUNCS and e.args:
                    return self.roots(e.args[0])
                if f.attr == 'to_dict' and isinstance(f.value, ast.Attribute) and f.value.attr == 'model':
                    # IsothermBaseModel.to_dict() hands out the live parameter dictionary ('parameters': self.params):
                    # its result aliases the model, hence the isotherm that owns it
                    return self.roots(f.value)
                if f.attr in FRESH or f.attr in INPLACE_METHODS:
                    return set()
                r = self.roots(f.value)
                if r and f.attr in ('loc', 'iloc', 'values', 'view', 'reshape', 'T'):
                    return r
                return set()  # method results are treated as fresh (assumption; receiver recorded in visit_call)
            if isinstance(f, ast.Name) and f.id in ('vars', 'iter', 'reversed') and e.args:
                return self.roots(e.args[0])  # vars(obj) *is* obj.__dict__
            return set()
        return set()

    def run(self, body):
        for st in body:
            self.stmt(st)

    def stmt(self, st):
        if isinstance(st, ast.Global):
            self.glob |= set(st.names)
        elif isinstance(st, (ast.Assign, ast.AnnAssign)):
            value = st.value
            if value is not None:
                self.expr(value)
            targets = st.targets if isinstance(st, ast.Assign) else [st.target]
            for t in targets:
                self.store(t, value, st.lineno)
        elif isinstance(st, ast.AugAssign):
            self.expr(st.value)
            if isinstance(st.target, ast.Name):
                r = self.roots(st.target)
                if r:
                    self.s.add_write(r, st.lineno, f"augmented assignment to alias '{st.target.id}' (in place for arrays/lists)")
                if st.target.id in self.glob or st.target.id in self.mutables:
                    self.s.globals_written.append((st.target.id, st.lineno, 'augmented assignment'))
            else:
                self.store(st.target, None, st.lineno)
        elif isinstance(st, ast.Delete):
            for t in st.targets:
                if isinstance(t, (ast.Attribute, ast.Subscript)):
                    self.store(t, None, st.lineno, what='del')
        elif isinstance(st, ast.Expr):
            self.expr(st.value)
        elif isinstance(st, (ast.If, ast.While)):
            self.expr(st.test)
            self.run(st.body)
            self.run(st.orelse)
        elif isinstance(st, ast.For):
            self.expr(st.iter)
            r = self.roots(st.iter)
            self.bind(st.target, r)
            self.run(st.body)
            self.run(st.orelse)
        elif isinstance(st, ast.With):
            for it in st.items:
                self.expr(it.context_expr)
                if it.optional_vars is not None:
                    self.bind(it.optional_vars, set())
            self.run(st.body)
        elif isinstance(st, ast.Try):
            self.run(st.body)
            for h in st.handlers:
                self.run(h.body)
            self.run(st.orelse)
            self.run(st.finalbody)
        elif isinstance(st, ast.Return):
            if st.value is not None:
                self.expr(st.value)
        elif isinstance(st, ast.Raise):
            if st.exc is not None:
                self.expr(st.exc)
        elif isinstance(st, (ast.FunctionDef, ast.Lambda)):
            # nested function: analysed in the same environment (closures see the aliases)
            self.run(st.body if isinstance(st, ast.FunctionDef) else [])

    def bind(self, target, roots):
        if isinstance(target, ast.Name):
            self.env[target.id] = set(roots)
        elif isinstance(target, (ast.Tuple, ast.List)):
            for x in target.elts:
                self.bind(x, roots)

    def store(self, target, value, lineno, what='store'):
        if isinstance(target, ast.Name):
            r = self.roots(value) if value is not None else set()
            self.env[target.id] = r
            if target.id in self.glob:
                self.s.globals_written.append((target.id, lineno, 'assignment to global'))
        elif isinstance(target, (ast.Tuple, ast.List)):
            for x in target.elts:
                self.store(x, value, lineno, what)
        elif isinstance(target, (ast.Attribute, ast.Subscript)):
            base = target.value
            r = self.roots(base)
            desc = ast.unparse(target)
            if r:
                self.s.add_write(r, lineno, f"{what} to {desc}")
                if isinstance(target, ast.Attribute) and isinstance(base, ast.Name) and base.id == 'self':
                    self.s.self_fields.add(target.attr)
                elif 'self' in r:
                    self.s.self_fields.add(desc)
            b = base
            while isinstance(b, (ast.Attribute, ast.Subscript)):
                b = b.value
            if isinstance(b, ast.Name) and b.id in self.mutables and b.id not in self.env:
                self.s.globals_written.append((b.id, lineno, f"{what} to {desc}"))

    def expr(self, e):
        for node in ast.walk(e):
            if isinstance(node, ast.Call):
                self.call(node)
            elif isinstance(node, ast.Name) and node.id in self.mutables and node.id not in self.env:
                self.s.globals_read.add(node.id)
            elif isinstance(node, ast.NamedExpr):
                self.bind(node.target, self.roots(node.value))

    def call(self, c):
        f = c.func
        arg_roots = [self.roots(a) for a in c.args]
        kw_roots = {k.arg: self.roots(k.value) for k in c.keywords if k.arg}
        inplace_kw = any(k.arg in INPLACE_KW and isinstance(k.value, ast.Constant) and k.value.value is True for k in c.keywords)
        if isinstance(f, ast.Attribute):
            recv = self.roots(f.value)
            b = f.value
            while isinstance(b, (ast.Attribute, ast.Subscript)):
                b = b.value
            if isinstance(b, ast.Name) and b.id in self.mutables and b.id not in self.env and f.attr in INPLACE_METHODS:
                self.s.globals_written.append((b.id, c.lineno, f"{f.attr}() on module-level state"))
            if recv:
                if f.attr in INPLACE_METHODS or inplace_kw:
                    self.s.add_write(recv, c.lineno, f"in-place call {ast.unparse(f)}(...)")
                    if 'self' in recv:
                        self.s.self_fields.add(ast.unparse(f.value))
                elif f.attr not in FRESH and f.attr not in ALIAS_FUNCS:
                    if f.attr in self.an.by_simple:
                        pass  # resolved through the summaries below
                    else:
                        self.s.assumed_pure.add(f.attr)
            self.s.calls_repo.append((f.attr, arg_roots, kw_roots, c.lineno, recv))
        elif isinstance(f, ast.Name):
            self.s.calls_repo.append((f.id, arg_roots, kw_roots, c.lineno, set()))
