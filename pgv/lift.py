"""Mechanical source transform applied on every run: float literals -> exact rationals.

`lift_function(fn)` re-reads the *current* source of `fn` from /repo, replaces every
float `ast.Constant` by `__Q__('<literal text>')` (a `fractions.Fraction` of the decimal
the literal spells), every `a ** b` by `__POW__(a, b)` (exact when both are rational
and b is an integer, otherwise the ordinary `**`), recompiles, and executes the `def`
with the *real module globals* so that every global the function reads is the module's
own.  Nothing is dropped.  `lift_tables(module, names)` turns float entries of
module-level dict tables into the decimal rationals they spell (in place).
"""
from __future__ import annotations

import ast
import inspect
import textwrap
from fractions import Fraction


def Q(text):
    return Fraction(text)


def POW(a, b):
    if isinstance(a, (int, Fraction)) and not isinstance(a, bool) and isinstance(b, (int, Fraction)) \
            and not isinstance(b, bool) and Fraction(b).denominator == 1:
        return Fraction(a) ** int(b)
    return a ** b


class _Lifter(ast.NodeTransformer):
    def __init__(self, src):
        self.src = src
        self.n = 0

    def visit_Constant(self, node):
        if isinstance(node.value, float):
            seg = ast.get_source_segment(self.src, node) or repr(node.value)
            try:
                Fraction(seg)
            except ValueError:
                seg = repr(node.value)
            self.n += 1
            return ast.copy_location(
                ast.Call(func=ast.Name(id='__Q__', ctx=ast.Load()), args=[ast.Constant(value=seg)], keywords=[]),
                node)
        return node

    def visit_BinOp(self, node):
        self.generic_visit(node)
        if isinstance(node.op, ast.Pow):
            return ast.copy_location(
                ast.Call(func=ast.Name(id='__POW__', ctx=ast.Load()), args=[node.left, node.right], keywords=[]),
                node)
        return node


def lifted_source_function(fn, extra_transform=None):
    """Return a new function object compiled from fn's current source with literals lifted."""
    raw = inspect.unwrap(fn) if hasattr(fn, '__wrapped__') else fn
    src = textwrap.dedent(inspect.getsource(raw))
    tree = ast.parse(src)
    fdef = tree.body[0]
    assert isinstance(fdef, (ast.FunctionDef,)), f"not a def: {fn}"
    fdef.decorator_list = [d for d in fdef.decorator_list
                           if not (isinstance(d, ast.Name) and d.id in ('staticmethod', 'classmethod', 'property'))]
    lifter = _Lifter(src)
    tree = lifter.visit(tree)
    if extra_transform:
        tree = extra_transform(tree)
    ast.fix_missing_locations(tree)
    filename = inspect.getsourcefile(raw) or '<lifted>'
    code = compile(tree, filename + ':lifted', 'exec')
    g = raw.__globals__
    g.setdefault('__Q__', Q)
    g.setdefault('__POW__', POW)
    ns = {}
    exec(code, g, ns)
    new = ns[fdef.name]
    new.__lifted_literals__ = lifter.n
    new.__qualname__ = getattr(raw, '__qualname__', new.__name__)
    if raw.__closure__:
        raise ValueError(f"{fn} has a closure; lift the enclosing function instead")
    return new


def lift_method(cls, name):
    """Replace cls.<name> by its literal-lifted version; returns the original attribute."""
    orig = cls.__dict__[name]
    if isinstance(orig, property):
        new = property(lifted_source_function(orig.fget),
                       lifted_source_function(orig.fset) if orig.fset else None)
    elif isinstance(orig, staticmethod):
        new = staticmethod(lifted_source_function(orig.__func__))
    elif isinstance(orig, classmethod):
        new = classmethod(lifted_source_function(orig.__func__))
    else:
        new = lifted_source_function(orig)
    setattr(cls, name, new)
    return orig


def lift_module_function(module, name):
    orig = getattr(module, name)
    new = lifted_source_function(orig)
    setattr(module, name, new)
    return orig


def lift_tables(module, names=None):
    """Float entries of module-level dicts -> Fraction(repr(x)) in place.  Returns count."""
    n = 0
    for k, v in list(vars(module).items()):
        if names is not None and k not in names:
            continue
        if isinstance(v, dict):
            for kk, vv in list(v.items()):
                if isinstance(vv, float):
                    v[kk] = Fraction(repr(vv))
                    n += 1
                elif isinstance(vv, int) and not isinstance(vv, bool):
                    v[kk] = Fraction(vv)  # int/int would be a binary64 division
                    n += 1
    return n


def literal_text_table(module, dict_name):
    """Return {key: literal source text} of a module-level dict literal (for last-digit checks)."""
    src = inspect.getsource(module)
    tree = ast.parse(src)
    for node in tree.body:
        if isinstance(node, ast.Assign) and any(isinstance(t, ast.Name) and t.id == dict_name for t in node.targets):
            d = node.value
            if isinstance(d, ast.Call) and d.args and isinstance(d.args[0], ast.Dict):
                d = d.args[0]  # a dict literal handed to a wrapper class
            if not isinstance(d, ast.Dict):
                raise KeyError(f"{dict_name} is not a dict literal")
            out = {}
            for k, v in zip(d.keys, d.values):
                out[ast.literal_eval(k)] = ast.get_source_segment(src, v)
            return out
    raise KeyError(dict_name)
