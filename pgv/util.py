"""Small helpers shared by the check modules."""
from __future__ import annotations

from pgv import sx


def collect(eng, run, base, cfg='', replay=None):
    """Explore all paths of `run`, return obligation dicts (path id appended); unsupported paths are recorded.
    An exception that escapes `run` (the harness catches the ones the contract allows) ends the exploration and is recorded:
    raised by the code under verification (or numpy / pandas below it) -> a refuted obligation `sx.no_unexpected_exception`;
    raised inside this tooling (a stub that does not cover what the code now asks of it) -> undecided."""
    obs = []
    n = 0
    tag = f"/{cfg}" if cfg else ''
    try:
        return _collect(eng, run, base, cfg, obs, tag)
    except (KeyboardInterrupt, SystemExit, MemoryError):
        raise
    except Exception as exc:
        import os
        import traceback
        frames = traceback.extract_tb(exc.__traceback__)
        here = os.path.dirname(os.path.abspath(__file__))
        inner = frames[-1] if frames else None
        in_tool = (inner is not None and os.path.abspath(inner.filename).startswith(here) and not inner.filename.endswith(':lifted')
                   and not getattr(exc, '_pgv_contract', False)) or _stub_gap(exc)
        where = f"{inner.filename.split('/')[-1]}:{inner.lineno} in {inner.name}" if inner else '?'
        obs.append({'name': f"{base}/sx.no_unexpected_exception{tag}", 'verdict': 'unsupported' if in_tool else 'refuted', 'backend': 'sx', 'time': 0.0,
                    'model': None, 'detail': f"{type(exc).__name__}: {str(exc)[:160]} @ {where}", 'pc': eng.pc_text() if hasattr(eng, 'pc_text') else '',
                    'extra': {'replay': replay, 'observed': f"{type(exc).__name__}: {str(exc)[:160]}"}})
        return obs


def _stub_gap(exc):
    """the code under verification asked a symbolic value or a contract stub for something it does not model (an attribute,
    an operand combination): a limit of this tooling, hence undecided -- never a violation"""
    import sys
    if getattr(exc, '_pgv_contract', False):
        return False
    if isinstance(exc, AttributeError) and type(getattr(exc, 'obj', None)).__module__.split('.')[0] == 'pgv':
        return True
    if isinstance(exc, (TypeError, AttributeError, NotImplementedError)):
        names = set()
        for mn, mod in list(sys.modules.items()):
            if mn.split('.')[0] == 'pgv' and mod is not None:
                names.update(k for k, v in vars(mod).items() if isinstance(v, type) and getattr(v, '__module__', '').split('.')[0] == 'pgv')
        msg = str(exc)
        return any(f"'{n}'" in msg for n in names)
    return False


def _collect(eng, run, base, cfg, obs, tag):
    n = 0
    try:
        for path in eng.explore(run):
            n += 1
            if path.outcome[0] == 'unsupported':
                obs.append({'name': f"{base}/sx.supported{tag}/p{path.idx}", 'verdict': 'unsupported', 'backend': 'sx',
                            'time': 0.0, 'model': None, 'detail': path.outcome[1], 'pc': path.pc, 'extra': {}})
            for o in path.obligations:
                d = o.to_dict()
                d['name'] += f"/p{path.idx}"
                obs.append(d)
    except sx.PathLimit as exc:
        obs.append({'name': f"{base}/sx.path_limit{tag}", 'verdict': 'unknown', 'backend': 'sx', 'time': 0.0,
                    'model': None, 'detail': str(exc), 'pc': '', 'extra': {}})
    if n == 0:
        obs.append({'name': f"{base}/cover{tag}", 'verdict': 'unknown', 'backend': 'sx', 'time': 0.0, 'model': None,
                    'detail': 'no feasible path (vacuous preconditions?)', 'pc': '', 'extra': {}})
    return obs


def static_ob(name, ok, detail='', backend='ast', replay=None):
    return {'name': name, 'verdict': 'proved' if ok else 'refuted', 'backend': backend, 'time': 0.0, 'model': None,
            'detail': detail, 'pc': '', 'extra': {'replay': replay} if replay else {}}
