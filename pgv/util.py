"""Small helpers shared by the check modules."""
from __future__ import annotations

from pgv import sx


def collect(eng, run, base, cfg=''):
    """Explore all paths of `run`, return obligation dicts (path id appended); unsupported paths are recorded."""
    obs = []
    n = 0
    tag = f"/{cfg}" if cfg else ''
    try:
        for path in eng.explore(run):
            n += 1
            if path.outcome[0] == 'unsupported':
                obs.append({'name': f"{base}/sx.supported{tag}/p{path.idx}", 'verdict': 'unsupported', 'backend': 'sx',
                            'time': 0.0, 'model': None, 'detail': path.outcome[1], 'pc': path.pc, 'extra': {}})
            for o in path.obligations:
                d = o.to_dict()
                d['name'] += f"/p{path.idx}"
                obs.append(d)
    except sx.PathLimit as exc:
        obs.append({'name': f"{base}/sx.path_limit{tag}", 'verdict': 'unknown', 'backend': 'sx', 'time': 0.0,
                    'model': None, 'detail': str(exc), 'pc': '', 'extra': {}})
    if n == 0:
        obs.append({'name': f"{base}/cover{tag}", 'verdict': 'unknown', 'backend': 'sx', 'time': 0.0, 'model': None,
                    'detail': 'no feasible path (vacuous preconditions?)', 'pc': '', 'extra': {}})
    return obs


def static_ob(name, ok, detail='', backend='ast', replay=None):
    return {'name': name, 'verdict': 'proved' if ok else 'refuted', 'backend': backend, 'time': 0.0, 'model': None,
            'detail': detail, 'pc': '', 'extra': {'replay': replay} if replay else {}}
