"""C05 native side: real identifiers over construction routes, hash seeds, parse round trips."""
from __future__ import annotations

import json
import os
import subprocess
import sys

from pgv.replay import replayer

ROOT = os.path.dirname(os.path.dirname(os.path.dirname(os.path.abspath(__file__))))

_CHILD = r'''
import sys, json
sys.path.insert(0, {root!r})
from pgv.checks import c05
out = {{}}
for kind in ('base', 'point', 'model'):
    out[kind] = c05._mk(kind).iso_id
out['point_idx'] = c05._mk('point', index=[5, 6, 7, 8]).iso_id
print(json.dumps(out))
'''


def _ids_in_subprocess(seed):
    env = dict(os.environ, PYTHONHASHSEED=str(seed), PYTHONPATH=f"{os.environ.get('PGV_REPO', '/repo')}/src:{ROOT}")
    p = subprocess.run([sys.executable, '-c', _CHILD.format(root=ROOT)], capture_output=True, text=True, env=env, timeout=300)
    return json.loads(p.stdout.strip().splitlines()[-1])


def bounded_cases(seed, thorough=False):
    import numpy
    import pandas
    import pygaps
    import pygaps.parsing as pgp
    from pgv.checks import c05
    pygaps.logger.disabled = True
    # construction routes
    p, l = [0.1, 0.2, 0.3], [1.0, 2.0, 3.0]
    meta = dict(material='pgv_m', adsorbate='nitrogen', temperature=77.0, pressure_mode='absolute', pressure_unit='bar', loading_basis='molar',
                loading_unit='mmol', material_basis='mass', material_unit='g', temperature_unit='K', note='x')
    routes = {
        'lists': pygaps.PointIsotherm(pressure=p, loading=l, **meta),
        'arrays': pygaps.PointIsotherm(pressure=numpy.array(p), loading=numpy.array(l), **meta),
        'dataframe': pygaps.PointIsotherm(isotherm_data=pandas.DataFrame({'pressure': p, 'loading': l}), pressure_key='pressure', loading_key='loading', **meta),
        'dataframe_index': pygaps.PointIsotherm(isotherm_data=pandas.DataFrame({'pressure': p, 'loading': l}, index=[9, 4, 7]), pressure_key='pressure', loading_key='loading', **meta),
        'other_column_names': pygaps.PointIsotherm(isotherm_data=pandas.DataFrame({'P': p, 'N': l}), pressure_key='P', loading_key='N', **meta),
    }
    ids = {k: v.iso_id for k, v in routes.items()}
    ref = ids['lists']
    for k, v in ids.items():
        if k == 'other_column_names':
            continue  # column names are part of the stored table; the property does not list key names as content -- reported only
        yield {'name': f"construction_route|{k}", 'ok': v == ref, 'detail': '' if v == ref else f"{v} != {ref}"}
    # branch marks: booleans (the documented list form), 0/1, 'ads'/'des' split given as guessed marks
    pb, lb = [0.1, 0.2, 0.3, 0.25, 0.15], [1.0, 2.0, 3.0, 2.8, 2.5]
    marks = [0, 0, 0, 1, 1]
    b_ids = {
        'int_marks': pygaps.PointIsotherm(pressure=pb, loading=lb, branch=marks, **meta),
        'bool_marks': pygaps.PointIsotherm(pressure=pb, loading=lb, branch=[bool(x) for x in marks], **meta),
        'guessed_marks': pygaps.PointIsotherm(pressure=pb, loading=lb, **meta),
        'bool_column': pygaps.PointIsotherm(isotherm_data=pandas.DataFrame({'pressure': pb, 'loading': lb, 'branch': [bool(x) for x in marks]}),
                                            pressure_key='pressure', loading_key='loading', **meta),
    }
    # columns of a slice of a logged table (row labels 1..n, not 0..n-1), pressure, loading and marks each passed as a Series
    tab = pandas.DataFrame({'p': [9.0] + pb, 'l': [9.0] + lb, 'b': [0] + marks}).iloc[1:]
    try:
        b_ids['series_of_a_table_slice'] = pygaps.PointIsotherm(pressure=tab['p'], loading=tab['l'], branch=tab['b'], **meta)
        b_ids['series_of_a_table_slice_bool_marks'] = pygaps.PointIsotherm(pressure=tab['p'], loading=tab['l'], branch=tab['b'].astype(bool), **meta)
        b_ids['series_relabelled_from_zero'] = pygaps.PointIsotherm(pressure=tab['p'].reset_index(drop=True), loading=tab['l'].reset_index(drop=True),
                                                                     branch=tab['b'].reset_index(drop=True), **meta)
    except Exception as exc:
        yield {'name': 'construction_route|series_of_a_table_slice', 'ok': False, 'detail': f"{type(exc).__name__}: {exc}"[:160]}
    for k, v in b_ids.items():
        same = v.iso_id == b_ids['int_marks'].iso_id
        yield {'name': f"construction_route|{k}", 'ok': same, 'detail': '' if same else f"{v.iso_id} != {b_ids['int_marks'].iso_id}"}
    again = pgp.isotherm_from_json(b_ids['bool_marks'].to_json()).iso_id
    yield {'name': 'json_round_trip_same_id|bool_marks', 'ok': again == b_ids['bool_marks'].iso_id, 'detail': f"{again} vs {b_ids['bool_marks'].iso_id}"}
    # values equal to 8 decimals, one of them slightly negative (rounds to -0.0)
    z1 = pygaps.PointIsotherm(pressure=[1.0, 2.0, 3.0], loading=[-1e-12, 2.0, 3.0], **meta).iso_id
    z2 = pygaps.PointIsotherm(pressure=[1.0, 2.0, 3.0], loading=[0.0, 2.0, 3.0], **meta).iso_id
    yield {'name': 'equal_to_8_decimals_same_id|tiny_negative_value', 'ok': z1 == z2, 'detail': '' if z1 == z2 else f"{z1} != {z2}"}
    # the same table with and without its (identical) branch column, with a supplementary column that sorts before 'branch'
    t = pandas.DataFrame({'pressure': [0.1, 0.2, 0.3], 'loading': [1.0, 2.0, 3.0], 'alpha': [5.0, 6.0, 7.0]})
    c1 = pygaps.PointIsotherm(isotherm_data=t, pressure_key='pressure', loading_key='loading', **meta)
    c2 = pygaps.PointIsotherm(isotherm_data=c1.data_raw.copy(), pressure_key='pressure', loading_key='loading', **meta)
    yield {'name': 'construction_route|table_with_and_without_branch_column', 'ok': c1.iso_id == c2.iso_id, 'detail': f"{list(c1.data_raw.columns)} vs {list(c2.data_raw.columns)}"}
    # a model isotherm fitted on integer literals has an identifier (and the same as with float literals)
    try:
        m1 = pygaps.ModelIsotherm(pressure=[1, 2, 3, 4], loading=[2, 4, 6, 8], model='Henry', **meta).iso_id
        m2 = pygaps.ModelIsotherm(pressure=[1.0, 2.0, 3.0, 4.0], loading=[2.0, 4.0, 6.0, 8.0], model='Henry', **meta).iso_id
        yield {'name': 'construction_route|model_fitted_on_integer_literals', 'ok': m1 == m2, 'detail': '' if m1 == m2 else f"{m1} != {m2}"}
    except Exception as exc:
        yield {'name': 'construction_route|model_fitted_on_integer_literals', 'ok': False, 'detail': f"{type(exc).__name__}: {exc}"[:160]}
    # an isotherm labelled in degrees Celsius: the parse of its export and a copy built through from_isotherm have its identifier
    cmeta = dict(meta, temperature=25.0, temperature_unit='°C')
    for kind_, mkc in (('point', lambda: pygaps.PointIsotherm(pressure=p, loading=l, **cmeta)), ('base', lambda: pygaps.core.baseisotherm.BaseIsotherm(**cmeta))):
        c0 = mkc()
        ids_c = {'original': c0.iso_id, 'parsed JSON export': pgp.isotherm_from_json(c0.to_json()).iso_id}
        if kind_ == 'point':
            ids_c['parsed CSV export'] = pgp.isotherm_from_csv(c0.to_csv()).iso_id
            ids_c['from_isotherm'] = pygaps.PointIsotherm.from_isotherm(c0, isotherm_data=c0.data_raw.copy(), pressure_key=c0.pressure_key, loading_key=c0.loading_key).iso_id
        okc = len(set(ids_c.values())) == 1
        yield {'name': f"construction_route|celsius_labelled_{kind_}_isotherm", 'ok': okc, 'detail': '' if okc else str(ids_c)}
    # a model isotherm whose parameters / ranges / rmse are given as integer literals or as float literals; a differing one
    import pygaps.modelling as pgm

    def mkm(K, n_m, pr, lr, rmse):
        mdl = pgm.get_isotherm_model('Langmuir', parameters={'K': K, 'n_m': n_m}, pressure_range=pr, loading_range=lr, rmse=rmse)
        return pygaps.ModelIsotherm(model=mdl, **meta)
    mi, mf = mkm(2, 5, (0, 1), (0, 5), 0), mkm(2.0, 5.0, (0.0, 1.0), (0.0, 5.0), 0.0)
    oki = mi.iso_id == mf.iso_id and mi == mf
    yield {'name': 'construction_route|model_parameters_integer_vs_float_literals', 'ok': oki, 'detail': '' if oki else f"{mi.iso_id} != {mf.iso_id}"}
    diffs = {'parameter': mkm(2.0, 5.5, (0.0, 1.0), (0.0, 5.0), 0.0), 'range': mkm(2.0, 5.0, (0.0, 2.0), (0.0, 5.0), 0.0), 'rmse': mkm(2.0, 5.0, (0.0, 1.0), (0.0, 5.0), 0.25),
             'parameter_by_one': mkm(3, 5, (0, 1), (0, 5), 0)}
    same = [k for k, v in diffs.items() if v.iso_id == mf.iso_id]
    # (model numbers are content at full precision: the 8-decimal rule of the property is about data points)
    small = {'K 2e-9 vs 4e-9': (mkm(2e-9, 5.0, (0.0, 1.0), (0.0, 5.0), 0.0), mkm(4e-9, 5.0, (0.0, 1.0), (0.0, 5.0), 0.0)),
             'K 0.002 vs 0.002000000003': (mkm(0.002, 5.0, (0.0, 1.0), (0.0, 5.0), 0.0), mkm(0.002000000003, 5.0, (0.0, 1.0), (0.0, 5.0), 0.0)),
             'rmse 1e-10 vs 3e-10': (mkm(2.0, 5.0, (0.0, 1.0), (0.0, 5.0), 1e-10), mkm(2.0, 5.0, (0.0, 1.0), (0.0, 5.0), 3e-10)),
             'range end 1e-9 vs 2e-9': (mkm(2.0, 5.0, (1e-9, 1.0), (0.0, 5.0), 0.0), mkm(2.0, 5.0, (2e-9, 1.0), (0.0, 5.0), 0.0))}
    same += [k for k, (u, v) in small.items() if u.iso_id == v.iso_id or u == v]
    yield {'name': 'construction_route|model_differing_in_one_number_has_another_identifier', 'ok': not same, 'detail': ', '.join(same)}
    okp = type(mi.model.params['K']) is int and mi.model.pressure_range == (0, 1)
    yield {'name': 'construction_route|model_unchanged_by_identifier_query', 'ok': okp, 'detail': '' if okp else f"{mi.model.params} {mi.model.pressure_range}"}
    # the parse of every text export of an isotherm whose values use all eight decimals at magnitudes above one
    big = pygaps.PointIsotherm(pressure=[1.23456789, 12.3456789, 123.456789], loading=[0.12345678, 1.12345678, 11.12345678], **meta)
    ids_b = {'original': big.iso_id, 'parsed JSON export': pgp.isotherm_from_json(big.to_json()).iso_id, 'parsed CSV export': pgp.isotherm_from_csv(big.to_csv()).iso_id,
             'parsed AIF export': pgp.isotherm_from_aif(big.to_aif()).iso_id}
    okb = len(set(ids_b.values())) == 1
    yield {'name': 'construction_route|parse_of_export_eight_decimals_above_one', 'ok': okb, 'detail': '' if okb else str(ids_b)}
    # the parse of every export (text formats and the Excel workbook) of isotherms whose metadata hold booleans, numbers and text
    import tempfile
    rich = dict(meta, is_real=True, degassed=False, cycles=3, dose=2.5, operator='pgv')
    for kind_, mkr in (('point', lambda: pygaps.PointIsotherm(pressure=p, loading=l, **rich)), ('base', lambda: pygaps.core.baseisotherm.BaseIsotherm(**rich)),
                       ('model', lambda: mkm_rich(rich))):
        def mkm_rich(md):
            return pygaps.ModelIsotherm(model=pgm.get_isotherm_model('Langmuir', parameters={'K': 2.0, 'n_m': 5.0}, pressure_range=(0.0, 1.0), loading_range=(0.0, 5.0), rmse=0.0), **md)
        try:
            r0 = mkr()
            ids_r = {'original': r0.iso_id, 'parsed JSON export': pgp.isotherm_from_json(r0.to_json()).iso_id, 'parsed CSV export': pgp.isotherm_from_csv(r0.to_csv()).iso_id}
            with tempfile.TemporaryDirectory(prefix='pgv-c05-') as td:
                xp = os.path.join(td, 'x.xls')
                pgp.isotherm_to_xl(r0, xp)
                ids_r['parsed Excel export'] = pgp.isotherm_from_xl(xp).iso_id
            okr = len(set(ids_r.values())) == 1
            yield {'name': f"construction_route|parse_of_export_mixed_metadata|{kind_}", 'ok': okr, 'detail': '' if okr else str(ids_r)}
        except Exception as exc:
            yield {'name': f"construction_route|parse_of_export_mixed_metadata|{kind_}", 'ok': False, 'detail': f"{type(exc).__name__}: {exc}"[:160]}
    # data in which a point occurs twice (an equilibrium point logged twice): where it occurs, and whether it occurs, is content
    def rep(p_, l_):
        return pygaps.PointIsotherm(pressure=p_, loading=l_, branch=[0] * len(p_), **meta)
    twice = {'repeated at (0.2, 2.1)': rep([0.1, 0.2, 0.2, 0.9], [1.0, 2.1, 2.1, 4.5]), 'repeated at (0.6, 3.9)': rep([0.1, 0.6, 0.6, 0.9], [1.0, 3.9, 3.9, 4.5]),
             'without the repeated point': rep([0.1, 0.9], [1.0, 4.5]), 'every row twice, A': rep([0.1, 0.1, 0.5, 0.5], [1.0, 1.0, 3.0, 3.0]),
             'every row twice, B': rep([0.2, 0.2, 0.7, 0.7], [1.5, 1.5, 4.0, 4.0]), 'point three times': rep([0.1, 0.2, 0.2, 0.2, 0.9], [1.0, 2.1, 2.1, 2.1, 4.5])}
    ids_t = {k: v.iso_id for k, v in twice.items()}
    coll = [f"{a} == {b}" for i, a in enumerate(ids_t) for b in list(ids_t)[i + 1:] if ids_t[a] == ids_t[b]]
    yield {'name': 'construction_route|repeated_points_are_content', 'ok': not coll, 'detail': '; '.join(coll[:3])}
    # equality is agreement of the identifiers: for every pair above and for metadata whose Python value does not compare equal to
    # its own copy (nan) or to its parsed form (a tuple comes back as a list), a == b exactly when the identifiers agree
    pairs_eq = []
    for label, extra in (('tuple_valued_metadata', {'activation_range': (120, 150)}), ('nan_valued_metadata', {'sample_mass': float('nan')}),
                         ('nested_list_metadata', {'steps': [[1, 2], [3, 4]]})):
        for kind_, mk_ in (('point', lambda e: pygaps.PointIsotherm(pressure=p, loading=l, **dict(meta, **e))), ('base', lambda e: pygaps.core.baseisotherm.BaseIsotherm(**dict(meta, **e)))):
            try:
                a_ = mk_(extra)
                b_ = pgp.isotherm_from_json(a_.to_json())
                c_ = mk_({k: (float('nan') if v != v else v) for k, v in extra.items()} if label == 'nan_valued_metadata' else dict(extra))
                for tag, x_, y_ in (('parsed export', a_, b_), ('built again', a_, c_)):
                    same_id = x_.iso_id == y_.iso_id
                    if (x_ == y_) != same_id or (y_ == x_) != same_id or (x_ != y_) == same_id:
                        pairs_eq.append(f"{label}/{kind_}/{tag}: identifiers agree: {same_id}, a == b: {x_ == y_}, a != b: {x_ != y_}")
            except Exception as exc:
                pairs_eq.append(f"{label}/{kind_}: {type(exc).__name__}: {exc}"[:120])
    yield {'name': 'construction_route|equality_agrees_with_identifier', 'ok': not pairs_eq, 'detail': '; '.join(pairs_eq[:3])}
    # metadata numbers written as integer or as float literals, or held as numpy scalars (a value read from an array)
    lit = {'int': dict(sample_mass=2, cycles=[1, 2]), 'float': dict(sample_mass=2.0, cycles=[1.0, 2.0]), 'numpy': dict(sample_mass=numpy.int64(2), cycles=[numpy.float64(1.0), 2])}
    ids_l = {}
    for k, extra in lit.items():
        try:
            ids_l[k] = pygaps.PointIsotherm(pressure=p, loading=l, **dict(meta, **extra)).iso_id
        except Exception as exc:
            ids_l[k] = f"{type(exc).__name__}: {exc}"[:80]
    okl = len(set(ids_l.values())) == 1
    other = pygaps.PointIsotherm(pressure=p, loading=l, **dict(meta, sample_mass=3, cycles=[1, 2])).iso_id
    yield {'name': 'construction_route|metadata_integer_vs_float_literals', 'ok': okl and other != ids_l['int'], 'detail': '' if okl else str(ids_l)}
    ints = pygaps.PointIsotherm(pressure=[1, 2, 3], loading=[1, 2, 3], **meta).iso_id
    flts = pygaps.PointIsotherm(pressure=[1., 2., 3.], loading=[1., 2., 3.], **meta).iso_id
    yield {'name': 'construction_route|integer_vs_float_literals', 'ok': ints == flts, 'detail': '' if ints == flts else f"{ints} != {flts}"}
    # parse of an export; reading data / filling caches
    for kind in ('base', 'point', 'model'):
        iso = c05._mk(kind)
        before = iso.iso_id
        again = pgp.isotherm_from_json(iso.to_json()).iso_id
        yield {'name': f"json_round_trip_same_id|{kind}", 'ok': again == before, 'detail': '' if again == before else f"{again} != {before}"}
        if kind == 'point':
            iso.loading_at(0.15)
            iso.pressure(branch='ads', pressure_unit='Pa')
            iso.spreading_pressure_at(0.2)
            yield {'name': 'reads_do_not_change_id|point', 'ok': iso.iso_id == before, 'detail': ''}
    # minimal content differences on real identifiers
    for kind in ('base', 'point', 'model'):
        base = c05._mk(kind).iso_id
        for (k, v) in c05.SENSITIVE['all'][:8] + c05.SENSITIVE.get(kind, []):
            if k.startswith('model.name'):
                continue
            other = c05._mk(kind, **c05._fix_change(kind, k, v)).iso_id
            yield {'name': f"different_content_different_id|{kind}|{k}", 'ok': other != base, 'detail': '' if other != base else 'same identifier'}
    a = c05._mk('point', **{'data.loading.1': 2.000000001}).iso_id
    yield {'name': 'equal_to_8_decimals_same_id|point', 'ok': a == c05._mk('point').iso_id, 'detail': ''}
    # hash seeds / process boundary
    seeds = (0, 1, 12345) if thorough else (0, 4242)
    res = [_ids_in_subprocess(s) for s in seeds]
    same = all(r == res[0] for r in res)
    here = {k: c05._mk(k).iso_id for k in ('base', 'point', 'model')}
    ok = same and all(res[0][k] == here[k] for k in here)
    yield {'name': f"process_and_PYTHONHASHSEED_independent|seeds={seeds}", 'ok': ok, 'detail': '' if ok else str(res)}


@replayer('c05.bounded')
def _b(spec, model):
    for r in bounded_cases(0, thorough=True):
        if r['name'] == spec['name']:
            return {'confirmed': not r['ok'], 'observed': r['detail']}
    return {'confirmed': False, 'error': 'case not found'}


@replayer('c05.pair')
def _pair(spec, model):
    from pgv.checks import c05
    kind = spec['iso']
    ch = dict(spec['change'])
    a = c05._mk(kind)
    if ch.pop('caches', False):
        before = a.iso_id
        a.loading_at(0.15)
        a.pressure_at(1.5)
        return {'confirmed': a.iso_id != before, 'observed': a.iso_id, 'expected': before}
    fixed = {}
    for k, v in ch.items():
        v = tuple(v) if isinstance(v, list) and k.startswith('model.') else v
        fixed.update(c05._fix_change(kind, k, v))
    ref = c05._mk(kind, ints='float') if 'ints' in ch else a
    b = c05._mk(kind, **fixed)
    same = ref.iso_id == b.iso_id
    want_same = spec['expect'] == 'same'
    return {'confirmed': same != want_same, 'observed': {'id_a': ref.iso_id, 'id_b': b.iso_id}, 'expected': spec['expect']}


@replayer('c05.history')
def _history(spec, model):
    """real identifiers: read the id, change the content, compare with the same content built without the earlier read"""
    import pandas
    import pygaps
    from pgv.checks import c05
    if spec['case'] == 'column_order':
        import pygaps.parsing as pgp
        base_cols = {'pressure': [0.1, 0.2, 0.3, 0.25], 'loading': [1.0, 2.0, 3.0, 2.5]}
        extra = {'temperature_cell': [77.1, 77.2, 77.3, 77.2], 'enthalpy': [9.0, 8.0, 7.0, 7.5], 'dose': [1.0, 2.0, 3.0, 4.0]}
        meta = dict(c05._mk('base').to_dict())
        ids = {}
        for order in (('temperature_cell', 'enthalpy', 'dose'), ('dose', 'enthalpy', 'temperature_cell')):
            iso = pygaps.PointIsotherm(isotherm_data=pandas.DataFrame({**base_cols, **{c: extra[c] for c in order}}), pressure_key='pressure', loading_key='loading', **meta)
            ids['+'.join(order)] = iso.iso_id
            ids['+'.join(order) + ' (parsed JSON export)'] = pgp.isotherm_from_json(iso.to_json()).iso_id
        return {'confirmed': len(set(ids.values())) != 1, 'observed': ids, 'expected': 'one identifier'}
    if spec['case'] == 'read_then_convert':
        used, fresh = c05._mk('point'), c05._mk('point')
        used.iso_id
        used.convert_pressure(unit_to='kPa')
        fresh.convert_pressure(unit_to='kPa')
        return {'confirmed': used.iso_id != fresh.iso_id, 'observed': {'read_then_converted': used.iso_id, 'converted_only': fresh.iso_id}, 'expected': 'same identifier'}
    src = c05._mk('point')
    src.iso_id
    table = src.data_raw.copy()
    table['loading'] = table['loading'] * 2
    meta = dict(src.to_dict())
    derived = pygaps.PointIsotherm(isotherm_data=table, pressure_key='pressure', loading_key='loading', **meta)
    scratch = pygaps.PointIsotherm(isotherm_data=pandas.DataFrame({c: list(table[c]) for c in table.columns}), pressure_key='pressure', loading_key='loading', **meta)
    bad = derived.iso_id != scratch.iso_id or derived.iso_id == src.iso_id
    return {'confirmed': bad, 'observed': {'original': src.iso_id, 'loading_doubled_from_copy': derived.iso_id, 'loading_doubled_from_scratch': scratch.iso_id},
            'expected': 'doubled data: a different identifier, the same by both routes'}
