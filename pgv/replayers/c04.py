"""C04 native side: bounded stand-in (ordered pairs of read-only queries on real isotherms, each compared
with the same query issued first on a freshly built twin) and replayers."""
from __future__ import annotations

import os
import random

import numpy

from pgv.replay import replayer

REPO = os.environ.get('PGV_REPO', '/repo')
DATA = os.path.join(REPO, 'docs', 'examples', 'data', 'characterisation')


def _load(name='MCM-41 N2 77.355.json'):
    import pygaps
    import pygaps.parsing as pgp
    pygaps.logger.disabled = True
    return pgp.isotherm_from_json(os.path.join(DATA, name))


def _twin(iso):
    """fresh identical object via the constructor (deepcopy fails once CoolProp state exists)"""
    import pygaps
    return pygaps.PointIsotherm.from_isotherm(iso, isotherm_data=iso.data_raw.copy(), pressure_key=iso.pressure_key,
                                              loading_key=iso.loading_key)


def _state(iso):
    return (iso.to_dict(), iso.data_raw.copy(), dict(iso.adsorbate.properties), dict(iso.material.properties))


def _same_state(a, b):
    return a[0] == b[0] and a[1].equals(b[1]) and a[2] == b[2] and a[3] == b[3]


def catalogue():
    import pygaps.characterisation as pgc
    import pygaps.modelling as pgm
    import pygaps.iast as pgi
    Q = {
        'loading_at(0.3)': lambda i: i.loading_at(0.3),
        'loading_at(0.3,des)': lambda i: i.loading_at(0.3, branch='des'),
        'loading_at(1e-9)': lambda i: i.loading_at(1e-9),
        'loading_at(1e-9,fill=0)': lambda i: i.loading_at(1e-9, interp_fill=0),
        'loading_at(0.3,cubic)': lambda i: i.loading_at(0.3, interpolation_type='cubic'),
        'loading_at(30000Pa abs)': lambda i: i.loading_at(30000, pressure_mode='absolute', pressure_unit='Pa'),
        'pressure_at(5)': lambda i: i.pressure_at(5.0),
        'pressure_at(5,des)': lambda i: i.pressure_at(5.0, branch='des'),
        'pressure_at(1e9)': lambda i: i.pressure_at(1e9),
        'pressure_at(5,extrap)': lambda i: i.pressure_at(5.0, interp_fill='extrapolate'),
        'spreading(0.3)': lambda i: i.spreading_pressure_at(0.3),
        'spreading(1e-9)': lambda i: i.spreading_pressure_at(1e-9),
        'spreading(5)': lambda i: i.spreading_pressure_at(5.0),
        'spreading(5,fill)': lambda i: i.spreading_pressure_at(5.0, interp_fill='extrapolate'),
        'pressure(ads,Pa)': lambda i: i.pressure(branch='ads', pressure_mode='absolute', pressure_unit='Pa'),
        'loading(des,cm3STP)': lambda i: i.loading(branch='des', loading_unit='cm3(STP)'),
        'to_json': lambda i: i.to_json(),
        'to_csv': lambda i: i.to_csv(),
        'iso_id': lambda i: i.iso_id,
        'area_BET': lambda i: pgc.area_BET(i)['area'],
        't_plot': lambda i: pgc.t_plot(i)['results'][0]['area'],
        'psd_meso': lambda i: pgc.psd_mesoporous(i, psd_model='BJH')['pore_distribution'],
        'psd_dft': lambda i: pgc.psd_dft(i)['pore_distribution'],
        'dr_plot': lambda i: pgc.dr_plot(i)['pore_volume'],
        'henry': lambda i: pgc.initial_henry_slope(i, max_adjrms=0.1),
        'model_iso(Henry)': lambda i: pgm.model_iso(i, model='Henry').model.params['K'],
        'whittaker(point)': lambda i: pgc.enthalpy_sorption_whittaker(i, model='Toth', loading=[2.0, 4.0])['enthalpy_sorption'],
        'sat_p(70K)': lambda i: i.adsorbate.saturation_pressure(70.0),
        'liquid_density(80K)': lambda i: i.adsorbate.liquid_density(80.0),
    }
    return Q


def _run(f, iso):
    try:
        r = f(iso)
        return ('return', r)
    except Exception as exc:
        return ('raise', type(exc).__name__)


def _eq(a, b):
    if a[0] != b[0]:
        return False
    if a[0] == 'raise':
        return a[1] == b[1]
    x, y = a[1], b[1]
    if isinstance(x, str) or isinstance(y, str):
        return x == y
    try:
        return bool(numpy.allclose(numpy.asarray(x, dtype=float), numpy.asarray(y, dtype=float), rtol=1e-10, atol=0, equal_nan=True))
    except Exception:
        return x == y


def pair_case(base, Q, a, b):
    """query b after query a vs query b on a fresh twin; state of the isotherm untouched"""
    fresh, used = _twin(base), _twin(base)
    s0 = _state(used)
    o_fresh = _run(Q[b], fresh)
    _run(Q[a], used)
    o_used = _run(Q[b], used)
    s1 = _state(used)
    ok = _eq(o_fresh, o_used) and _same_state(s0, s1)
    detail = '' if ok else f"fresh: {str(o_fresh)[:80]} / after {a}: {str(o_used)[:80]} / state unchanged: {_same_state(s0, s1)}"
    return ok, detail


def pairs_on_real_isotherms(seed, thorough=False):
    base = _load()
    Q = catalogue()
    names = list(Q)
    rnd = random.Random(seed)
    cheap = [n for n in names if n not in ('psd_dft', 'psd_meso', 'model_iso(Henry)', 'to_csv', 'henry', 'whittaker(point)')]
    pairs = [(a, b) for a in cheap for b in cheap]
    heavy = [n for n in names if n not in cheap]
    pairs += [(a, b) for a in heavy for b in ('spreading(1e-9)', 'loading_at(0.3)', 'iso_id', 'sat_p(70K)')]
    pairs += [(a, b) for a in ('loading_at(1e-9,fill=0)', 'sat_p(70K)', 'liquid_density(80K)') for b in heavy]
    always = [(a, 'whittaker(point)') for a in ('sat_p(70K)', 'pressure(ads,Pa)', 'whittaker(point)', 'to_json')]
    pairs = [pr for pr in pairs if pr not in always]
    if not thorough:
        rnd.shuffle(pairs)
        pairs = pairs[:160]
    pairs += always
    for a, b in pairs:
        ok, detail = pair_case(base, Q, a, b)
        yield {'name': f"{b}|after:{a}", 'ok': ok, 'detail': detail}


def _process_state():
    """interpreter-wide settings a library call has no business changing"""
    import decimal
    import locale
    import logging
    import sys
    import warnings
    import pandas
    return {
        'warnings.filters': tuple((f[0], str(f[1]), getattr(f[2], '__name__', str(f[2])), str(f[3]), f[4]) for f in warnings.filters),
        'numpy.geterr': tuple(sorted(numpy.geterr().items())),
        'numpy.printoptions': tuple(sorted((k, str(v)) for k, v in numpy.get_printoptions().items())),
        'pandas.options': tuple((k, str(pandas.get_option(k))) for k in ('display.precision', 'mode.chained_assignment', 'mode.copy_on_write', 'future.infer_string')
                                if k in pandas.describe_option(k, _print_desc=False) or True),
        'decimal.prec': decimal.getcontext().prec,
        'locale': locale.setlocale(locale.LC_ALL),
        'cwd': os.getcwd(),
        'environ': tuple(sorted(os.environ.items())),
        'recursionlimit': sys.getrecursionlimit(),
        'logging': (logging.getLogger().level, logging.getLogger('pygaps').level, logging.getLogger('pygaps').disabled),
        'sys.path': tuple(sys.path),
    }


MUST_RETURN = ('whittaker(Toth)', 'isosteric_enthalpy', 'alpha_s', 'area_langmuir', 'da_plot', 'psd_microporous', 'iast_point', 'model_iso(guess list)', 'to_aif',
               'area_BET', 't_plot', 'psd_meso', 'psd_dft', 'dr_plot', 'to_json', 'to_csv')


# module-level containers that are caches by design (filled on first use, invisible afterwards: covered by the pair clauses)
CACHE_ALLOW = ('pygaps.characterisation.psd_kernel._LOADED',)


def _module_containers():
    """repr of every module-level list / dict / set of the pygaps modules (registries, model lists, tables, caches)"""
    import sys
    out = {}
    for mn, mod in list(sys.modules.items()):
        if mn.split('.')[0] != 'pygaps' or mod is None:
            continue
        for k, v in list(vars(mod).items()):
            if k.startswith('__') or not isinstance(v, (list, dict, set)):
                continue
            if getattr(v, '__module__', None) and False:
                continue
            try:
                out[f"{mn}.{k}"] = (len(v), hash(repr(v)[:20000]))
            except Exception:
                out[f"{mn}.{k}"] = (len(v), None)
    return out


def _process_state_worker():
    """every quantified kind of call (data access, interpolation, spreading pressure, export, characterisation, model fitting, IAST,
    enthalpy methods) leaves the interpreter-wide settings as they were -- warnings filters, numpy error state and print options,
    pandas options, locale, working directory, environment, logging levels: a later call must not behave differently because an
    earlier one changed them.  Each call is made once beforehand, so that first-import side effects of numpy / scipy are not counted."""
    import glob
    import pygaps
    import pygaps.characterisation as pgc
    import pygaps.iast as pgi
    import pygaps.modelling as pgm
    import pygaps.parsing as pgp
    pygaps.logger.disabled = True
    iso = _load()
    Q = dict(catalogue())
    meta = dict(material='pgv_c04', temperature=77.355, pressure_mode='absolute', pressure_unit='bar', loading_basis='molar', loading_unit='mmol',
                material_basis='mass', material_unit='g', temperature_unit='K')

    def mk(name, params, ads):
        m = pgm.get_isotherm_model(name, parameters=params, pressure_range=(0.0, 1.0), loading_range=(0.0, 5.0), rmse=0.0)
        return pygaps.ModelIsotherm(model=m, adsorbate=ads, **meta)
    lang = [mk('Langmuir', {'K': 3.0, 'n_m': 5.0}, 'nitrogen'), mk('Langmuir', {'K': 0.7, 'n_m': 4.0}, 'methane')]
    tm = pgm.get_isotherm_model('Toth', parameters={'K': 3e-5, 'n_m': 5.0, 't': 0.8}, pressure_range=(0.0, 1e5), loading_range=(0.0, 5.0), rmse=0.0)
    toth = pygaps.ModelIsotherm(model=tm, adsorbate='nitrogen', **dict(meta, pressure_unit='Pa'))
    iso_set = [pgp.isotherm_from_json(f) for f in sorted(glob.glob(os.path.join(os.path.dirname(DATA), 'isosteric', '*.json')))]
    Q.update({
        'whittaker(Toth)': lambda i: pgc.enthalpy_sorption_whittaker(toth, loading=[1.0, 2.0, 1e9])['enthalpy_sorption'],
        'isosteric_enthalpy': lambda i: pgc.isosteric_enthalpy(iso_set)['isosteric_enthalpy'],
        'alpha_s': lambda i: pgc.alpha_s(i, _twin(iso), reference_area='BET')['results'],
        'area_langmuir': lambda i: pgc.area_langmuir(i)['area'],
        'da_plot': lambda i: pgc.da_plot(i)['pore_volume'],
        'psd_microporous': lambda i: pgc.psd_microporous(i, psd_model='HK')['pore_widths'],
        'iast_point': lambda i: pgi.iast_point(lang, [0.1, 0.2], warningoff=True),
        'model_iso(guess list)': lambda i: pgm.model_iso(i, model=['Henry', 'Langmuir'], verbose=False).model.name,
        'model_iso(guess)': lambda i: pgm.model_iso(i, model='guess', verbose=False).model.name,
        'to_aif': lambda i: i.to_aif(),
    })
    # who changes the warnings filters / numpy error state: calls made by numpy / scipy / pandas while they are first imported are
    # theirs, calls made from pyGAPS code are the library's
    import sys
    import warnings
    log = []

    def tap(mod, fname):
        real = getattr(mod, fname)

        def wrapper(*a, **k):
            log.append((f"{mod.__name__}.{fname}", sys._getframe(1).f_globals.get('__name__', '?')))
            return real(*a, **k)
        setattr(mod, fname, wrapper)
        return real
    reals = [(m_, n_, tap(m_, n_)) for m_, n_ in ((warnings, 'simplefilter'), (warnings, 'filterwarnings'), (warnings, 'resetwarnings'), (numpy, 'seterr'),
                                                   (numpy, 'set_printoptions'))]
    try:
        for name, f in Q.items():
            del log[:]
            before = _process_state()
            c0 = _module_containers()
            out = _run(f, _twin(iso))
            after = _process_state()
            c1 = _module_containers()
            _run(f, _twin(iso))
            c2 = _module_containers()
            diff = [k for k in before if before[k] != after[k]]
            # module-level containers of the library: unchanged by the call, except declared caches, which may be filled by the
            # first call but must then stay as they are
            grown = [k for k in c2 if c1.get(k) != c2.get(k)] + [k for k in c1 if c0.get(k) != c1.get(k) and k not in CACHE_ALLOW]
            if grown:
                yield {'name': f"process_state_unchanged|{name}", 'ok': False,
                       'detail': f"module-level container changed by the call: {sorted(set(grown))[:3]} (sizes {[(c0.get(k, ('-',))[0], c1.get(k, ('-',))[0], c2.get(k, ('-',))[0]) for k in sorted(set(grown))[:3]]})"}
                continue
            own = [c for c in log if c[1].split('.')[0] == 'pygaps']
            # (a change of the filters / numpy settings counts when pyGAPS code made the call that is still in effect afterwards)
            diff = [k for k in diff if k not in ('warnings.filters', 'numpy.geterr', 'numpy.printoptions') or own]
            detail = ''
            if out[0] == 'raise' and name in MUST_RETURN:
                yield {'name': f"process_state_unchanged|{name}", 'ok': False, 'detail': f"the call did not return ({out[1]}): nothing was exercised"}
                continue
            if diff:
                k = diff[0]
                b, a = before[k], after[k]
                if isinstance(b, tuple):
                    detail = f"{k}: added {[x for x in a if x not in b][:2]}, removed {[x for x in b if x not in a][:2]}; set by {own[:2]}"
                else:
                    detail = f"{k}: {b} -> {a}"
            yield {'name': f"process_state_unchanged|{name}", 'ok': not diff, 'detail': detail}
            if diff:
                # put the settings the case disturbed back, so that the following cases are judged on their own
                reals[2][2]()
                reals[3][2](**dict(before['numpy.geterr']))
    finally:
        for m_, n_, r_ in reals:
            setattr(m_, n_, r_)


_FIRST = r'''
import json, sys, warnings
warnings.filterwarnings('ignore')
import numpy, pygaps, pygaps.characterisation as pgc
pygaps.logger.disabled = True
from pgv.replayers import c04


def meth():
    p = numpy.geomspace(1e3, 2e6, 30)
    l = 5.0 * 3e-6 * p / (1 + (3e-6 * p) ** 0.8) ** (1 / 0.8)
    return pygaps.PointIsotherm(pressure=list(p / 100), loading=list(l), material='pgv_c04', adsorbate='methane', temperature=298.15, pressure_mode='absolute',
                                pressure_unit='mbar', loading_basis='molar', loading_unit='mmol', material_basis='mass', material_unit='g', temperature_unit='K')


def co2():
    return pygaps.PointIsotherm(pressure=[5e3, 1e4, 5e4, 1e5, 2e5, 4e5, 7e5, 1e6], loading=[0.45, 0.83, 2.50, 3.40, 4.20, 4.80, 5.15, 5.35], material='pgv_c04',
                                adsorbate='carbon dioxide', temperature=298.15, pressure_mode='absolute', pressure_unit='Pa', loading_basis='molar',
                                loading_unit='mmol', material_basis='mass', material_unit='g', temperature_unit='K')


Q = {
    'whittaker(point isotherm)': lambda: [round(float(v), 6) for v in pgc.enthalpy_sorption_whittaker(meth(), model='Toth', loading=[1.0, 2.0])['enthalpy_sorption']],
    'relative pressures': lambda: [round(float(v), 9) for v in meth().pressure(pressure_mode='relative')[:3]],
    'loading in cm3 gas': lambda: [round(float(v), 6) for v in meth().loading(loading_basis='volume_gas', loading_unit='cm3')[:3]],
    'saturation pressure': lambda: round(float(pygaps.Adsorbate.find('methane').saturation_pressure(150.0)), 3),
    'area_BET(MCM-41)': lambda: round(float(pgc.area_BET(c04._load())['area']), 6),
    # a vapour below its critical temperature: every saturation property exists, and the analyses drive the shared backend state
    # through other kinds of input (pressure-quality) between two temperature-quality requests
    'whittaker(CO2, sub-critical)': lambda: [round(float(v), 6) for v in pgc.enthalpy_sorption_whittaker(co2(), model='Toth', loading=[1.0, 2.0, 3.0])['enthalpy_sorption']],
    'relative pressures (CO2)': lambda: [round(float(v), 9) for v in co2().pressure(pressure_mode='relative')[:3]],
    'loading in cm3 liquid (CO2)': lambda: [round(float(v), 9) for v in co2().loading(loading_basis='volume_liquid', loading_unit='cm3')[:3]],
    'saturation pressure (CO2, 298.15 K)': lambda: round(float(pygaps.Adsorbate.find('carbon dioxide').saturation_pressure(298.15)), 3),
    'surface tension (CO2, 298.15 K)': lambda: round(float(pygaps.Adsorbate.find('carbon dioxide').surface_tension(298.15)), 9),
    'vaporisation enthalpy at 20 bar (CO2)': lambda: round(float(pygaps.Adsorbate.find('carbon dioxide').enthalpy_vaporisation(press=2e6)), 6),
}


def run(name):
    try:
        return ['value', Q[name]()]
    except Exception as exc:
        return ['error', type(exc).__name__]


which = sys.argv[1]
if which == 'ALL':
    order = list(Q)
    out = {}
    for k in order[1:] + order[:1]:      # the first query of the list comes last, after every other one
        out[k] = run(k)
    for k in order:                        # and each one once more
        out[k + ' (second time)'] = run(k)
    for k in order:                        # and sandwiched: k, another query, k again (the one in between is all that separates them)
        for mid in order:
            if mid != k and ('CO2' in k) == ('CO2' in mid):
                run(k)
                run(mid)
                r = run(k)
                if r != out[k]:
                    out[k + ' (sandwich)'] = ['differs', f"{r} straight after {mid!r} which followed the same query; {out[k]} before"]
                    break
    print('PGV-JSON' + json.dumps(out))
else:
    print('PGV-JSON' + json.dumps({which: run(which)}))
'''


def first_in_process_cases():
    """the outcome of a query issued as the very first thing in a fresh interpreter equals its outcome after other queries (on other
    isotherms of the same adsorbate) in a long-lived one -- the state the library keeps per process (thermodynamic backends,
    registries, caches) does not show"""
    import json
    import subprocess
    import sys
    root = os.path.dirname(os.path.dirname(os.path.dirname(os.path.abspath(__file__))))
    env = dict(os.environ, PYTHONPATH=f"{REPO}/src:{root}", PGV_REPO=REPO)

    def sub(arg):
        p = subprocess.run([sys.executable, '-c', _FIRST, arg], capture_output=True, text=True, env=env, timeout=900)
        line = [ln for ln in p.stdout.splitlines() if ln.startswith('PGV-JSON')]
        return json.loads(line[-1][8:]) if line else {'__error__': (p.stderr or p.stdout)[-300:]}
    names = ['whittaker(point isotherm)', 'relative pressures', 'loading in cm3 gas', 'saturation pressure', 'area_BET(MCM-41)', 'whittaker(CO2, sub-critical)',
             'relative pressures (CO2)', 'loading in cm3 liquid (CO2)', 'saturation pressure (CO2, 298.15 K)', 'surface tension (CO2, 298.15 K)',
             'vaporisation enthalpy at 20 bar (CO2)']
    long_lived = sub('ALL')
    if '__error__' in long_lived:
        yield {'name': 'first_in_process|harness', 'ok': False, 'detail': long_lived['__error__']}
        return
    for n in names:
        fresh = sub(n).get(n)
        later, again = long_lived.get(n), long_lived.get(n + ' (second time)')
        sand = long_lived.get(n + ' (sandwich)')
        ok = fresh == later == again and sand is None
        yield {'name': f"first_in_process|{n}", 'ok': ok,
               'detail': '' if ok else f"first in a fresh process: {fresh}; after other queries: {later}; once more: {again}" + (f"; between two identical queries: {sand[1]}" if sand else '')}


@replayer('c04.first')
def _first(spec, model):
    for r in first_in_process_cases():
        if r['name'] == spec['name']:
            return {'confirmed': not r['ok'], 'observed': r['detail'], 'expected': 'the same outcome whether or not other queries came first'}
    return {'confirmed': False, 'error': 'case not found'}


def process_state_cases():
    """the cases of `_process_state_worker`, run in an interpreter of their own (nothing of this checker loaded into pyGAPS)"""
    import json
    import subprocess
    import sys
    root = os.path.dirname(os.path.dirname(os.path.dirname(os.path.abspath(__file__))))
    env = dict(os.environ, PYTHONPATH=f"{REPO}/src:{root}", PGV_REPO=REPO)
    code = "import json, warnings\nfrom pgv.replayers import c04\nprint('PGV-JSON' + json.dumps(list(c04._process_state_worker())))"
    p = subprocess.run([sys.executable, '-c', code], capture_output=True, text=True, env=env, timeout=1200)
    line = [ln for ln in p.stdout.splitlines() if ln.startswith('PGV-JSON')]
    if not line:
        yield {'name': 'process_state_unchanged|harness', 'ok': False, 'detail': (p.stderr or p.stdout)[-300:]}
        return
    yield from json.loads(line[-1][8:])


@replayer('c04.process_state')
def _pstate(spec, model):
    for r in process_state_cases():
        if r['name'] == spec['name']:
            return {'confirmed': not r['ok'], 'observed': r['detail'], 'expected': 'interpreter-wide settings unchanged by the call'}
    return {'confirmed': False, 'error': 'case not found'}


def model_pairs():
    """ordered pairs of read-only queries on a *model* isotherm (parameters with many significant digits, pressures in Pa)"""
    import pygaps
    import pygaps.modelling as pgm
    pygaps.logger.disabled = True

    def mk():
        m = pgm.get_isotherm_model('Langmuir')
        m.params = {'K': 1.2345678e-05, 'n_m': 4.199999999999797}
        m.pressure_range, m.loading_range, m.rmse = (0.0, 1e5), (0.0, 4.0), 0.0
        return pygaps.ModelIsotherm(model=m, material='pgv_c04', adsorbate='nitrogen', temperature=77.355, pressure_mode='absolute', pressure_unit='Pa',
                                    loading_basis='molar', loading_unit='mmol', material_basis='mass', material_unit='g', temperature_unit='K')
    Q = {
        'iso_id': lambda i: i.iso_id, 'eq': lambda i: i == mk(), 'to_json': lambda i: i.to_json(), 'to_csv': lambda i: i.to_csv(), 'to_aif': lambda i: i.to_aif(),
        'to_dict': lambda i: str(i.to_dict()), 'loading_at': lambda i: i.loading_at(30000.0), 'pressure_at': lambda i: i.pressure_at(1.5),
        'spreading_pressure_at': lambda i: i.spreading_pressure_at(30000.0), 'loading_at(kPa)': lambda i: i.loading_at(30.0, pressure_unit='kPa'),
    }
    for a in Q:
        for b in Q:
            fresh, used = mk(), mk()
            o_fresh = _run(Q[b], fresh)
            before = (dict(used.model.params), str(used.to_dict()))
            _run(Q[a], used)
            o_used = _run(Q[b], used)
            after = (dict(used.model.params), str(used.to_dict()))
            ok = _eq(o_fresh, o_used) and before == after if b not in ('to_json', 'to_csv', 'to_aif', 'to_dict') else (o_fresh == o_used and before == after)
            yield {'name': f"model:{b}|after:{a}", 'ok': bool(ok), 'detail': '' if ok else f"fresh {str(o_fresh)[:70]} / after {a}: {str(o_used)[:70]} / model unchanged: {before == after}"}


@replayer('c04.modelpair')
def _modelpair(spec, model):
    for r in model_pairs():
        if r['name'] == spec['name']:
            return {'confirmed': not r['ok'], 'observed': r['detail'], 'expected': 'same outcome as on a fresh model isotherm; model unchanged'}
    return {'confirmed': False, 'error': 'case not found'}


@replayer('c04.realpair')
def _realpair(spec, model):
    b, a = spec['name'].split('|after:')
    ok, detail = pair_case(_load(), catalogue(), a, b)
    return {'confirmed': not ok, 'observed': detail, 'expected': 'same outcome as on a fresh isotherm; isotherm unchanged'}


_SX2REAL = {
    'loading_at': lambda i, p, l: i.loading_at(p), 'loading_at.fill0': lambda i, p, l: i.loading_at(p, interp_fill=0),
    'loading_at.extrapolate': lambda i, p, l: i.loading_at(p, interp_fill='extrapolate'),
    'loading_at.des': lambda i, p, l: i.loading_at(p, branch='des'),
    'loading_at.Pa': lambda i, p, l: i.loading_at(p, pressure_unit='Pa', loading_unit='mol'),
    'pressure_at': lambda i, p, l: i.pressure_at(l), 'pressure_at.extrapolate': lambda i, p, l: i.pressure_at(l, interp_fill='extrapolate'),
    'pressure_at.des': lambda i, p, l: i.pressure_at(l, branch='des'),
    'spreading_pressure_at': lambda i, p, l: i.spreading_pressure_at(p),
    'spreading_pressure_at.fill': lambda i, p, l: i.spreading_pressure_at(p, interp_fill='extrapolate'),
    'pressure': lambda i, p, l: i.pressure(branch='ads'), 'loading': lambda i, p, l: i.loading(branch='des', loading_unit='mol'),
}


@replayer('c04.pair')
def _pair(spec, model):
    """the symbolic (prior, query) pair on a real isotherm with the model's data where available"""
    import pygaps
    pygaps.logger.disabled = True
    g = lambda k, d: float(model[k]) if isinstance(model.get(k), (int, float)) else d
    p = [g('p0', 0.1), g('p1', 0.2), g('p2', 0.3), g('p3', 0.25)]
    l = [g('l0', 1.0), g('l1', 2.0), g('l2', 3.0), g('l3', 2.8)]
    pygaps.Adsorbate('pgv_c04_ads', store=True, saturation_pressure=101325.0, molar_mass=28.0)
    mk = lambda: pygaps.PointIsotherm(pressure=p, loading=l, branch=[0, 0, 0, 1], material='m', adsorbate='pgv_c04_ads', temperature=300,
                                      pressure_mode='absolute', pressure_unit='bar', loading_basis='molar', loading_unit='mmol',
                                      material_basis='mass', material_unit='g', temperature_unit='K')
    bad = []
    qps = [g('qp', 0.15), 0.05, 0.15, 0.5]
    qls = [g('ql', 1.5), 0.5, 1.5, 5.0]
    for qp, ql in zip(qps, qls):
        for qp2, ql2 in ((g('qp2', 0.12), g('ql2', 1.2)), (0.05, 0.5), (0.9, 9.0)):
            fresh, used = mk(), mk()
            q = _SX2REAL[spec['query']]
            o1 = _run(lambda i: q(i, qp, ql), fresh)
            if spec.get('prior'):
                _run(lambda i: _SX2REAL[spec['prior']](i, qp2, ql2), used)
            s0 = _state(used)
            o2 = _run(lambda i: q(i, qp, ql), used)
            if not _eq(o1, o2) or not _same_state(s0, _state(used)):
                bad.append({'query_args': (qp, ql), 'prior_args': (qp2, ql2), 'fresh': str(o1)[:60], 'after_prior': str(o2)[:60]})
    return {'confirmed': bool(bad), 'observed': bad[:3], 'expected': 'identical outcome with and without the earlier query'}


@replayer('c04.static')
def _static(spec, model):
    """best effort: call the function on real sample isotherms and compare their observable state before / after"""
    import importlib
    import inspect
    import pygaps
    pygaps.logger.disabled = True
    qual = spec['function']
    parts = qual.split('.')
    obj = None
    for k in range(len(parts) - 1, 0, -1):
        try:
            obj = importlib.import_module('.'.join(parts[:k]))
            for name in parts[k:]:
                obj = getattr(obj, name)
            break
        except Exception:
            obj = None
    if obj is None or not callable(obj):
        return {'confirmed': False, 'error': f'cannot resolve {qual}', 'observed': spec.get('writes')}
    base = _load()
    ref = _load('SiO2 N2 77.355.json')
    changed = []
    sig = inspect.signature(obj)
    for attempt in range(3):
        iso, r = _twin(base), _twin(ref)
        kwargs = {}
        for pname in sig.parameters:
            if pname in ('isotherm', 'iso', 'self'):
                kwargs[pname] = iso
            elif pname == 'reference_isotherm':
                kwargs[pname] = r
            elif pname == 'isotherms':
                kwargs[pname] = [iso, r]
        if attempt == 1:
            iso.convert_pressure(mode_to='absolute', unit_to='bar')
        if attempt == 2:
            iso.convert_loading(basis_to='mass', unit_to='mg')
        s0 = [_state(x) for x in (iso, r)]
        try:
            if 'self' in kwargs:
                getattr(kwargs.pop('self'), parts[-1])()
            else:
                obj(**kwargs)
        except Exception as exc:
            pass
        s1 = [_state(x) for x in (iso, r)]
        for nm, a, b in zip(('isotherm', 'reference'), s0, s1):
            if not _same_state(a, b):
                changed.append({'argument': nm, 'start': ['as stored', 'absolute bar', 'mass mg'][attempt],
                                'labels_before': {k: a[0].get(k) for k in ('pressure_mode', 'pressure_unit', 'loading_basis', 'loading_unit')},
                                'labels_after': {k: b[0].get(k) for k in ('pressure_mode', 'pressure_unit', 'loading_basis', 'loading_unit')}})
    return {'confirmed': bool(changed), 'observed': changed[:3] or spec.get('writes'), 'expected': 'arguments observably unchanged'}


def argument_container_cases():
    """the dictionaries and lists a caller hands to a fit / an IAST call next to the isotherms (starting values, bounds, optimiser
    options, lists of models, fractions) outlive the call: they are unchanged afterwards, and the same objects reused for a second
    isotherm give the outcome that fresh ones give"""
    import copy
    import warnings
    import pygaps
    import pygaps.iast as pgi
    import pygaps.modelling as pgm
    pygaps.logger.disabled = True
    meta = dict(material='pgv_c04', adsorbate='nitrogen', temperature=77.355, pressure_mode='absolute', pressure_unit='bar', loading_basis='molar',
                loading_unit='mmol', material_basis='mass', material_unit='g', temperature_unit='K')
    pa = numpy.linspace(0.05, 2.0, 15)
    iso_a = pygaps.PointIsotherm(pressure=pa, loading=10.0 * 1.0 * pa / (1 + 1.0 * pa), **meta)
    pb = numpy.linspace(0.05, 4.0, 18)
    iso_b = pygaps.PointIsotherm(pressure=pb, loading=2.0 * 0.5 * pb / (1 + 0.5 * pb), **meta)

    def outcome(f):
        with warnings.catch_warnings():
            warnings.simplefilter('ignore')
            try:
                m = f()
                return ('return', [float(m.model.params[k]) for k in sorted(m.model.params)] if hasattr(m, 'model') else numpy.asarray(m, dtype=float).ravel().tolist())
            except Exception as exc:
                return ('raise', type(exc).__name__)
    calls = {
        'model_iso|partial_param_guess+bounds': ({'param_guess': {'K': 1.0}, 'param_bounds': {'n_m': (0.0, 5.0)}},
                                                 lambda iso, kw: pgm.model_iso(iso, model='Langmuir', **kw)),
        'model_iso|full_param_guess': ({'param_guess': {'K': 1.0, 'n_m': 3.0}}, lambda iso, kw: pgm.model_iso(iso, model='Langmuir', **kw)),
        'model_iso|partial_bounds+optimization_params': ({'param_bounds': {'K': [0.0, 20.0]}, 'optimization_params': {'max_nfev': 2000}},
                                                         lambda iso, kw: pgm.model_iso(iso, model='Langmuir', **kw)),
        'ModelIsotherm.from_pointisotherm|list_of_models': ({'model': ['Henry', 'Langmuir']}, lambda iso, kw: pygaps.ModelIsotherm.from_pointisotherm(iso, **kw)),
        'ModelIsotherm|partial_param_guess': ({'param_guess': {'n_m': 4.0}}, lambda iso, kw: pygaps.ModelIsotherm(pressure=iso.pressure(), loading=iso.loading(), model='Langmuir',
                                                                                                                   **kw, **meta)),
    }
    for name, (kwargs, call) in calls.items():
        probs = []
        shared = copy.deepcopy(kwargs)
        outcome(lambda: call(iso_a, shared))
        if repr(shared) != repr(kwargs):
            probs.append(f"the call changed what it was given: {kwargs} -> {shared}"[:220])
        second = outcome(lambda: call(iso_b, shared))
        fresh = outcome(lambda: call(iso_b, copy.deepcopy(kwargs)))
        if not _eq(second, fresh):
            probs.append(f"on a second isotherm the reused arguments give {second}, fresh ones {fresh}"[:220])
        yield {'name': f"argument_containers|{name}", 'ok': not probs, 'detail': '; '.join(probs)}
    # IAST: the lists of partial pressures / fractions
    ma = pygaps.ModelIsotherm(model=pgm.get_isotherm_model('Langmuir', parameters={'K': 2.0, 'n_m': 5.0}, pressure_range=(0.0, 10.0), loading_range=(0.0, 5.0), rmse=0.0), **meta)
    mb = pygaps.ModelIsotherm(model=pgm.get_isotherm_model('Langmuir', parameters={'K': 0.5, 'n_m': 3.0}, pressure_range=(0.0, 10.0), loading_range=(0.0, 3.0), rmse=0.0), **meta)
    for name, arg, call in (('iast_point|partial_pressures', [0.4, 0.6], lambda a: pgi.iast_point([ma, mb], a)),
                            ('iast_point_fraction|fractions', [0.3, 0.7], lambda a: pgi.iast_point_fraction([ma, mb], a, 1.0)),
                            ('reverse_iast|fractions', [0.25, 0.75], lambda a: pgi.reverse_iast([ma, mb], a, 1.0)[0])):
        probs = []
        shared = list(arg)
        first = outcome(lambda: call(shared))
        if shared != arg:
            probs.append(f"the call changed the list it was given: {arg} -> {shared}")
        again = outcome(lambda: call(shared))
        if not _eq(first, again):
            probs.append(f"the same list again gives {again}, first {first}"[:200])
        yield {'name': f"argument_containers|{name}", 'ok': not probs, 'detail': '; '.join(probs)}


@replayer('c04.arguments')
def _arguments(spec, model):
    for r in argument_container_cases():
        if r['name'] == spec['name']:
            return {'confirmed': not r['ok'], 'observed': r['detail'], 'expected': 'arguments unchanged; reused arguments behave as fresh ones'}
    return {'confirmed': False, 'error': 'case not found'}


def fill_rule_history_cases():
    """an interpolated query with a fill rule in any documented form (number, pair, array, pair of arrays, 'extrapolate') gives the
    same outcome on a freshly built isotherm and after queries with every other fill rule"""
    import pygaps
    pygaps.logger.disabled = True
    meta = dict(material='pgv_c04', adsorbate='nitrogen', temperature=77.355, pressure_mode='absolute', pressure_unit='bar', loading_basis='molar',
                loading_unit='mmol', material_basis='mass', material_unit='g', temperature_unit='K')
    mk = lambda: pygaps.PointIsotherm(pressure=[1.0, 2.0, 3.0, 4.0], loading=[1.0, 2.5, 3.5, 4.0], **meta)
    fills = {'none': None, 'number': 4.0, 'zero': 0, 'pair': (0.0, 4.0), 'array': numpy.array([4.0]), 'pair_of_arrays': (numpy.array(0.0), numpy.array(4.0)),
             'list': [4.0], 'extrapolate': 'extrapolate'}
    for meth, q in (('loading_at', 5.0), ('pressure_at', 4.5)):
        for later, lf in fills.items():
            fresh = _run(lambda i: float(numpy.asarray(getattr(i, meth)(q, interp_fill=lf), dtype=float).ravel()[0]), mk())
            probs = []
            for earlier, ef in fills.items():
                iso = mk()
                _run(lambda i: getattr(i, meth)(q, interp_fill=ef), iso)
                after = _run(lambda i: float(numpy.asarray(getattr(i, meth)(q, interp_fill=lf), dtype=float).ravel()[0]), iso)
                if not _eq(fresh, after):
                    probs.append(f"after a query with fill rule '{earlier}': {after}, on a fresh isotherm: {fresh}")
            yield {'name': f"fill_rule_history|{meth}|{later}", 'ok': not probs, 'detail': '; '.join(probs[:2])[:300]}


@replayer('c04.fill_history')
def _fill_history(spec, model):
    for r in fill_rule_history_cases():
        if r['name'] == spec['name']:
            return {'confirmed': not r['ok'], 'observed': r['detail'], 'expected': 'the outcome on a freshly built isotherm'}
    return {'confirmed': False, 'error': 'case not found'}


def backendless_adsorbate_cases():
    """an isotherm of a user-defined adsorbate without a thermodynamic backend (its physical values are in its properties): every
    unit / mode / basis query gives the outcome of a first call on a freshly built pair after every other query and when repeated
    (with an adsorbate whose backend name cannot be constructed as a second variant)"""
    import pygaps
    pygaps.logger.disabled = True
    props = dict(molar_mass=58.1, liquid_molar_density=0.0103, gas_molar_density=4.1e-5, liquid_density=0.6, gas_density=0.0024, saturation_pressure=101325,
                 surface_tension=20.0, enthalpy_liquefaction=25.0)
    queries = {
        'loading(volume_liquid cm3)': lambda i: i.loading(loading_basis='volume_liquid', loading_unit='cm3'),
        'loading_at(0.5, volume_gas cm3)': lambda i: i.loading_at(0.5, loading_basis='volume_gas', loading_unit='cm3'),
        'loading(mass g)': lambda i: i.loading(loading_basis='mass', loading_unit='g'),
        'pressure(relative)': lambda i: i.pressure(pressure_mode='relative'),
        'pressure_at(2.0 mmol -> kPa)': lambda i: i.pressure_at(2.0, pressure_unit='kPa'),
        'loading(percent)': lambda i: i.loading(loading_basis='percent'),
        'spreading_pressure_at(0.5)': lambda i: i.spreading_pressure_at(0.5),
    }
    for variant, extra in (('no_backend_name', {}), ('backend_name_that_cannot_be_built', {'backend_name': 'PGV_NOT_A_FLUID'})):
        def fresh():
            pygaps.ADSORBATE_LIST[:] = [a for a in pygaps.ADSORBATE_LIST if a.name != 'pgv_vapour']
            pygaps.Adsorbate('pgv_vapour', store=True, **props, **extra)
            return pygaps.PointIsotherm(pressure=[0.1, 0.2, 0.4, 0.6, 0.8], loading=[1.0, 1.8, 2.9, 3.5, 3.8], material='pgv_c04', adsorbate='pgv_vapour',
                                        temperature=273.0, pressure_mode='absolute', pressure_unit='bar', loading_basis='molar', loading_unit='mmol',
                                        material_basis='mass', material_unit='g', temperature_unit='K')
        try:
            for qn, q in queries.items():
                first = _run(q, fresh())
                probs = []
                for hn, h in queries.items():
                    iso = fresh()
                    _run(h, iso)
                    later = _run(q, iso)
                    if not _eq(first, later):
                        probs.append(f"after {hn}: {later if later[0] == 'raise' else 'another value'}; as a first call: {first if first[0] == 'raise' else 'a value'}")
                yield {'name': f"backendless_adsorbate|{variant}|{qn}", 'ok': not probs, 'detail': '; '.join(probs[:2])[:300]}
        finally:
            pygaps.ADSORBATE_LIST[:] = [a for a in pygaps.ADSORBATE_LIST if a.name != 'pgv_vapour']


@replayer('c04.backendless')
def _backendless(spec, model):
    for r in backendless_adsorbate_cases():
        if r['name'] == spec['name']:
            return {'confirmed': not r['ok'], 'observed': r['detail'], 'expected': 'the outcome of a first call on a freshly built isotherm and adsorbate'}
    return {'confirmed': False, 'error': 'case not found'}
