"""C18 native side: the shipped DFT kernel with the real optimiser (bounded)."""
from __future__ import annotations

import random

import numpy

from pgv.replay import replayer


def kernel_cases(seed, thorough=False):
    import pygaps
    pygaps.logger.disabled = True
    import pygaps.characterisation.psd_kernel as PK
    from pygaps.data import KERNELS
    from pygaps.utilities.exceptions import CalculationError
    import pandas
    path = KERNELS['DFT-N2-77K-carbon-slit']
    kernel = PK._load_kernel(path)
    widths = numpy.asarray(list(kernel.keys()), dtype=float)
    rnd = random.Random(seed)
    p = numpy.geomspace(1e-6, 0.9, 60)
    kp = numpy.asarray([kernel[s](p) for s in kernel])
    reps = 6 if thorough else 2
    for r in range(reps):
        for style in ('sparse', 'dense'):
            w = numpy.zeros(len(widths))
            idx = rnd.sample(range(len(widths)), 3 if style == 'sparse' else 25)
            for i in idx:
                w[i] = rnd.uniform(0.05, 1.0)
            loading = (kp * w[:, None]).sum(axis=0)
            for order in ((0, 1, 2, 3) if (thorough or r == 0) else (2,)):
                name = f"mixture|{style}|case{r}|order={order}"
                try:
                    pw, dist, cum, fitted = PK.psd_dft_kernel_fit(p, loading, path, order)
                except CalculationError as exc:
                    yield {'name': name, 'ok': True, 'detail': 'optimiser reported failure (no claim)'}
                    continue
                probs = []
                scale = float(numpy.max(loading))
                if not numpy.allclose(fitted, loading, atol=0.02 * scale):
                    probs.append(f"fitted isotherm deviates by {float(numpy.max(numpy.abs(fitted - loading))):.3g} (scale {scale:.3g})")
                if numpy.min(dist) < -1e-9 * max(1.0, float(numpy.max(numpy.abs(dist)))):
                    probs.append(f"negative distribution value {float(numpy.min(dist)):.3g}")
                if numpy.any(numpy.diff(cum) < -1e-9 * max(1.0, float(numpy.max(numpy.abs(cum))))):
                    probs.append("cumulative volume decreases")
                dw = numpy.ediff1d(pw, to_begin=pw[0])
                if not numpy.allclose(cum, numpy.cumsum(dist * dw)):
                    probs.append("cumulative != running integral of the distribution")
                yield {'name': name, 'ok': not probs, 'detail': '; '.join(probs)}
    # user-supplied kernel files: each fit uses the file it was given (two files with the same name in different folders,
    # then the shipped kernel again), reports that file's pore widths and reproduces an exact combination of its isotherms
    import shutil
    import tempfile
    tmp = tempfile.mkdtemp(prefix='pgv-c18-')
    try:
        raw = pandas.read_csv(path, index_col=0)
        parts = {'a': raw.iloc[:, :20], 'b': raw.iloc[:, 40:60]}
        files = {}
        for k, df in parts.items():
            os_dir = tmp + '/' + k
            import os as _os
            _os.makedirs(os_dir)
            files[k] = os_dir + '/kernel.csv'
            df.to_csv(files[k])
        for k in ('a', 'b', 'a'):
            cols = numpy.asarray(parts[k].columns, dtype=float)
            kern = PK._load_kernel(files[k])
            wk = numpy.asarray(list(kern.keys()), dtype=float)
            ok_w = len(wk) == len(cols) and numpy.allclose(wk, cols)
            w = numpy.zeros(len(cols))
            w[[2, 9, 15]] = (0.5, 0.3, 0.8)
            loading = sum(w[i] * numpy.asarray(parts[k].iloc[:, i].values, dtype=float) for i in range(len(cols)))
            pk = numpy.asarray(parts[k].index, dtype=float)
            sel = (pk > 1e-6) & (pk < 0.9)
            try:
                pw, dist, cum, fitted = PK.psd_dft_kernel_fit(pk[sel], loading[sel], files[k], 2)
                ok_f = numpy.allclose(fitted, loading[sel], atol=0.02 * float(numpy.max(loading))) and bool(numpy.isclose(pw[0], cols[0]) and numpy.isclose(pw[-1], cols[-1]))
                detail = '' if (ok_w and ok_f) else f"kernel widths {wk[:3]} vs file {cols[:3]}; reported widths {float(pw[0]):.3g}..{float(pw[-1]):.3g} vs {cols[0]:.3g}..{cols[-1]:.3g}; max deviation {float(numpy.max(numpy.abs(fitted - loading[sel]))):.3g}"
            except CalculationError:
                ok_f, detail = True, 'optimiser reported failure (no claim)'
            yield {'name': f"user_kernel_file|same_name_other_folder|{k}", 'ok': bool(ok_w and ok_f), 'detail': detail}
        # the same kernel with its columns written in decreasing width order
        rev = tmp + '/reversed.csv'
        raw[raw.columns[::-1]].to_csv(rev)
        pk = numpy.geomspace(1e-5, 0.9, 50)
        wv = numpy.zeros(len(widths))
        wv[20], wv[50] = 0.02, 0.01
        lv = sum(wv[i] * numpy.asarray(kernel[s](pk), dtype=float) for i, s in enumerate(kernel))
        try:
            pw, dist, cum, fitted = PK.psd_dft_kernel_fit(pk, lv, rev, 0)
            okr = bool(numpy.min(dist) >= -1e-9 and numpy.all(numpy.diff(pw) > 0) and numpy.all(numpy.diff(cum) >= -1e-9))
            yield {'name': 'user_kernel_file|columns_in_decreasing_width_order', 'ok': okr,
                   'detail': '' if okr else f"min distribution {float(numpy.min(dist)):.4g}; widths increasing: {bool(numpy.all(numpy.diff(pw) > 0))}"}
        except CalculationError:
            yield {'name': 'user_kernel_file|columns_in_decreasing_width_order', 'ok': True, 'detail': 'optimiser reported failure (no claim)'}
        # a kernel whose pore widths run past 10 nm (labels such as '9.6', '12.0': numerical, not lexicographic, order)
        big = raw.iloc[:, ::3].copy()
        big.columns = [repr(round(float(c) * 4, 4)) for c in big.columns]
        bigf = tmp + '/wide.csv'
        big.to_csv(bigf)
        bw = numpy.asarray(big.columns, dtype=float)
        pk = numpy.asarray(big.index, dtype=float)
        sel = (pk > 1e-6) & (pk < 0.9)
        wv = numpy.zeros(len(bw))
        wv[[3, len(bw) // 2, len(bw) - 2]] = (0.02, 0.01, 0.015)
        lv = sum(wv[i] * numpy.asarray(big.iloc[:, i].values, dtype=float) for i in range(len(bw)))
        try:
            pw, dist, cum, fitted = PK.psd_dft_kernel_fit(pk[sel], lv[sel], bigf, 0)
            probs = []
            if not (len(pw) == len(bw) and numpy.allclose(pw, numpy.sort(bw))):
                probs.append(f"reported widths {numpy.asarray(pw)[:4]}.. are not the file's widths in increasing order {numpy.sort(bw)[:4]}..")
            if numpy.min(dist) < -1e-9:
                probs.append(f"negative distribution value {float(numpy.min(dist)):.3g}")
            if numpy.any(numpy.diff(cum) < -1e-9):
                probs.append('cumulative volume decreases')
            if not numpy.allclose(fitted, lv[sel], atol=0.02 * float(numpy.max(lv))):
                probs.append(f"fitted isotherm deviates by {float(numpy.max(numpy.abs(fitted - lv[sel]))):.3g}")
            yield {'name': 'user_kernel_file|widths_beyond_10nm', 'ok': not probs, 'detail': '; '.join(probs)}
        except CalculationError:
            yield {'name': 'user_kernel_file|widths_beyond_10nm', 'ok': True, 'detail': 'optimiser reported failure (no claim)'}
        again = PK._load_kernel(path)
        ok = numpy.allclose(numpy.asarray(list(again.keys()), dtype=float), widths)
        yield {'name': 'user_kernel_file|shipped_kernel_afterwards', 'ok': bool(ok), 'detail': ''}
    finally:
        shutil.rmtree(tmp, ignore_errors=True)
    # pressures outside the kernel range are refused with a calculation error
    try:
        PK.psd_dft_kernel_fit(numpy.array([0.5, 1.5, 2.0]), numpy.array([1.0, 2.0, 3.0]), path, 2)
        out = 'return'
    except CalculationError:
        out = 'CalculationError'
    except Exception as exc:
        out = type(exc).__name__
    yield {'name': 'pressure_outside_kernel_range_refused', 'ok': out == 'CalculationError', 'detail': out}
    # ... also when only the last point lies just above the kernel's last pressure and the rest is a perfectly fittable isotherm
    p_hi = float(max(numpy.asarray(pandas.read_csv(path, index_col=0).index, dtype=float)))
    pe = numpy.append(numpy.geomspace(1e-6, 0.9, 40), [p_hi + 0.5 * (1 - p_hi)])
    we = numpy.zeros(len(widths))
    we[[5, 30, 60]] = (0.4, 0.6, 0.3)
    le = numpy.asarray([sum(we[i] * float(kernel[s](min(x, p_hi))) for i, s in enumerate(kernel)) for x in pe])
    try:
        PK.psd_dft_kernel_fit(pe, le, path, 2)
        out = 'return'
    except CalculationError as exc:
        out = 'CalculationError' if 'kernel' in str(exc).lower() else f"CalculationError for another reason: {exc}"[:100]
    except Exception as exc:
        out = type(exc).__name__
    yield {'name': 'pressure_just_above_kernel_range_refused', 'ok': out == 'CalculationError', 'detail': out}
    # only points inside the limits influence the result (entry point on a real isotherm)
    import os
    import pygaps.parsing as pgp
    iso = pgp.isotherm_from_json(os.path.join(os.environ.get('PGV_REPO', '/repo'), 'docs/examples/data/characterisation/MCM-41 N2 77.355.json'))
    a = PK.psd_dft(iso, p_limits=(0.001, 0.5))
    data = iso.data_raw.copy()
    pr = iso.pressure(branch='ads', pressure_mode='relative')
    mask = (data['branch'] == 0) & (iso.data_raw[iso.pressure_key].isin(iso.pressure(branch='ads')[pr > 0.6]))
    data.loc[mask, iso.loading_key] = data.loc[mask, iso.loading_key] * 1.5
    iso2 = pygaps.PointIsotherm.from_isotherm(iso, isotherm_data=data, pressure_key=iso.pressure_key, loading_key=iso.loading_key)
    b = PK.psd_dft(iso2, p_limits=(0.001, 0.5))
    ok = numpy.allclose(a['pore_distribution'], b['pore_distribution'], rtol=1e-9) and a['limits'] == b['limits']
    yield {'name': 'points_outside_limits_do_not_influence_result', 'ok': bool(ok), 'detail': ''}


@replayer('c18.case')
def _case(spec, model):
    for r in kernel_cases(spec.get('seed', 0), thorough=True):
        if r['name'] == spec['name']:
            return {'confirmed': not r['ok'], 'observed': r['detail']}
    return {'confirmed': False, 'error': 'case not found'}


@replayer('c18.fit')
def _fit(spec, model):
    bad = [r for r in kernel_cases(0) if not r['ok']]
    return {'confirmed': bool(bad), 'observed': [(b['name'], b['detail']) for b in bad[:3]]}


@replayer('c18.window')
def _window(spec, model):
    bad = [r for r in kernel_cases(0) if not r['ok'] and r['name'].startswith('points_outside')]
    return {'confirmed': bool(bad), 'observed': [(b['name'], b['detail']) for b in bad[:3]]}
