"""C20 native side: CoolProp physics over the backend-linked shipped adsorbates (bounded) and replayers."""
from __future__ import annotations

import numpy

from pgv.replay import close, replayer

UNITS = {'Pa': 1.0, 'kPa': 1e3, 'MPa': 1e6, 'mbar': 1e2, 'bar': 1e5, 'atm': 101325.0, 'mmHg': 133.322387415, 'torr': 101325.0 / 760}


def physics_cases(seed, thorough=False):
    import pygaps
    pygaps.logger.disabled = True
    fluids = [a for a in pygaps.ADSORBATE_LIST if a.properties.get('backend_name')]
    nT = 25 if thorough else 5
    for a in fluids:
        problems = []
        try:
            Tt, Tc = a.t_triple(), a.t_critical()
            pt, pc = a.p_triple(), a.p_critical()
            M = a.molar_mass()
        except Exception as exc:
            yield {'name': a.name, 'ok': True, 'detail': f"backend constants unavailable ({type(exc).__name__}); skipped"}
            continue
        lo = max(Tt, 0.3 * Tc) * 1.02
        Ts = numpy.linspace(lo, Tc * 0.98, nT)
        last_p = None
        n_ok = 0
        for T in Ts:
            try:
                ps = a.saturation_pressure(T)
                rl, rlm = a.liquid_density(T), a.liquid_molar_density(T)
                rg, rgm = a.gas_density(T), a.gas_molar_density(T)
                hv = a.enthalpy_vaporisation(T)
            except Exception as exc:
                continue  # outside the validity range of this equation of state: no value, no claim
            n_ok += 1
            if not close(rl, rlm * M, rel=1e-6):
                problems.append(f"T={T:.1f}: liquid rho {rl} != rhobar*M {rlm * M}")
            if not close(rg, rgm * M, rel=1e-6):
                problems.append(f"T={T:.1f}: gas rho {rg} != rhobar*M {rgm * M}")
            if not (pt * (1 - 1e-6) <= ps <= pc * (1 + 1e-6)):
                problems.append(f"T={T:.1f}: p_sat {ps} not within [p_t {pt}, p_c {pc}]")
            if last_p is not None and ps <= last_p:
                problems.append(f"T={T:.1f}: p_sat not increasing ({last_p} -> {ps})")
            last_p = ps
            if not hv > 0:
                problems.append(f"T={T:.1f}: vaporisation enthalpy {hv} <= 0")
            for u, f in (UNITS.items() if thorough else list(UNITS.items())[::3]):
                pu = a.saturation_pressure(T, unit=u)
                tol = 1e-5 if u in ('mmHg', 'torr') else 1e-9
                if not close(pu * f, ps, rel=tol):
                    problems.append(f"T={T:.1f}: unit {u}: {pu}*{f} != {ps}")
        yield {'name': a.name, 'ok': not problems, 'detail': '; '.join(problems[:3]) + (f" [{n_ok} temperatures]" if problems else '')}


def stored_constant_cases():
    """the stored molar mass -- what molar_mass() returns when the backend is unavailable or calculate=False, and what every
    molar <-> mass conversion is then scaled with -- agrees with the backend's (1e-3 relative) for every backend-linked shipped
    adsorbate, in the JSON source list and in the packaged database"""
    import os
    import pygaps
    import pygaps.parsing.sqlite as S
    pygaps.logger.disabled = True
    db = os.path.join(os.path.dirname(pygaps.__file__), 'data', 'default.db')
    sources = {'json_list': list(pygaps.ADSORBATE_LIST), 'packaged_database': S.adsorbates_from_db(db_path=db, verbose=False)}
    for src, ads in sources.items():
        bad = []
        n = 0
        for a in ads:
            st = a.properties.get('molar_mass')
            if not a.properties.get('backend_name') or st is None:
                continue
            try:
                bm = a.backend.molar_mass() * 1000
            except Exception:
                continue
            n += 1
            if not abs(float(st) - bm) <= 1e-3 * bm:
                bad.append(f"{a.name}: stored {st}, backend {bm:.4f}")
        yield {'name': f"stored_molar_mass_agrees_with_backend|{src}", 'ok': n > 50 and not bad, 'detail': '; '.join(bad[:4]) or f"{n} adsorbates compared"}


@replayer('c20.stored')
def _stored(spec, model):
    bad = [r for r in stored_constant_cases() if not r['ok']]
    return {'confirmed': bool(bad), 'observed': [(b['name'], b['detail']) for b in bad], 'expected': 'stored molar mass within 1e-3 of the backend value'}


@replayer('c20.physics')
def _ph(spec, model):
    for r in physics_cases(0, thorough=True):
        if r['name'] == spec['name']:
            return {'confirmed': not r['ok'], 'observed': r['detail']}
    return {'confirmed': False, 'error': 'case not found'}


@replayer('c20.registry')
def _reg(spec, model):
    import pygaps
    from pygaps.core.adsorbate import Adsorbate
    pygaps.logger.disabled = True
    bad = []
    for a in list(pygaps.ADSORBATE_LIST):
        for x in a.alias:
            for v in (x, x.upper(), x.title()):
                m = [b.name for b in pygaps.ADSORBATE_LIST if b == v]
                if m != [a.name]:
                    bad.append({'string': v, 'designates': m, 'expected': [a.name]})
                elif Adsorbate.find(v) is not a:
                    bad.append({'string': v, 'find_returns': Adsorbate.find(v).name, 'expected': a.name})
    return {'confirmed': bool(bad), 'observed': bad[:4]}


@replayer('c20.store')
def _store(spec, model):
    """store a shipped adsorbate into a copy of the packaged database, then resolve it by name (subprocess-free: the registry is restored)"""
    import os
    import shutil
    import tempfile
    import pygaps
    import pygaps.parsing.sqlite as SQ
    from pygaps.core.adsorbate import Adsorbate
    pygaps.logger.disabled = True
    tmp = tempfile.mkdtemp(prefix='pgv-c20r-')
    reg = list(pygaps.ADSORBATE_LIST)
    bad = []
    try:
        db = os.path.join(tmp, 'copy.db')
        shutil.copyfile(os.path.join(os.path.dirname(pygaps.data.__file__), 'default.db'), db)
        ads = Adsorbate.find('nitrogen')
        saved = list(ads.alias)
        SQ.adsorbate_to_db(ads, db_path=db, overwrite=True, verbose=False)
        if sorted(ads.alias) != sorted(saved):
            bad.append({'aliases_before': sorted(saved), 'aliases_after': sorted(ads.alias)})
        for v in ('nitrogen', 'Nitrogen', 'NITROGEN', 'N2'):
            try:
                if Adsorbate.find(v) is not ads:
                    bad.append({'find': v, 'result': 'another object'})
            except Exception as exc:
                bad.append({'find': v, 'result': type(exc).__name__})
        ads.alias[:] = saved
    finally:
        pygaps.ADSORBATE_LIST[:] = reg
        shutil.rmtree(tmp, ignore_errors=True)
    return {'confirmed': bool(bad), 'observed': bad[:4], 'expected': 'adsorbate unchanged and still found by its name'}
