"""Native replay for C10/C11 model obligations: real model classes, real numpy, float arithmetic."""
from __future__ import annotations

import numpy

from pgv.replay import close, replayer


def _model(name, params, model):
    import pygaps
    import pygaps.modelling as pgm
    pygaps.logger.disabled = True
    m = pgm.get_isotherm_model(name)
    defaults = {'pos': 1.3, 'unit': 0.4, 'one_three': 2.0, 'real': 0.7}
    from pgv.checks.models_common import DOMAIN
    for k, dom in DOMAIN[name].items():
        v = model.get(k)
        m.params[k] = float(v) if isinstance(v, (int, float)) else defaults[dom]
    if name in ('DR', 'DA'):
        rt = model.get('RT')
        m.minus_rt = -(float(rt) if isinstance(rt, (int, float)) else 8.314 * 77)
    return m


@replayer('c10.model')
def _c10_model(spec, model):
    name = spec['model']
    clause = spec.get('clause', '')
    m = _model(name, None, model)
    g = lambda k, d: float(model[k]) if isinstance(model.get(k), (int, float)) else d
    with numpy.errstate(all='ignore'):
        if clause.startswith('inverse_pl'):
            p = g('p', 0.3)
            if clause.endswith('array'):
                back = m.pressure(m.loading(numpy.array([0.0, p, p])))
                ok = close(back[0], 0.0, abs_=1e-12) and close(back[1], p, rel=1e-6)
                return {'confirmed': not ok, 'observed': list(map(float, back)), 'expected': [0.0, p, p], 'params': m.params}
            back = float(m.pressure(m.loading(p)))
            return {'confirmed': not close(back, p, rel=1e-6), 'observed': back, 'expected': p, 'params': m.params}
        if clause.startswith('inverse_lp'):
            n = g('n', 0.5)
            pp = float(m.pressure(n))
            back = float(m.loading(pp))
            return {'confirmed': not close(back, n, rel=1e-6), 'observed': {'pressure': pp, 'loading_back': back}, 'expected': n, 'params': m.params}
        if clause == 'zero':
            z = float(m.loading(0.0))
            return {'confirmed': not close(z, 0.0, abs_=1e-12), 'observed': z, 'expected': 0.0}
        if clause == 'zero_p':
            z = float(m.pressure(0.0))
            return {'confirmed': not close(z, 0.0, abs_=1e-12), 'observed': z, 'expected': 0.0, 'params': m.params}
        if clause in ('sign', 'monotone', 'bounded'):
            p1, p2 = g('p1', 0.2), g('p2', 0.4)
            l1, l2 = float(m.loading(p1)), float(m.loading(p2))
            bad = (clause == 'sign' and l1 < -1e-12) or (clause == 'monotone' and l1 > l2 * (1 + 1e-12) + 1e-15)
            if clause == 'bounded':
                from pgv.checks.c10 import SATURATION
                bad = l2 > float(SATURATION[name](m.params)) * (1 + 1e-12)
            return {'confirmed': bool(bad), 'observed': {'p1': p1, 'p2': p2, 'l1': l1, 'l2': l2}, 'params': m.params}
        # CAS clauses: witness point from mpmath
        if clause.startswith('inverse.pressure_of_loading'):
            p = g('p', 1 / (1 + g('s', 1.5)))
            back = float(m.pressure(m.loading(p)))
            return {'confirmed': not close(back, p, rel=1e-6), 'observed': back, 'expected': p, 'params': m.params}
        if clause.startswith('inverse.loading_of_pressure'):
            n = g('n', m.params.get('n_m', 1.0) / (1 + g('u', 1.0)))
            back = float(m.loading(m.pressure(n)))
            return {'confirmed': not close(back, n, rel=1e-6), 'observed': back, 'expected': n, 'params': m.params}
        if clause.startswith('henry') or clause == 'henry':
            from pgv.checks.c10 import HENRY
            p = 1e-9
            got = float(m.loading(p)) / p
            want = float(HENRY[name](m.params))
            return {'confirmed': not close(got, want, rel=1e-4), 'observed': got, 'expected': want, 'params': m.params}
        if clause.startswith(('spreading', 'limit0')):
            return _spreading(name, m, clause, g)
    return {'confirmed': False, 'error': f'no native check for clause {clause}'}


def _spreading(name, m, clause, g):
    from scipy import integrate
    p = g('p', 1 / (1 + g('s', 1.5)) if name in ('DR', 'DA', 'BET', 'GAB') else 0.7)
    with numpy.errstate(all='ignore'):
        if clause.startswith('limit0'):
            v = float(m.spreading_pressure(1e-12))
            return {'confirmed': abs(v) > 1e-6, 'observed': v, 'expected': 0.0, 'params': m.params}
        num = integrate.quad(lambda x: float(m.loading(x)) / x, 0, p)[0]
        got = float(m.spreading_pressure(p))
        return {'confirmed': not close(got, num, rel=1e-5, abs_=1e-9), 'observed': got, 'expected': num, 'params': m.params, 'p': p}


@replayer('c10.numinv')
def _numinv(spec, model):
    name = spec['model']
    m = _model(name, None, model)
    from pgv.checks.c10 import NUM_INVERSE
    which = NUM_INVERSE[name]
    fwd = 'loading' if which == 'pressure' else 'pressure'
    x = 0.4 * m.params.get('n_m', 1.0) if which == 'loading' else 0.5
    target = float(getattr(m, fwd)(x))
    try:
        r = float(numpy.atleast_1d(getattr(m, which)(target))[0])
        back = float(getattr(m, fwd)(r))
        return {'confirmed': not close(back, target, rel=1e-5), 'observed': {'solver_x': r, 'forward': back}, 'expected': target}
    except Exception as exc:
        return {'confirmed': False, 'observed': f"{type(exc).__name__}: {exc}"}


def order_cases():
    """numerically inverted models, real solver: the inverse evaluated after other evaluations (descending and mixed orders)
    equals the inverse evaluated first on a fresh model object"""
    from pgv.checks.c10 import NUM_INVERSE
    from pygaps.utilities.exceptions import CalculationError
    sets = {'TSLangmuir': {'n_m1': 4.0, 'K1': 30.0, 'n_m2': 3.0, 'K2': 2.0, 'n_m3': 2.0, 'K3': 0.1},
            'TemkinApprox': {'n_m': 5.0, 'K': 8.0, 'tht': 0.3}, 'JensenSeaton': {'K': 20.0, 'a': 6.0, 'b': 0.15, 'c': 1.4}}
    for name, params in sets.items():
        xs = [40.0, 0.004, 0.02, 5.0, 0.25, 0.9]
        m0 = _model(name, None, params)
        targets = [float(m0.loading(x)) for x in xs]
        fresh = []
        for t in targets:
            try:
                fresh.append(float(numpy.atleast_1d(_model(name, None, params).pressure(t))[0]))
            except CalculationError:
                fresh.append(None)
        used = _model(name, None, params)
        seq = []
        for t in targets:
            try:
                seq.append(float(numpy.atleast_1d(used.pressure(t))[0]))
            except CalculationError:
                seq.append('CalculationError')
        bad = [(x, a, b) for x, a, b in zip(xs, fresh, seq) if a is not None and not (isinstance(b, float) and close(a, b, rel=1e-6, abs_=1e-9))]
        inv = [(x, a) for x, a in zip(xs, fresh) if a is not None and not close(a, x, rel=1e-4, abs_=1e-7)]
        yield {'name': f"inverse_independent_of_evaluation_order|{name}", 'ok': not bad, 'detail': str(bad[:3])}
        yield {'name': f"inverse_of_forward_on_fresh_model|{name}", 'ok': not inv, 'detail': str(inv[:3])}


def argument_form_cases():
    """every model: whole-number pressures / loadings given as Python ints, integer arrays and float32 arrays answer as the
    float call does (stand-in for the machine number formats, which the SX obligations read as reals)"""
    from pgv.checks.models_common import DOMAIN
    from pygaps.utilities.exceptions import CalculationError
    import warnings
    for name in sorted(DOMAIN):
        m = _model(name, None, {})
        probs = []
        with warnings.catch_warnings():
            warnings.simplefilter('ignore')
            for meth, xs in (('loading', [1, 2, 3]), ('spreading_pressure', [1, 2, 3]), ('pressure', None)):
                try:
                    if meth == 'pressure':
                        # whole-number loadings the model reaches: between loading(0.05) and loading(50)
                        try:
                            lo, hi = (float(numpy.asarray(m.loading(v), dtype=float).ravel()[0]) for v in (0.05, 50.0))
                        except Exception:
                            continue
                        ints = [k for k in range(1, 40) if lo < k < hi][:3]
                        if not ints:
                            continue
                        xs = ints
                    f = getattr(m, meth)
                    # reference: the float call, element by element (several methods are scalar-only); a method that does not
                    # answer for floats makes no claim here
                    try:
                        ref = numpy.asarray([numpy.asarray(f(float(x)), dtype=float).ravel()[0] for x in xs])
                    except Exception:
                        continue
                    got = numpy.asarray([numpy.asarray(f(int(x)), dtype=float).ravel()[0] for x in xs])
                    if not numpy.allclose(got, ref, rtol=1e-7, equal_nan=True):
                        probs.append(f"{meth}(int scalars {xs}) = {got} vs {ref} for floats")
                    try:
                        vec = numpy.asarray(f(numpy.asarray(xs, dtype=float)), dtype=float).ravel()
                    except Exception:
                        continue  # scalar-only method
                    if vec.shape != ref.shape or not numpy.allclose(vec, ref, rtol=1e-6, equal_nan=True):
                        continue  # (array evaluation differing from scalar evaluation is not this clause's subject)
                    for label, arg in {'int_array': numpy.asarray(xs, dtype='int64'), 'int32_array': numpy.asarray(xs, dtype='int32')}.items():
                        got = numpy.asarray(f(arg), dtype=float).ravel()
                        if got.shape != ref.shape or not numpy.allclose(got, ref, rtol=1e-6, equal_nan=True):
                            probs.append(f"{meth}({label} {xs}) = {got} vs {ref} for floats")
                except (CalculationError, NotImplementedError):
                    continue
                except Exception as exc:
                    probs.append(f"{meth}: {type(exc).__name__}: {exc}"[:160])
        yield {'name': f"argument_form|{name}", 'ok': not probs, 'detail': '; '.join(probs[:3])}


@replayer('c10.form')
def _form(spec, model):
    for r in argument_form_cases():
        if r['name'] == spec['name']:
            return {'confirmed': not r['ok'], 'observed': r['detail'], 'expected': 'same values as for float arguments'}
    return {'confirmed': False, 'error': 'case not found'}


def zero_point_cases():
    """every model, real evaluation at exactly zero: loading(0) == 0 for a Python float, a Python int, a numpy 0-d and a 1-d array
    holding a zero (with float and with whole-number parameters given as Python ints), and pressure(loading(0)) == 0 -- the zero
    point is otherwise only decided as the limit p -> 0+ for the models handled by the CAS"""
    from pgv.checks.models_common import DOMAIN
    from pygaps.utilities.exceptions import CalculationError
    import warnings
    no_zero = {'Virial', 'FHVST', 'WVST'}  # pressure-explicit / VST models: loading is a numerical inverse, no claim at 0 here
    for name in sorted(DOMAIN):
        if name in no_zero:
            continue
        for ptag, conv in (('float_parameters', float), ('integer_parameters', lambda v: int(round(v)) if DOMAIN_INT_OK(name, v) else float(v))):
            m = _model(name, None, {})
            for k in list(m.params):
                dom = DOMAIN[name][k]
                m.params[k] = conv({'pos': 3.0, 'unit': 0.4, 'one_three': 2.0, 'real': 1.0}[dom]) if dom != 'unit' else 0.4
            probs = []
            with warnings.catch_warnings():
                warnings.simplefilter('ignore')
                for label, arg in (('0.0', 0.0), ('0', 0), ('numpy 0-d', numpy.asarray(0.0)), ('[0.0, 0.5]', numpy.array([0.0, 0.5])), ('[0, 1] ints', numpy.array([0, 1]))):
                    try:
                        z = numpy.asarray(m.loading(arg), dtype=float).ravel()[0]
                        if not z == 0:
                            probs.append(f"loading({label}) = {z}")
                    except CalculationError:
                        pass
                    except Exception as exc:
                        probs.append(f"loading({label}): {type(exc).__name__}: {exc}"[:120])
                if name != 'TemkinApprox':
                    try:
                        zp = numpy.asarray(m.pressure(m.loading(0.0)), dtype=float).ravel()[0]
                        if not zp == 0:
                            probs.append(f"pressure(loading(0.0)) = {zp}")
                    except CalculationError:
                        pass
                    except Exception as exc:
                        probs.append(f"pressure(loading(0.0)): {type(exc).__name__}: {exc}"[:120])
                # the Henry slope, evaluated (not as a limit): loading(p)/p at p = 1e-12 .. 1e-9, also for a large exponent
                from pgv.checks.c10 import HENRY
                if name in HENRY:
                    for big in (False, True):
                        if big and name != 'Toth':
                            continue
                        if big:
                            m.params['t'] = conv(50.0)
                        want = float(HENRY[name](m.params))
                        for q in (1e-12, 1e-9):
                            for arg in (q, numpy.array([q])):
                                try:
                                    got = float(numpy.asarray(m.loading(arg), dtype=float).ravel()[0]) / q
                                    if not abs(got - want) <= 1e-3 * abs(want):
                                        probs.append(f"loading({arg!r})/p = {got}, Henry slope {want}" + (' (t = 50)' if big else ''))
                                except Exception as exc:
                                    probs.append(f"loading({arg!r}): {type(exc).__name__}: {exc}"[:120])
            yield {'name': f"zero_point|{name}|{ptag}", 'ok': not probs, 'detail': '; '.join(probs[:4])}


def DOMAIN_INT_OK(name, v):
    return float(v).is_integer()


@replayer('c10.zero')
def _zero(spec, model):
    for r in zero_point_cases():
        if r['name'] == spec['name']:
            return {'confirmed': not r['ok'], 'observed': r['detail'], 'expected': 'loading(0) == 0 and pressure(loading(0)) == 0 for every argument form'}
    return {'confirmed': False, 'error': 'case not found'}


def point_generation_cases():
    """the points a model isotherm hands out -- iso.pressure(n) and iso.loading(n), which plotting and from_modelisotherm use -- are
    pairs on the bare model's curve, in the isotherm's units and in requested ones, for loading-explicit and pressure-explicit models"""
    import pygaps
    import warnings
    from pgv.checks.models_common import DOMAIN
    pygaps.logger.disabled = True
    meta = dict(material='pgv_c10', adsorbate='nitrogen', temperature=77.355, pressure_mode='absolute', pressure_unit='bar', loading_basis='molar',
                loading_unit='mmol', material_basis='mass', material_unit='g', temperature_unit='K')
    for name in sorted(DOMAIN):
        m = _model(name, None, {})
        probs = []
        with warnings.catch_warnings():
            warnings.simplefilter('ignore')
            try:
                if m.calculates == 'loading':
                    m.pressure_range = (0.05, 0.6)
                    m.loading_range = tuple(float(numpy.asarray(m.loading(x)).ravel()[0]) for x in m.pressure_range)
                else:
                    m.loading_range = (0.05, 0.6)
                    m.pressure_range = tuple(float(numpy.asarray(m.pressure(x)).ravel()[0]) for x in m.loading_range)
                iso = pygaps.ModelIsotherm(model=m, **meta)
                for kw, fp, fl in (({}, 1.0, 1.0), ({'pressure_unit': 'Pa'}, 1e5, 1.0), ({'loading_unit': 'mol'}, 1.0, 1e-3)):
                    pk = {k: v for k, v in kw.items() if k.startswith('pressure')}
                    lk = {k: v for k, v in kw.items() if k.startswith('loading')}
                    ps = numpy.asarray(iso.pressure(7, **pk), dtype=float) / fp
                    ls = numpy.asarray(iso.loading(7, **lk), dtype=float) / fl
                    if m.calculates == 'loading':
                        want = numpy.asarray([numpy.asarray(m.loading(x)).ravel()[0] for x in ps], dtype=float)
                        if ps.shape != ls.shape or not numpy.allclose(ls, want, rtol=1e-7):
                            probs.append(f"{kw or 'own units'}: loading(n) {ls[:4]} vs model.loading(pressure(n)) {want[:4]}")
                    else:
                        want = numpy.asarray([numpy.asarray(m.pressure(x)).ravel()[0] for x in ls], dtype=float)
                        if ps.shape != ls.shape or not numpy.allclose(ps, want, rtol=1e-7):
                            probs.append(f"{kw or 'own units'}: pressure(n) {ps[:4]} vs model.pressure(loading(n)) {want[:4]}")
            except Exception as exc:
                probs.append(f"{type(exc).__name__}: {exc}"[:160])
        yield {'name': f"generated_points_on_model_curve|{name}", 'ok': not probs, 'detail': '; '.join(probs[:2])}


def long_array_cases():
    """arrays of realistic length (65, 100, 130 points -- not only the two or three elements of the symbolic obligations): the
    inverse of the forward equation element by element, and the array evaluation equal to evaluating one element at a time"""
    import warnings
    from pgv.checks.models_common import DOMAIN
    from pygaps.utilities.exceptions import CalculationError
    for name in sorted(DOMAIN):
        m = _model(name, None, {})
        if name in ('DR', 'DA'):
            m.params['e'] = 6000.0  # J/mol: a characteristic energy of the order of RT ln(1/p), so that the loading does not underflow
        probs = []
        with warnings.catch_warnings():
            warnings.simplefilter('ignore')
            for n in (65, 100, 130):
                try:
                    if m.calculates == 'loading':
                        xs = numpy.linspace(0.05, 0.6, n)
                        fwd, inv = m.loading, m.pressure
                    else:
                        xs = numpy.linspace(0.05, 0.6, n)
                        fwd, inv = m.pressure, m.loading
                    ys = numpy.asarray(fwd(xs), dtype=float)
                    one = numpy.asarray([numpy.asarray(fwd(float(x)), dtype=float).ravel()[0] for x in xs])
                    if ys.shape != one.shape or not numpy.allclose(ys, one, rtol=1e-9):
                        probs.append(f"n={n}: forward(array) differs from element-wise evaluation at {int(numpy.argmax(~numpy.isclose(ys, one, rtol=1e-9)))}")
                        continue
                    back = numpy.asarray(inv(ys), dtype=float).ravel()
                    if back.shape != xs.shape or not numpy.allclose(back, xs, rtol=1e-5, atol=1e-9):
                        k = int(numpy.argmax(~numpy.isclose(back, xs, rtol=1e-5, atol=1e-9))) if back.shape == xs.shape else -1
                        probs.append(f"n={n}: inverse(forward(x)) != x, first at index {k}: {back[k] if k >= 0 else back.shape} vs {xs[k] if k >= 0 else xs.shape}")
                except (CalculationError, NotImplementedError):
                    continue
                except (ValueError, TypeError):
                    continue  # scalar-only evaluation (Virial, quad-based): no array claim
        yield {'name': f"long_arrays|{name}", 'ok': not probs, 'detail': '; '.join(probs[:2])}


def key_order_cases():
    """model parameters are a dictionary by name: a model whose params were assigned with the keys in another order (reversed, sorted)
    evaluates to the same loading, pressure and spreading pressure, bare and through a model isotherm"""
    import warnings
    import pygaps
    from pgv.checks.models_common import DOMAIN
    pygaps.logger.disabled = True
    meta = dict(material='pgv_c10', adsorbate='nitrogen', temperature=77.355, pressure_mode='absolute', pressure_unit='bar', loading_basis='molar',
                loading_unit='mmol', material_basis='mass', material_unit='g', temperature_unit='K')
    xs = numpy.array([0.05, 0.2, 0.45])
    for name in sorted(DOMAIN):
        def fresh():
            r = _model(name, None, {})
            # distinct values, so that a value taken by position instead of by name shows
            for i, k in enumerate(list(r.params)):
                r.params[k] = r.params[k] * (1 + 0.17 * i) if DOMAIN[name][k] != 'unit' else min(0.9, r.params[k] * (1 + 0.17 * i))
            if name in ('DR', 'DA'):
                r.params['e'] = 6000.0
            return r
        ref = fresh()
        probs = []
        with warnings.catch_warnings():
            warnings.simplefilter('ignore')
            for oname, reorder in (('reversed', lambda d: {k: d[k] for k in list(d)[::-1]}), ('sorted', lambda d: {k: d[k] for k in sorted(d)})):
                m = fresh()
                m.params = reorder(dict(ref.params))
                if list(m.params) == list(ref.params):
                    continue
                for meth in ('loading', 'pressure', 'spreading_pressure'):
                    try:
                        a = numpy.asarray([numpy.asarray(getattr(ref, meth)(float(x)), dtype=float).ravel()[0] for x in xs])
                    except Exception:
                        continue
                    try:
                        b = numpy.asarray([numpy.asarray(getattr(m, meth)(float(x)), dtype=float).ravel()[0] for x in xs])
                        if not numpy.allclose(a, b, rtol=1e-9, equal_nan=True):
                            probs.append(f"{meth} with keys {list(m.params)}: {b} vs {a}")
                    except Exception as exc:
                        probs.append(f"{meth} with keys {list(m.params)}: {type(exc).__name__}: {exc}"[:140])
                try:
                    ra, rb = fresh(), fresh()
                    rb.params = reorder(dict(ra.params))
                    for r_ in (ra, rb):
                        r_.pressure_range, r_.loading_range = (0.0, 10.0), (0.0, 10.0)
                    ia, ib = pygaps.ModelIsotherm(model=ra, **meta), pygaps.ModelIsotherm(model=rb, **meta)
                    if ia.iso_id != ib.iso_id:
                        probs.append(f"identifier differs with keys {list(m.params)}")
                except Exception:
                    pass
        yield {'name': f"parameter_key_order|{name}", 'ok': not probs, 'detail': '; '.join(probs[:2])}


@replayer('c10.key_order')
def _key_order(spec, model):
    for r in key_order_cases():
        if r['name'] == spec['name']:
            return {'confirmed': not r['ok'], 'observed': r['detail'], 'expected': 'the same values whatever order the parameter dictionary was written in'}
    return {'confirmed': False, 'error': 'case not found'}


@replayer('c10.long')
def _long(spec, model):
    for r in long_array_cases():
        if r['name'] == spec['name']:
            return {'confirmed': not r['ok'], 'observed': r['detail'], 'expected': 'inverse(forward(x)) == x for every element of a long array'}
    return {'confirmed': False, 'error': 'case not found'}


@replayer('c10.points')
def _points(spec, model):
    for r in point_generation_cases():
        if r['name'] == spec['name']:
            return {'confirmed': not r['ok'], 'observed': r['detail'], 'expected': 'pairs (pressure(n)[i], loading(n)[i]) satisfy the model equation'}
    return {'confirmed': False, 'error': 'case not found'}


@replayer('c10.numinv_history')
def _numinv_history(spec, model):
    bad = [r for r in order_cases() if not r['ok'] and r['name'].endswith('|' + spec['model'])]
    return {'confirmed': bool(bad), 'observed': [(b['name'], b['detail']) for b in bad[:2]], 'expected': 'same pressure whatever was evaluated before'}


@replayer('c10.order_case')
def _order_case(spec, model):
    for r in order_cases():
        if r['name'] == spec['name']:
            return {'confirmed': not r['ok'], 'observed': r['detail']}
    return {'confirmed': False, 'error': 'case not found'}


def model_isotherm_fraction_cases():
    """evaluating through a model isotherm in a fractional loading basis while a material unit / basis is named in the same call:
    the bare model's value after the unit conversion (weight percent and weight fraction do not depend on the unit the material
    mass is expressed in)"""
    import pygaps
    import pygaps.modelling as pgm
    pygaps.logger.disabled = True
    mat = pygaps.Material('pgv_c10_mat', density=2.0)
    mm = pygaps.Adsorbate.find('nitrogen').molar_mass()
    for name, params, calc in (('Langmuir', {'K': 3.0, 'n_m': 10.0}, 'loading'), ('Toth', {'K': 3.0, 'n_m': 10.0, 't': 0.8}, 'loading'),
                               ('Virial', {'K': 10.0, 'A': 0.5, 'B': 0.1, 'C': 0.01}, 'pressure')):
        m = pgm.get_isotherm_model(name, parameters=dict(params), pressure_range=(0.0, 2.0), loading_range=(0.0, 9.0), rmse=0.0)
        bare = pgm.get_isotherm_model(name, parameters=dict(params))
        iso = pygaps.ModelIsotherm(model=m, material=mat, adsorbate='nitrogen', temperature=77.355, pressure_mode='absolute', pressure_unit='bar',
                                   loading_basis='molar', loading_unit='mmol', material_basis='mass', material_unit='g', temperature_unit='K')
        ps = numpy.array([0.05, 0.2, 0.5, 1.0])
        try:
            n = numpy.asarray(bare.loading(ps), dtype=float).ravel()  # mmol/g
        except Exception:
            continue
        cases = {
            "percent,material_unit=kg": (dict(loading_basis='percent', material_unit='kg'), n * mm / 10),
            "percent,material_unit=g": (dict(loading_basis='percent', material_unit='g'), n * mm / 10),
            "fraction,material_unit=mg": (dict(loading_basis='fraction', material_unit='mg'), n * mm / 1000),
            "percent alone": (dict(loading_basis='percent'), n * mm / 10),
            "mass g,material_unit=kg": (dict(loading_basis='mass', loading_unit='g', material_unit='kg'), n * mm),
        }
        probs = []
        for tag, (kw, want) in cases.items():
            try:
                got = numpy.asarray(iso.loading_at(ps, **kw), dtype=float).ravel()
                if got.shape != want.shape or not numpy.allclose(got, want, rtol=1e-7, atol=0):
                    probs.append(f"loading_at({tag}) = {got[:3]}, bare model converted: {want[:3]}")
            except Exception as exc:
                probs.append(f"loading_at({tag}): {type(exc).__name__}: {exc}"[:120])
        yield {'name': f"model_isotherm_fractional_basis_with_material_unit|{name}", 'ok': not probs, 'detail': '; '.join(probs[:3])[:400]}


@replayer('c10.fraction')
def _fraction(spec, model):
    for r in model_isotherm_fraction_cases():
        if r['name'] == spec['name']:
            return {'confirmed': not r['ok'], 'observed': r['detail'], 'expected': "the bare model's value after the unit conversion"}
    return {'confirmed': False, 'error': 'case not found'}
