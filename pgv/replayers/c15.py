"""C15 native side: results of every characterisation entry point before / after converting the isotherm."""
from __future__ import annotations

import os

import numpy

from pgv.replay import close, replayer

REPO = os.environ.get('PGV_REPO', '/repo')
DATA = os.path.join(REPO, 'docs', 'examples', 'data')

CONVERSIONS = [
    ('p=Pa', dict(pressure_mode='absolute', pressure_unit='Pa')),
    ('p=torr', dict(pressure_mode='absolute', pressure_unit='torr')),
    ('p=relative', dict(pressure_mode='relative')),
    ('p=relative%', dict(pressure_mode='relative%')),
    ('l=mol', dict(loading_basis='molar', loading_unit='mol')),
    ('l=mass:mg', dict(loading_basis='mass', loading_unit='mg')),
    ('l=volume_gas:cm3', dict(loading_basis='volume_gas', loading_unit='cm3')),
    ('l=volume_liquid:cm3', dict(loading_basis='volume_liquid', loading_unit='cm3')),
    ('l=cm3(STP)', dict(loading_basis='molar', loading_unit='cm3(STP)')),
    ('p=kPa,l=mass:g', dict(pressure_mode='absolute', pressure_unit='kPa', loading_basis='mass', loading_unit='g')),
    ('T=degC', dict(temperature='°C')),
    ('json', dict(json=True)),
    # two steps: a representation reached through another one (stored in per cent of saturation, then made absolute again)
    ('p=relative%>bar', dict(pressure_mode='relative%', _then=dict(pressure_mode='absolute', pressure_unit='bar'))),
    ('p=relative>kPa', dict(pressure_mode='relative', _then=dict(pressure_mode='absolute', pressure_unit='kPa'))),
]
QUICK = ('p=Pa', 'p=relative%', 'p=relative%>bar', 'l=mass:mg', 'l=volume_liquid:cm3', 'l=volume_gas:cm3', 'p=kPa,l=mass:g', 'T=degC', 'json')


def _load(name):
    import pygaps
    import pygaps.parsing as pgp
    pygaps.logger.disabled = True
    return pgp.isotherm_from_json(os.path.join(DATA, 'characterisation', name))


def _copy(iso):
    import pygaps
    return pygaps.PointIsotherm.from_isotherm(iso, isotherm_data=iso.data_raw.copy(), pressure_key=iso.pressure_key, loading_key=iso.loading_key)


def _converted(iso, conv):
    import pygaps.parsing as pgp
    c = _copy(iso)
    conv = dict(conv)
    then = conv.pop('_then', None)
    if conv.pop('json', False):
        return pgp.isotherm_from_json(c.to_json())
    t = conv.pop('temperature', None)
    if t:
        c.convert_temperature(t)
    if conv:
        c.convert(**conv)
    if then:
        c.convert(**then)
    return c


def entries():
    import pygaps.characterisation as c
    return {
        'area_BET': (lambda i, r: [c.area_BET(i)[k] for k in ('area', 'c_const', 'n_monolayer', 'p_monolayer', 'corr_coef')], 1e-6),
        'area_langmuir': (lambda i, r: [c.area_langmuir(i)[k] for k in ('area', 'langmuir_const', 'n_monolayer')], 1e-6),
        't_plot': (lambda i, r: [(x['area'], x['adsorbed_volume'], x['slope'], x['intercept']) for x in c.t_plot(i)['results']], 1e-6),
        'alpha_s(sample converted)': (lambda i, r: (lambda res: [v for x in res['results'] for v in (x['area'], x['adsorbed_volume'], x['slope'], x['intercept'])]
                                                   + [float(v) for v in res['alpha_curve']])(c.alpha_s(i, r, reference_area='BET', t_limits=(0.3, 1.5))), 1e-6),
        'dr_plot': (lambda i, r: [c.dr_plot(i, p_limits=(0, 0.1))[k] for k in ('pore_volume', 'adsorption_potential')], 1e-6),
        'da_plot': (lambda i, r: [c.da_plot(i, exp=2.3, p_limits=(0, 0.1))[k] for k in ('pore_volume', 'adsorption_potential')], 1e-6),
        'psd_mesoporous.BJH': (lambda i, r: c.psd_mesoporous(i, psd_model='BJH')['pore_distribution'], 1e-6),
        'psd_mesoporous.DH': (lambda i, r: c.psd_mesoporous(i, psd_model='DH')['pore_distribution'], 1e-6),
        'psd_mesoporous.pygaps-DH': (lambda i, r: c.psd_mesoporous(i, psd_model='pygaps-DH')['pore_volume_cumulative'], 1e-6),
        'psd_microporous.HK': (lambda i, r: c.psd_microporous(i, psd_model='HK')['pore_widths'], 1e-3),
        # psd_dft is not among the entry points C15 quantifies over and its result is fixed by an iterative optimiser only to
        # the optimiser's tolerance; it is run for information with that tolerance (Takeda 5A: 1.3e-3 observed between Pa and bar)
        'psd_dft': (lambda i, r: c.psd_dft(i)['pore_volume_cumulative'][-1], 2e-2),
    }


def _flat(x):
    return numpy.asarray(x, dtype=float).ravel()


def _ref_model(ref_point):
    import pygaps
    return pygaps.ModelIsotherm.from_pointisotherm(ref_point, model='BET')


def case(iso_name, conv_name, entry_name):
    iso = _load(iso_name)
    ref = _ref_model(_load('SiO2 N2 77.355.json'))
    conv = dict(CONVERSIONS)[conv_name]
    f, tol = entries()[entry_name]
    try:
        a = _flat(f(_copy(iso), ref))
    except Exception as exc:
        return True, f"baseline not applicable: {type(exc).__name__}"
    try:
        b = _flat(f(_converted(iso, conv), ref))
    except Exception as exc:
        return False, f"after conversion: {type(exc).__name__}: {exc}"[:160]
    ok = a.shape == b.shape and numpy.allclose(a, b, rtol=tol, atol=1e-12)
    return bool(ok), '' if ok else f"before {a[:3]} after {b[:3]}"


def reference_case(conv_name):
    """alpha-s with the *reference* isotherm converted"""
    import pygaps.characterisation as c
    iso, ref = _load('MCM-41 N2 77.355.json'), _load('SiO2 N2 77.355.json')
    def f(r):
        res = c.alpha_s(_copy(iso), r, reference_area='BET', t_limits=(0.3, 1.5))
        return [v for x in res['results'] for v in (x['area'], x['adsorbed_volume'], x['slope'], x['intercept'])] + [float(v) for v in res['alpha_curve']]
    a = _flat(f(_ref_model(_copy(ref))))
    try:
        b = _flat(f(_ref_model(_converted(ref, dict(CONVERSIONS)[conv_name]))))
    except Exception as exc:
        return False, f"{type(exc).__name__}: {exc}"[:160]
    # the reference handed to alpha_s is a BET model *re-fitted* to the converted reference data: the two fits agree to the
    # optimiser's tolerance only (observed 5e-6 on the alpha curve), hence 2e-4 here
    ok = a.shape == b.shape and numpy.allclose(a, b, rtol=2e-4)
    worst = int(numpy.argmax(numpy.abs(a - b) / numpy.maximum(numpy.abs(a), 1e-300))) if a.shape == b.shape else 0
    return bool(ok), '' if ok else f"entry {worst}: before {a[worst]} after {b[worst]}"


def henry_case(conv_name):
    """initial Henry constants are reported in the isotherm's own units: they change by exactly the unit factors"""
    import pygaps.characterisation as c
    iso = _load('MCM-41 N2 77.355.json')
    conv = dict(CONVERSIONS)[conv_name]
    k0 = c.initial_henry_slope(_copy(iso), max_adjrms=0.05)
    ci = _converted(iso, conv)
    k1 = c.initial_henry_slope(ci, max_adjrms=0.05)
    # factor from the first non-zero data point
    p0, l0 = iso.pressure()[1], iso.loading()[1]
    p1, l1 = ci.pressure()[1], ci.loading()[1]
    want = k0 * (l1 / l0) / (p1 / p0)
    # the constant comes out of scipy least_squares (ftol=1e-8): parameters are determined to about sqrt(ftol)=1e-4 relative,
    # and which side of that the iteration stops on depends on the scale of the numbers (observed 1.4e-4 for mmol -> mol)
    ok = close(k1, want, rel=1e-3)
    return bool(ok), '' if ok else f"K {k0} -> {k1}, expected {want}"


def isosteric_case(conv_name):
    import glob
    import pygaps
    import pygaps.characterisation as c
    import pygaps.parsing as pgp
    pygaps.logger.disabled = True
    files = sorted(glob.glob(os.path.join(DATA, 'isosteric', '*.json')))
    isos = [pgp.isotherm_from_json(f) for f in files]
    a = _flat(c.isosteric_enthalpy(isos)['isosteric_enthalpy'])
    conv = dict(CONVERSIONS)[conv_name]
    isos2 = [_copy(i) for i in isos]
    isos2[1] = _converted(isos[1], conv)  # one of them stored differently
    try:
        b = _flat(c.isosteric_enthalpy(isos2)['isosteric_enthalpy'])
    except Exception as exc:
        return True, f"refused: {type(exc).__name__}"  # mixed bases are refused by the entry point
    ok = numpy.allclose(a, b, rtol=1e-6)
    if not ok:
        return False, f"before {a[:3]} after {b[:3]}"
    # the same with isotherm objects that were already used in a calculation and are then converted in place
    isos3 = [_copy(i) for i in isos]
    c.isosteric_enthalpy(isos3)
    cv = dict(conv)
    cv.pop('json', None)
    t = cv.pop('temperature', None)
    try:
        if t:
            isos3[1].convert_temperature(t)
        if cv:
            isos3[1].convert(**cv)
        b3 = _flat(c.isosteric_enthalpy(isos3)['isosteric_enthalpy'])
    except Exception as exc:
        return True, f"refused: {type(exc).__name__}"
    ok = numpy.allclose(a, b3, rtol=1e-6)
    return bool(ok), '' if ok else f"before {a[:3]} after converting a used isotherm {b3[:3]}"


def isosteric_all_case(conv_name):
    """every isotherm of the set stored in another representation (or with all loadings multiplied by a constant): the enthalpy
    curve -- an intensive result -- is the same, and the loading points it is reported at are the same amounts"""
    import glob
    import pygaps
    import pygaps.characterisation as c
    import pygaps.parsing as pgp
    pygaps.logger.disabled = True
    files = sorted(glob.glob(os.path.join(DATA, 'isosteric', '*.json')))
    isos = [pgp.isotherm_from_json(f) for f in files]
    r0 = c.isosteric_enthalpy(isos)
    a, n0 = _flat(r0['isosteric_enthalpy']), numpy.asarray(r0['loading'], dtype=float)
    if conv_name.startswith('scale='):
        k = float(conv_name.split('=')[1])
        isos2 = [pygaps.PointIsotherm(pressure=i.pressure(), loading=i.loading() * k, **i.to_dict()) for i in isos]
        factor = k
    else:
        conv = dict(CONVERSIONS)[conv_name]
        isos2 = [_converted(i, conv) for i in isos]
        # the unit factor, read off the data (first isotherm, point with the largest loading)
        j = int(numpy.argmax(isos[0].loading()))
        factor = float(isos2[0].loading()[j] / isos[0].loading()[j])
    try:
        r1 = c.isosteric_enthalpy(isos2)
    except Exception as exc:
        return False, f"{type(exc).__name__}: {exc}"[:160]
    b, n1 = _flat(r1['isosteric_enthalpy']), numpy.asarray(r1['loading'], dtype=float)
    probs = []
    if n1.shape != n0.shape or not numpy.allclose(n1, n0 * factor, rtol=1e-6):
        probs.append(f"loading points {n0[:2]}..{n0[-1]:.5g} (x {factor:.6g}) vs {n1[:2]}..{n1[-1]:.5g}")
    if len(a) != len(b) or not numpy.allclose(a, b, rtol=1e-5):
        probs.append(f"enthalpy {a[:3]} vs {b[:3]}")
    return not probs, '; '.join(probs)


def custom_vapour_cases():
    """an adsorbate without a thermodynamic backend (a user-defined vapour that only carries stored properties -- the fall-back route
    of every adsorbate getter): results do not depend on the pressure unit the isotherm is stored in"""
    import warnings
    import pygaps
    import pygaps.characterisation as c
    pygaps.logger.disabled = True
    made = []
    try:
        vap = pygaps.Adsorbate('pgv_c15_vapour', store=True, saturation_pressure=12000.0, molar_mass=86.0, liquid_density=0.65, cross_sectional_area=0.4,
                               gas_density=0.004, liquid_molar_density=0.65 / 86.0, gas_molar_density=0.004 / 86.0, surface_tension=18.0)
        made.append(vap)
        rel = numpy.linspace(0.005, 0.7, 40)
        n_m, cc = 3e-3, 80.0
        load = n_m * cc * rel / ((1 - rel) * (1 - rel + cc * rel))
        base = pygaps.PointIsotherm(pressure=list(rel * 12000.0), loading=list(load), material='pgv_c15', adsorbate='pgv_c15_vapour', temperature=298.15,
                                    pressure_mode='absolute', pressure_unit='Pa', loading_basis='molar', loading_unit='mol', material_basis='mass',
                                    material_unit='g', temperature_unit='K')
        entries_ = {'area_BET': lambda i: [c.area_BET(i)[k] for k in ('area', 'c_const', 'n_monolayer')],
                    'area_langmuir': lambda i: [c.area_langmuir(i, p_limits=(0.051, 0.61))[k] for k in ('area', 'n_monolayer')],
                    'dr_plot': lambda i: [c.dr_plot(i, p_limits=(0.004, 0.21))[k] for k in ('pore_volume', 'adsorption_potential')],
                    'relative_pressures': lambda i: list(i.pressure(pressure_mode='relative'))}
        with warnings.catch_warnings():
            warnings.simplefilter('ignore')
            ref = {k: _flat(f(_copy(base))) for k, f in entries_.items()}
            for unit in ('kPa', 'bar', 'torr', 'mbar'):
                for k, f in entries_.items():
                    try:
                        iso = _copy(base)
                        iso.convert_pressure(unit_to=unit)
                        got = _flat(f(iso))
                        ok = len(got) == len(ref[k]) and numpy.allclose(got, ref[k], rtol=1e-6)
                        detail = '' if ok else f"stored in Pa {ref[k][:3]}, stored in {unit} {got[:3]}"
                    except Exception as exc:
                        ok, detail = False, f"{type(exc).__name__}: {exc}"[:160]
                    yield {'name': f"adsorbate_without_backend|{k}|p={unit}", 'ok': bool(ok), 'detail': detail}
    finally:
        for a in made:
            try:
                pygaps.ADSORBATE_LIST.remove(a)
            except ValueError:
                pass


def refused_convert_cases():
    """an isotherm on which a combined convert(...) call was refused half-way (pressure step done, loading step impossible) and then
    repeated with a possible target: the analyses give what they give on the original"""
    import warnings
    import pygaps.characterisation as c
    iso = _load('MCM-41 N2 77.355.json')
    entries_ = {'area_BET': lambda i: [c.area_BET(i)[k] for k in ('area', 'c_const')], 't_plot': lambda i: [x['area'] for x in c.t_plot(i)['results']],
                'dr_plot': lambda i: [c.dr_plot(i, p_limits=(0, 0.1))[k] for k in ('pore_volume', 'adsorption_potential')]}
    with warnings.catch_warnings():
        warnings.simplefilter('ignore')
        ref = {k: _flat(f(_copy(iso))) for k, f in entries_.items()}
        for label, bad, good in (('kPa_then_mass_without_unit', dict(pressure_mode='absolute', pressure_unit='kPa', loading_basis='mass'),
                                  dict(pressure_mode='absolute', pressure_unit='kPa', loading_basis='mass', loading_unit='g')),
                                 ('Pa_then_unknown_loading_unit', dict(pressure_mode='absolute', pressure_unit='Pa', loading_unit='no_such_unit'),
                                  dict(pressure_mode='absolute', pressure_unit='Pa', loading_unit='mol'))):
            for stage in ('after_the_refusal', 'after_the_repeated_call'):
                for k, f in entries_.items():
                    try:
                        i2 = _copy(iso)
                        try:
                            i2.convert(**bad)
                        except Exception:
                            pass
                        if stage == 'after_the_repeated_call':
                            i2.convert(**good)
                        got = _flat(f(i2))
                        ok = len(got) == len(ref[k]) and numpy.allclose(got, ref[k], rtol=1e-6)
                        detail = '' if ok else f"original {ref[k][:3]}, {stage.replace('_', ' ')} {got[:3]}"
                    except Exception as exc:
                        ok, detail = False, f"{type(exc).__name__}: {exc}"[:140]
                    yield {'name': f"refused_combined_convert|{label}|{stage}|{k}", 'ok': bool(ok), 'detail': detail}


ISOSTERIC_ALL = ('l=mol', 'l=mass:mg', 'l=cm3(STP)', 'p=kPa,l=mass:g', 'l=volume_gas:cm3', 'l=volume_liquid:cm3', 'scale=0.001', 'scale=250.0', 'T=degC', 'json')


def all_cases(thorough=False):
    convs = [c[0] for c in CONVERSIONS if thorough or c[0] in QUICK]
    out = []
    isos = ['MCM-41 N2 77.355.json'] + (['Takeda 5A N2 77.355.json', 'UiO-66(Zr) N2 77.355.json'] if thorough else [])
    for iso in isos:
        for cv in convs:
            for e in entries():
                out.append(('entry', iso, cv, e))
    for cv in convs:
        # the reference is used as a BET model fitted on its data: only conversions that keep the fit meaningful
        if cv != 'json' and not cv.startswith('p='):
            out.append(('reference', cv))
        out.append(('henry', cv))
        if cv.startswith('p=') and cv not in ('p=relative', 'p=relative%') or cv == 'T=degC':
            out.append(('isosteric', cv))
    for cv in ISOSTERIC_ALL:
        out.append(('isosteric_all', cv))
    return out


def run_case(spec):
    kind = spec[0]
    if kind == 'entry':
        ok, d = case(spec[1], spec[2], spec[3])
        name = f"{spec[3]}|{spec[1].split(' ')[0]}|{spec[2]}"
    elif kind == 'reference':
        ok, d = reference_case(spec[1])
        name = f"alpha_s(reference converted)|{spec[1]}"
    elif kind == 'henry':
        ok, d = henry_case(spec[1])
        name = f"initial_henry_slope(exact unit factor)|{spec[1]}"
    elif kind == 'isosteric_all':
        ok, d = isosteric_all_case(spec[1])
        name = f"isosteric_enthalpy(all isotherms converted)|{spec[1]}"
    else:
        ok, d = isosteric_case(spec[1])
        name = f"isosteric_enthalpy(one isotherm converted)|{spec[1]}"
    return {'name': name, 'ok': ok, 'detail': d}


def run_chunk(chunk):
    return [{'__bounded__': run_case(s)} for s in chunk]


def invariance_cases(seed, thorough=False):
    from pgv import par
    yield from custom_vapour_cases()
    yield from refused_convert_cases()
    cases = all_cases(thorough)
    res, crashes = par.pmap(run_chunk, par.chunks(cases, 32))
    for r in res:
        yield r['__bounded__']
    for c in crashes:
        yield {'name': 'harness-crash', 'ok': False, 'detail': c[:300]}


@replayer('c15.case')
def _case(spec, model):
    if spec['name'].startswith('refused_combined_convert'):
        for r in refused_convert_cases():
            if r['name'] == spec['name']:
                return {'confirmed': not r['ok'], 'observed': r['detail'], 'expected': 'the results of the original isotherm'}
    if spec['name'].startswith('adsorbate_without_backend'):
        for r in custom_vapour_cases():
            if r['name'] == spec['name']:
                return {'confirmed': not r['ok'], 'observed': r['detail'], 'expected': 'the same result whatever pressure unit the isotherm is stored in'}
    for s in all_cases(True):
        r = None
        nm = None
        if s[0] == 'entry':
            nm = f"{s[3]}|{s[1].split(' ')[0]}|{s[2]}"
        elif s[0] == 'reference':
            nm = f"alpha_s(reference converted)|{s[1]}"
        elif s[0] == 'henry':
            nm = f"initial_henry_slope(exact unit factor)|{s[1]}"
        elif s[0] == 'isosteric_all':
            nm = f"isosteric_enthalpy(all isotherms converted)|{s[1]}"
        else:
            nm = f"isosteric_enthalpy(one isotherm converted)|{s[1]}"
        if nm == spec['name']:
            r = run_case(s)
            return {'confirmed': not r['ok'], 'observed': r['detail']}
    return {'confirmed': False, 'error': 'case not found'}


@replayer('c15.invariance')
def _inv(spec, model):
    bad = []
    for cv in QUICK:
        for e in entries():
            if e.split('(')[0].split('.')[0] == spec['entry'].split('.')[0]:
                ok, d = case('MCM-41 N2 77.355.json', cv, e)
                if not ok:
                    bad.append({'entry': e, 'conversion': cv, 'detail': d})
        if spec['entry'] == 'alpha_s' and cv != 'json':
            ok, d = reference_case(cv)
            if not ok:
                bad.append({'entry': 'alpha_s(reference converted)', 'conversion': cv, 'detail': d})
    return {'confirmed': bool(bad), 'observed': bad[:3]}


@replayer('c15.scaling')
def _scaling(spec, model):
    import pygaps.characterisation as c
    iso = _load('MCM-41 N2 77.355.json')
    p = iso.pressure(branch='ads', pressure_mode='relative')
    n = iso.loading(branch='ads', loading_basis='molar', loading_unit='mol')
    k = 3.7
    from pygaps.characterisation.area_bet import area_BET_raw
    from pygaps.characterisation.area_lang import area_langmuir_raw
    bad = []
    a, b = area_BET_raw(p, n, 0.162), area_BET_raw(p, k * n, 0.162)
    if not (close(b[0], k * a[0], rel=1e-9) and close(b[1], a[1], rel=1e-9) and close(b[2], k * a[2], rel=1e-9)):
        bad.append({'method': 'bet', 'before': a[:3], 'after': b[:3]})
    a, b = area_langmuir_raw(p, n, 0.162), area_langmuir_raw(p, k * n, 0.162)
    if not (close(b[0], k * a[0], rel=1e-9) and close(b[1], a[1], rel=1e-9)):
        bad.append({'method': 'langmuir', 'before': a[:3], 'after': b[:3]})
    return {'confirmed': bool(bad), 'observed': bad}
