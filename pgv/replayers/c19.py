"""Native replay for C19."""
from __future__ import annotations

import numpy

from pgv.replay import close, replayer

R = 8.31446261815324


@replayer('c19.raw')
def _raw(spec, model):
    from pygaps.characterisation.isosteric_enth import isosteric_enthalpy_raw
    nT = spec['nT']
    rng = numpy.random.default_rng(5)
    bad = []
    for trial in range(5):
        T = rng.uniform(200, 400, nT)
        dH = rng.uniform(5e3, 6e4, 3)
        c = rng.uniform(-3, 3, 3)
        rows = numpy.exp(-dH[:, None] / (R * T[None, :]) + c[:, None])
        enth, slopes, corr, errs = isosteric_enthalpy_raw(rows, T)
        if not numpy.allclose(numpy.asarray(enth) * 1000, dH, rtol=1e-8):
            bad.append({'T': T.tolist(), 'dH': dH.tolist(), 'got_kJ': list(map(float, enth))})
    return {'confirmed': bool(bad), 'observed': bad[:2], 'expected': 'dH recovered at every loading'}


def _mi(T, K0=1e-5, nm=5.0, dH=20000.0, unit='bar'):
    import pygaps
    import pygaps.modelling as pgm
    pygaps.logger.disabled = True
    m = pgm.get_isotherm_model('Langmuir')
    Kbar = K0 * numpy.exp(dH / (R * T))
    scale = {'bar': 1.0, 'kPa': 100.0, 'Pa': 1e5}[unit]
    m.params = {'K': Kbar / scale, 'n_m': nm}
    m.pressure_range = (0.0, 10 * scale)
    m.loading_range = (0.0, nm)
    return pygaps.ModelIsotherm(model=m, material='m', adsorbate='nitrogen', temperature=T, pressure_mode='absolute', pressure_unit=unit,
                                loading_basis='molar', loading_unit='mmol', material_basis='mass', material_unit='g', temperature_unit='K')


@replayer('c19.units')
def _units(spec, model):
    from pygaps.characterisation.isosteric_enth import isosteric_enthalpy
    Ts = [280.0, 300.0, 330.0]
    a = isosteric_enthalpy([_mi(T) for T in Ts], loading_points=[1.0, 2.5])['isosteric_enthalpy']
    b = isosteric_enthalpy([_mi(Ts[0]), _mi(Ts[1], unit='kPa'), _mi(Ts[2], unit='Pa')], loading_points=[1.0, 2.5])['isosteric_enthalpy']
    ok = numpy.allclose(a, b, rtol=1e-8) and numpy.allclose(a, [20.0, 20.0], rtol=1e-6)
    return {'confirmed': not ok, 'observed': {'same_units': list(map(float, a)), 'mixed_units': list(map(float, b))}, 'expected': [20.0, 20.0]}


@replayer('c19.whittaker')
def _whittaker(spec, model):
    import pygaps
    import pygaps.modelling as pgm
    from pygaps.characterisation.enth_sorp_whittaker import enthalpy_sorption_whittaker
    pygaps.logger.disabled = True
    name = spec['model']
    m = pgm.get_isotherm_model(name)
    m.params = {'K': 2e-4, 'n_m': 4.0}
    if name == 'Toth':
        m.params['t'] = 0.8
    m.pressure_range = (0.0, 1e5)
    m.loading_range = (0.0, 3.9)
    T = 77.355
    iso = pygaps.ModelIsotherm(model=m, material='m', adsorbate='nitrogen', temperature=T, pressure_mode='absolute', pressure_unit='Pa',
                               loading_basis='molar', loading_unit='mmol', material_basis='mass', material_unit='g', temperature_unit='K')
    loads = [0.0, 0.5, 1.5, 3.0, 3.9]
    res = enthalpy_sorption_whittaker(iso, loading=loads)
    ads = iso.adsorbate
    p_sat, p_c, p_t = ads.saturation_pressure(T), ads.p_critical(), ads.p_triple()
    bad = []
    want_l, want_h = [], []
    t = m.params.get('t', 1)
    for n in loads:
        if n == 0:
            continue
        p = float(iso.pressure_at(n, pressure_unit='Pa'))
        if numpy.isnan(p) or p < 0 or p > p_c or p > p_sat:
            continue
        hv = ads.enthalpy_vaporisation(press=max(p, p_t)) * 1000
        th = (n / m.params['n_m']) ** t
        lam = R * T * numpy.log(p_sat / (1 / m.params['K'] ** t) ** (1 / t) * (th / (1 - th)) ** ((t - 1) / t))
        want_l.append(n)
        want_h.append((lam + hv + R * T) / 1000)
    ok = list(res['loading']) == want_l and numpy.allclose(res['enthalpy_sorption'], want_h, rtol=1e-9)
    return {'confirmed': not ok, 'observed': {'loading': list(res['loading']), 'enthalpy': list(map(float, res['enthalpy_sorption']))},
            'expected': {'loading': want_l, 'enthalpy': want_h}}


@replayer('c19.order')
def _order(spec, model):
    """isotherms generated from a known isosteric enthalpy (20 kJ/mol), handed over in every order of the temperatures"""
    import itertools
    from pygaps.characterisation.isosteric_enth import isosteric_enthalpy
    bad = []
    for Ts in list(itertools.permutations([280.0, 300.0, 330.0])) + [(320.0, 280.0)]:
        try:
            a = isosteric_enthalpy([_mi(T) for T in Ts], loading_points=[1.0, 2.5])['isosteric_enthalpy']
            if not numpy.allclose(a, [20.0, 20.0], rtol=1e-6):
                bad.append({'temperatures': list(Ts), 'enthalpy': list(map(float, a))})
        except Exception as exc:
            bad.append({'temperatures': list(Ts), 'error': f"{type(exc).__name__}: {exc}"[:120]})
    return {'confirmed': bool(bad), 'observed': bad[:3], 'expected': '20 kJ/mol for every order'}


def point_isotherm_cases():
    """densely sampled *point* isotherms generated from a Langmuir model whose affinity follows van 't Hoff with enthalpy dH, measured
    up and back down along the same curve (both branches), temperatures in no particular order: the isosteric enthalpy is dH at
    every loading (to interpolation accuracy), on the adsorption and on the desorption branch"""
    import pygaps
    import pygaps.characterisation as pgc
    pygaps.logger.disabled = True
    dH = 30000.0
    for label, Ts in (('3_temperatures', (320.0, 280.0, 300.0)), ('4_temperatures', (320.0, 280.0, 300.0, 340.0))):
        isos = []
        for T in Ts:
            K = 1e-5 * numpy.exp(dH / (R * T))
            up = numpy.geomspace(1e-4, 10.0, 120)
            pp = numpy.concatenate((up, up[::-1][1:]))
            ll = 5.0 * K * pp / (1 + K * pp)
            isos.append(pygaps.PointIsotherm(pressure=pp, loading=ll, branch=[0] * 120 + [1] * 119, material='pgv_c19', adsorbate='nitrogen', temperature=T,
                                             pressure_mode='absolute', pressure_unit='bar', loading_basis='molar', loading_unit='mmol', material_basis='mass',
                                             material_unit='g', temperature_unit='K'))
        for br in ('ads', 'des'):
            try:
                res = pgc.isosteric_enthalpy(isos, branch=br, loading_points=[0.5, 1.0, 2.0, 3.0])
                got = numpy.asarray(res['isosteric_enthalpy'], dtype=float)
                ok = got.shape == (4,) and bool(numpy.allclose(got, dH / 1000, rtol=5e-3))
                detail = '' if ok else f"enthalpy {got} kJ/mol, generating value {dH / 1000}"
            except Exception as exc:
                ok, detail = False, f"{type(exc).__name__}: {exc}"[:160]
            yield {'name': f"point_isotherms|{label}|branch={br}", 'ok': ok, 'detail': detail}


@replayer('c19.points')
def _points(spec, model):
    for r in point_isotherm_cases():
        if r['name'] == spec['name']:
            return {'confirmed': not r['ok'], 'observed': r['detail'], 'expected': 'the generating enthalpy at every loading, on either branch'}
    return {'confirmed': False, 'error': 'case not found'}


def generation_route_cases():
    """model isotherms generated at several temperatures by the ways a user would write it -- one parameter dictionary updated in a
    loop and handed to get_isotherm_model each time; a clone of the first model through to_dict / model_from_dict with its K
    replaced: every isotherm keeps the parameters it was generated with, and the isosteric enthalpy is the generating dH"""
    import pygaps
    import pygaps.characterisation as pgc
    import pygaps.modelling as pgm
    pygaps.logger.disabled = True
    dH = 27000.0
    Ts = (300.0, 320.0, 280.0)
    Ks = [1e-5 * numpy.exp(dH / (R * T)) for T in Ts]
    meta = dict(material='pgv_c19', adsorbate='nitrogen', pressure_mode='absolute', pressure_unit='bar', loading_basis='molar', loading_unit='mmol',
                material_basis='mass', material_unit='g', temperature_unit='K')
    for mname, extra in (('Langmuir', {}), ('Toth', {'t': 0.8})):
        for route in ('one_dictionary_updated', 'clone_through_to_dict'):
            isos = []
            try:
                if route == 'one_dictionary_updated':
                    params = dict({'n_m': 5.0, 'K': None}, **extra)
                    for T, K in zip(Ts, Ks):
                        params['K'] = K
                        m = pgm.get_isotherm_model(mname, parameters=params, pressure_range=(0.0, 10.0), loading_range=(0.0, 5.0), rmse=0.0)
                        isos.append(pygaps.ModelIsotherm(model=m, temperature=T, **meta))
                else:
                    first = pgm.get_isotherm_model(mname, parameters=dict({'n_m': 5.0, 'K': Ks[0]}, **extra), pressure_range=(0.0, 10.0), loading_range=(0.0, 5.0), rmse=0.0)
                    isos.append(pygaps.ModelIsotherm(model=first, temperature=Ts[0], **meta))
                    for T, K in zip(Ts[1:], Ks[1:]):
                        clone = pgm.model_from_dict(dict(first.to_dict()))
                        clone.params['K'] = K
                        isos.append(pygaps.ModelIsotherm(model=clone, temperature=T, **meta))
                probs = []
                got_K = [float(i.model.params['K']) for i in isos]
                if not numpy.allclose(got_K, Ks, rtol=1e-12):
                    probs.append(f"K carried by the isotherms {got_K}, generated with {Ks}")
                h = numpy.asarray(pgc.isosteric_enthalpy(isos, loading_points=[0.5, 1.0, 2.5])['isosteric_enthalpy'], dtype=float)
                if not numpy.allclose(h, dH / 1000, rtol=1e-6):
                    probs.append(f"isosteric enthalpy {h}, generating value {dH / 1000}")
            except Exception as exc:
                probs = [f"{type(exc).__name__}: {exc}"[:160]]
            yield {'name': f"generation_route|{mname}|{route}", 'ok': not probs, 'detail': '; '.join(probs)}


@replayer('c19.generation')
def _generation(spec, model):
    for r in generation_route_cases():
        if r['name'] == spec['name']:
            return {'confirmed': not r['ok'], 'observed': r['detail'], 'expected': 'every isotherm keeps its own parameters; the enthalpy is the generating one'}
    return {'confirmed': False, 'error': 'case not found'}


def zero_loading_cases():
    """loading points that include zero loading (the default points of isotherms that start at the origin; an explicit 0 in the
    list): every returned array has one entry per reported loading, in its position -- each positive loading carries the generating
    dH (the zero loading itself has no defined enthalpy and is left free)"""
    import warnings
    import pygaps
    import pygaps.characterisation as pgc
    from pygaps.characterisation.isosteric_enth import isosteric_enthalpy_raw
    pygaps.logger.disabled = True
    dH = 25000.0
    isos = [_mi(T, dH=dH) for T in (300.0, 280.0, 330.0)]
    for tag, kw in (('default_points', {}), ('explicit_zero_in_the_middle', {'loading_points': [0.5, 0.0, 1.0, 2.0, 3.0]}), ('explicit_zero_first', {'loading_points': [0.0, 0.5, 1.0]})):
        probs = []
        try:
            with warnings.catch_warnings():
                warnings.simplefilter('ignore')
                with numpy.errstate(all='ignore'):
                    res = pgc.isosteric_enthalpy(isos, **kw)
            load = numpy.asarray(res['loading'], dtype=float)
            for key in ('isosteric_enthalpy', 'slopes', 'correlation', 'std_errs'):
                if key in res and len(res[key]) != len(load):
                    probs.append(f"{len(load)} loadings reported, {len(res[key])} values of {key}")
            h = numpy.asarray(res['isosteric_enthalpy'], dtype=float)
            if len(h) == len(load):
                off = [float(x) for x, v in zip(load, h) if x > 0 and not abs(v - dH / 1000) <= 1e-6 * dH / 1000]
                if off:
                    probs.append(f"loadings {off[:3]} do not carry the generating enthalpy {dH / 1000}")
        except Exception as exc:
            probs.append(f"{type(exc).__name__}: {exc}"[:160])
        yield {'name': f"zero_loading_point|{tag}", 'ok': not probs, 'detail': '; '.join(probs[:3])}
    # the low-level routine: one row of pressures per loading in, one enthalpy per row out
    try:
        pr = numpy.array([[i.pressure_at(x) for i in isos] for x in (0.5, 1.0, 2.0)], dtype=float)
        pr = numpy.vstack([pr[:1], numpy.zeros((1, 3)), pr[1:]])
        with warnings.catch_warnings():
            warnings.simplefilter('ignore')
            with numpy.errstate(all='ignore'):
                out = isosteric_enthalpy_raw(pr, numpy.array([300.0, 280.0, 330.0]))
        n_out = len(out[0])
        ok = n_out == len(pr) and numpy.allclose(numpy.asarray(out[0], dtype=float)[[0, 2, 3]], dH / 1000, rtol=1e-6)
        detail = '' if ok else f"{len(pr)} rows of pressures in, {n_out} enthalpies out: {numpy.asarray(out[0])}"
    except Exception as exc:
        ok, detail = False, f"{type(exc).__name__}: {exc}"[:160]
    yield {'name': 'zero_loading_point|raw_rows_in_rows_out', 'ok': bool(ok), 'detail': detail}


@replayer('c19.zero_loading')
def _zero_loading(spec, model):
    for r in zero_loading_cases():
        if r['name'] == spec['name']:
            return {'confirmed': not r['ok'], 'observed': r['detail'], 'expected': 'one enthalpy per reported loading, in its position; dH at every positive loading'}
    return {'confirmed': False, 'error': 'case not found'}
