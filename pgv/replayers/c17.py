"""C17 native side: bounded cases on the real HK code and replayers."""
from __future__ import annotations

import numpy

from pgv.replay import close, replayer

ADS = {'molecular_diameter': 0.3, 'polarizability': 0.0017403, 'magnetic_susceptibility': 3.6e-08, 'surface_density': 6.71e18,
       'liquid_density': 0.8076937566133804, 'adsorbate_molar_mass': 28.01348}


def published_slit(L, T, ads, mat):
    import scipy.constants as c
    d0 = (ads['molecular_diameter'] + mat['molecular_diameter']) / 2
    pa, ps_, ma, ms = (ads['polarizability'] * 1e-27, mat['polarizability'] * 1e-27, ads['magnetic_susceptibility'] * 1e-27,
                       mat['magnetic_susceptibility'] * 1e-27)
    A_a = 1.5 * c.electron_mass * c.speed_of_light ** 2 * pa * ma
    A_s = 6 * c.electron_mass * c.speed_of_light ** 2 * pa * ps_ / (pa / ma + ps_ / ms)
    sig = (2 / 5) ** (1 / 6) * d0
    return numpy.exp(c.Avogadro / (c.gas_constant * T) * (ads['surface_density'] * A_a + mat['surface_density'] * A_s) / ((sig * 1e-9) ** 4 * (L - 2 * d0)) * (
        sig ** 4 / (3 * (L - d0) ** 3) - sig ** 10 / (9 * (L - d0) ** 9) - sig ** 4 / (3 * d0 ** 3) + sig ** 10 / (9 * d0 ** 9)))


def bounded_cases(seed, thorough=False):
    import pygaps
    pygaps.logger.disabled = True
    import pygaps.characterisation.psd_micro as PMi
    from pygaps.characterisation.models_hk import get_hk_model
    mats = ['Carbon(HK)', 'AlSiOxideIon', 'AlPhOxideIon'] if thorough else ['Carbon(HK)', 'AlSiOxideIon']
    for matname in mats:
        mat = get_hk_model(matname)
        for T in ((77.0, 150.0, 300.0) if thorough else (77.0, 200.0)):
            d0 = (ADS['molecular_diameter'] + mat['molecular_diameter']) / 2
            L = numpy.linspace(2 * d0 + 0.12, 2 * d0 + 2.5, 12)  # internuclear distances
            p = published_slit(L, T, ADS, mat)
            order = numpy.argsort(p)
            p, L = p[order], L[order]
            keep = (p > 1e-12) & (p < 0.95)
            p, L = p[keep], L[keep]
            loading = numpy.linspace(1.0, 5.0, len(p))
            w, dist, vcum = PMi.psd_horvath_kawazoe(p, loading, T, 'slit', ADS, mat)
            want = L - mat['molecular_diameter']
            want_avg = (want[:-1] + want[1:]) / 2
            ok = len(w) == len(want_avg) and numpy.allclose(numpy.asarray(w, dtype=float), want_avg, rtol=2e-3)
            yield {'name': f"slit_published_equation_round_trip|{matname}|T={T}", 'ok': bool(ok),
                   'detail': '' if ok else f"widths {numpy.asarray(w)[:4]} vs {want_avg[:4]}"}
        if matname == mats[0]:
            bad = _entry_point_sequence()
            yield {'name': 'entry_point_uses_parameters_of_each_isotherm_in_a_sequence', 'ok': not bad, 'detail': str(bad[:2])[:300]}
        for model, geom in [(m, g) for m in ('HK', 'HK-CY', 'RY', 'RY-CY') for g in ('slit', 'cylinder', 'sphere')]:
            p = numpy.geomspace(1e-6, 0.1, 10)
            loading = 5 * p ** 0.3 / (1 + p ** 0.3)
            f = PMi.psd_horvath_kawazoe if model.startswith('HK') else PMi.psd_horvath_kawazoe_ry
            try:
                w, dist, vcum = f(p, loading, 77.0, geom, ADS, mat, use_cy=model.endswith('CY'))
            except Exception as exc:
                yield {'name': f"tail_and_monotone|{model}|{geom}|{matname}", 'ok': False, 'detail': f"{type(exc).__name__}: {exc}"[:150]}
                continue
            w = numpy.asarray(w, dtype=float)
            V = loading * ADS['adsorbate_molar_mass'] / ADS['liquid_density'] / 1000
            k = len(vcum)
            mono = bool(numpy.all(numpy.diff(w) >= -1e-6))
            tail = bool(numpy.allclose(numpy.asarray(vcum, dtype=float), V[1:k + 1]))
            yield {'name': f"tail_and_monotone|{model}|{geom}|{matname}", 'ok': mono and tail,
                   'detail': '' if (mono and tail) else f"widths non-decreasing: {mono}; cumulative == liquid volume: {tail}"}


def _entry_point_sequence():
    """psd_microporous on isotherms of one adsorbate at several temperatures, in one process: every result equals the same
    calculation with the parameters written out by hand (database properties + liquid density at that temperature)"""
    import pygaps
    import pygaps.characterisation.psd_micro as PMi
    pygaps.logger.disabled = True
    p = numpy.geomspace(1e-6, 0.15, 12)
    bad = []
    for T in (77.355, 87.3, 77.355, 70.0):
        loading = 5 * p ** 0.3 / (1 + p ** 0.3)
        iso = pygaps.PointIsotherm(pressure=list(p), loading=list(loading), material='pgv_c17', adsorbate='nitrogen', temperature=T, pressure_mode='relative',
                                   pressure_unit=None, loading_basis='molar', loading_unit='mmol', material_basis='mass', material_unit='g', temperature_unit='K')
        a = iso.adsorbate
        am = {'molecular_diameter': a.get_prop('molecular_diameter'), 'polarizability': a.get_prop('polarizability'),
              'magnetic_susceptibility': a.get_prop('magnetic_susceptibility'), 'surface_density': a.get_prop('surface_density'),
              'liquid_density': a.liquid_density(T), 'adsorbate_molar_mass': a.molar_mass()}
        got = PMi.psd_microporous(iso, psd_model='HK', pore_geometry='slit')
        want = PMi.psd_microporous(iso, psd_model='HK', pore_geometry='slit', adsorbate_model=am)
        for k in ('pore_widths', 'pore_distribution', 'pore_volume_cumulative'):
            if not numpy.allclose(numpy.asarray(got[k], dtype=float), numpy.asarray(want[k], dtype=float), rtol=1e-9):
                bad.append({'temperature': T, 'result': k, 'from_isotherm': [float(v) for v in got[k][-2:]], 'parameters_written_out': [float(v) for v in want[k][-2:]]})
    return bad


@replayer('c17.history')
def _history(spec, model):
    bad = _entry_point_sequence()
    return {'confirmed': bool(bad), 'observed': bad[:3], 'expected': 'adsorbate parameters of the isotherm at hand (liquid density at its temperature)'}


@replayer('c17.bounded')
def _b(spec, model):
    for res in bounded_cases(spec.get('seed', 0), thorough=True):
        if res['name'] == spec['name']:
            return {'confirmed': not res['ok'], 'observed': res['detail']}
    return {'confirmed': False, 'error': 'case not found'}


def _first_bad(prefix):
    bad = [r for r in bounded_cases(0) if r['name'].startswith(prefix) and not r['ok']]
    return {'confirmed': bool(bad), 'observed': bad[:2]}


@replayer('c17.slit')
def _slit(spec, model):
    return _first_bad('slit_published')


@replayer('c17.tail')
def _tail(spec, model):
    return _first_bad('tail_and_monotone|HK|slit')


@replayer('c17.objective')
def _obj(spec, model):
    r = _first_bad('slit_published')
    r['note'] = 'objective obligations replay through the published-equation round trip'
    return r
