"""C17 native side: bounded cases on the real HK code and replayers."""
from __future__ import annotations

import numpy

from pgv.replay import close, replayer

ADS = {'molecular_diameter': 0.3, 'polarizability': 0.0017403, 'magnetic_susceptibility': 3.6e-08, 'surface_density': 6.71e18,
       'liquid_density': 0.8076937566133804, 'adsorbate_molar_mass': 28.01348}


def published_slit(L, T, ads, mat):
    import scipy.constants as c
    d0 = (ads['molecular_diameter'] + mat['molecular_diameter']) / 2
    pa, ps_, ma, ms = (ads['polarizability'] * 1e-27, mat['polarizability'] * 1e-27, ads['magnetic_susceptibility'] * 1e-27,
                       mat['magnetic_susceptibility'] * 1e-27)
    A_a = 1.5 * c.electron_mass * c.speed_of_light ** 2 * pa * ma
    A_s = 6 * c.electron_mass * c.speed_of_light ** 2 * pa * ps_ / (pa / ma + ps_ / ms)
    sig = (2 / 5) ** (1 / 6) * d0
    return numpy.exp(c.Avogadro / (c.gas_constant * T) * (ads['surface_density'] * A_a + mat['surface_density'] * A_s) / ((sig * 1e-9) ** 4 * (L - 2 * d0)) * (
        sig ** 4 / (3 * (L - d0) ** 3) - sig ** 10 / (9 * (L - d0) ** 9) - sig ** 4 / (3 * d0 ** 3) + sig ** 10 / (9 * d0 ** 9)))


# ---- independent transcriptions of the documented equations (docstrings of psd_horvath_kawazoe / psd_horvath_kawazoe_ry):
# Saito-Foley cylinder, Rege-Yang slit and cylinder.  (The spherical equations are not transcribed: the docstring's T_x sign
# convention and the code disagree and the paper is not available here -- stated in DESIGN.md.)
import math
import scipy.constants as c


def _consts(ads, mat):
    pa, ps_, ma, ms = (ads['polarizability'] * 1e-27, mat['polarizability'] * 1e-27, ads['magnetic_susceptibility'] * 1e-27,
                       mat['magnetic_susceptibility'] * 1e-27)
    A_gg = 1.5 * c.electron_mass * c.speed_of_light ** 2 * pa * ma
    A_gh = 6 * c.electron_mass * c.speed_of_light ** 2 * pa * ps_ / (pa / ma + ps_ / ms)
    d_g, d_h = ads['molecular_diameter'], mat['molecular_diameter']
    return A_gg, A_gh, d_g, d_h, (d_g + d_h) / 2, ads['surface_density'], mat['surface_density']


def _ab(kmax):
    a, b = [1.0], [1.0]
    for k in range(1, kmax):
        a.append(((-4.5 - k) / k) ** 2 * a[-1])
        b.append(((-1.5 - k) / k) ** 2 * b[-1])
    return a, b


_A, _B = _ab(4000)


def hk_cylinder(L, T, ads, mat, kmax=None):
    """RT ln p = 3/4 pi N_A (n_h A_gh + n_g A_gg)/d0^4 sum_k 1/(k+1) (1-d0/L)^(2k) [21/32 a_k (d0/L)^10 - b_k (d0/L)^4]"""
    A_gg, A_gh, d_g, d_h, d0, n_g, n_h = _consts(ads, mat)
    r = d0 / L
    s = 0.0
    kmax = max(1, min(int(L * 25), 2000)) if kmax is None else kmax  # the code's stated truncation rule: 25 terms per nm of radius
    for k in range(kmax):
        t = (1 - r) ** (2 * k) / (k + 1) * (21 / 32 * _A[k] * r ** 10 - _B[k] * r ** 4)
        s += t
    return math.exp(0.75 * math.pi * c.Avogadro / (c.gas_constant * T) * (n_h * A_gh + n_g * A_gg) / (d0 * 1e-9) ** 4 * s)


def hk_sphere(L, T, ads, mat):
    A_gg, A_gh, d_g, d_h, d0, n_g, n_h = _consts(ads, mat)
    n1 = 4 * math.pi * (L * 1e-9) ** 2 * n_h
    n2 = 4 * math.pi * ((L - d0) * 1e-9) ** 2 * n_g
    q = (L - d0) / L

    def Tx(x):
        return (1 + (-1) ** x * q) ** (-x) - (1 - (-1) ** x * q) ** (-x)
    e = 6 * (n1 * A_gh / (4 * (d0 * 1e-9) ** 6) + n2 * A_gg / (4 * (d_g * 1e-9) ** 6)) * L ** 3 / (L - d0) ** 3 * (
        (d0 / L) ** 12 * (Tx(9) / 90 - Tx(8) / 80) - (d0 / L) ** 6 * (Tx(3) / 12 - Tx(2) / 8))
    return math.exp(c.Avogadro / (c.gas_constant * T) * e)


def ry_slit(L, T, ads, mat):
    A_gg, A_gh, d_g, d_h, d0, n_g, n_h = _consts(ads, mat)
    sig, sig_g = (2 / 5) ** (1 / 6) * d0, (2 / 5) ** (1 / 6) * d_g
    M = (L - d_h) / d_g
    e_gs = n_h * A_gh / (2 * (sig * 1e-9) ** 4) * ((sig / d0) ** 10 - (sig / d0) ** 4)
    e_gg = n_g * A_gg / (2 * (sig_g * 1e-9) ** 4) * ((sig_g / d_g) ** 10 - (sig_g / d_g) ** 4)
    if M < 2:
        e = n_h * A_gh / (2 * (sig * 1e-9) ** 4) * ((sig / d0) ** 10 - (sig / d0) ** 4 + (sig / (L - d0)) ** 10 - (sig / (L - d0)) ** 4)
    else:
        e = (2 * (e_gs + e_gg) + (M - 2) * 2 * e_gg) / M
    return math.exp(c.Avogadro / (c.gas_constant * T) * e)


def _layers(L, d_h, d_g):
    return int(((2 * L - d_h) / d_g - 1) / 2) + 1


def ry_cylinder(L, T, ads, mat, kmax=None):
    A_gg, A_gh, d_g, d_h, d0, n_g, n_h = _consts(ads, mat)

    kmax = max(1, min(int(L * 25), 2000)) if kmax is None else kmax  # the code's stated truncation rule

    def eps(d, n, A, a):
        b = 1 - a
        sa = sum(_A[k] * b ** (2 * k) for k in range(kmax))
        sb = sum(_B[k] * b ** (2 * k) for k in range(kmax))
        return 0.75 * math.pi * n * A / (d * 1e-9) ** 4 * (21 / 32 * a ** 10 * sa - a ** 4 * sb)
    M = _layers(L, d_h, d_g)
    num = den = 0.0
    for i in range(1, M + 1):
        x = d_g / (2 * (L - d0 - (i - 1) * d_g))
        n_i = math.pi / math.asin(x) if x <= 1 else 1.0  # a single file of molecules on the axis counts once
        e_i = eps(d0, n_h, A_gh, d0 / L) if i == 1 else eps(d_g, n_g, A_gg, d_g / (L - d0 - (i - 2) * d_g))
        num += n_i * e_i
        den += n_i
    return math.exp(c.Avogadro / (c.gas_constant * T) * num / den)


def ry_sphere(L, T, ads, mat):
    """the Rege-Yang equation for a spherical pore as the docstring of psd_horvath_kawazoe_ry gives it: layer i interacts with the
    n_(i-1) molecules of the layer outside it (n_0: the wall), a and b as for the cylinder, the average weighted by n_1..n_M"""
    A_gg, A_gh, d_g, d_h, d0, n_g, n_h = _consts(ads, mat)

    def bracket(a):
        b = 1 - a
        return a ** 12 / (10 * b) * ((1 - b) ** -10 - (1 + b) ** -10) - a ** 6 / (4 * b) * ((1 - b) ** -4 - (1 + b) ** -4)
    M = _layers(L, d_h, d_g)
    n = [4 * math.pi * (L * 1e-9) ** 2 * n_h] + [4 * math.pi * ((L - d0 - (i - 1) * d_g) * 1e-9) ** 2 * n_g for i in range(1, M + 1)]
    num = den = 0.0
    for i in range(1, M + 1):
        if i == 1:
            e_i = 2 * n[0] * A_gh / (4 * (d0 * 1e-9) ** 6) * bracket(d0 / L)
        else:
            e_i = 2 * n[i - 1] * A_gg / (4 * (d_g * 1e-9) ** 6) * bracket(d_g / (L - d0 - (i - 2) * d_g))
        num += n[i] * e_i
        den += n[i]
    return math.exp(c.Avogadro / (c.gas_constant * T) * num / den)


TRANSCRIBED = {
    ('RY', 'sphere'): (ry_sphere, 3e-3, 'radius', 1e-60),  # (the spherical potential is deep: nanometre pores fill at 1e-40 .. 1e-16 p/p0)
    ('HK', 'cylinder'): (hk_cylinder, 3e-3, 'radius'), ('RY', 'cylinder'): (ry_cylinder, 3e-3, 'radius'), ('RY', 'slit'): (ry_slit, 2e-3, 'width'),
}


def _safe(spec, L, T, mat):
    try:
        return spec(L, T, ADS, mat)
    except (ValueError, ZeroDivisionError, OverflowError):
        return float('nan')


def transcribed_cases(thorough=False):
    """pressures computed from the transcribed equation for chosen widths are mapped back to those widths"""
    import warnings
    import pygaps
    pygaps.logger.disabled = True
    import pygaps.characterisation.psd_micro as PMi
    from pygaps.characterisation.models_hk import get_hk_model
    Ws = numpy.array([0.70, 0.80, 1.00, 1.10, 1.30, 1.40, 1.60, 1.70, 1.90, 2.00, 2.30, 2.40, 2.70, 2.80])  # up to the ~3 nm the property names
    for matname in (['Carbon(HK)', 'AlSiOxideIon'] if thorough else ['Carbon(HK)']):
        mat = get_hk_model(matname)
        for T in ((77.355, 150.0) if thorough else (77.355,)):
            for (model, geom), (spec, tol, kind, *pmin) in TRANSCRIBED.items():
                Ls = (Ws + mat['molecular_diameter']) / 2 if kind == 'radius' else Ws + mat['molecular_diameter']
                p = numpy.array([spec(L, T, ADS, mat) for L in Ls])
                name = f"documented_equation_round_trip|{model}|{geom}|{matname}|T={T}"
                # the Rege-Yang potentials jump where the number of layers changes: where the documented pressure is not
                # increasing in the width a pressure has several (or no) solutions and the round trip claims nothing --
                # keep the longest run of widths from the large end on which p(W) increases strictly
                lo = len(p) - 1
                while lo > 0 and p[lo - 1] < p[lo]:
                    lo -= 1
                p, Ws_ = p[lo:], Ws[lo:]
                # ... and only widths whose pressure is attained nowhere else on the solver's search range (dense scan of the
                # documented equation): the reported width is *a* solution, the round trip needs it to be the only one
                dense_W = numpy.linspace(0.32, 5.0, 1200)
                dense_L = (dense_W + mat['molecular_diameter']) / 2 if kind == 'radius' else dense_W + mat['molecular_diameter']
                with numpy.errstate(all='ignore'):
                    dense_p = numpy.array([_safe(spec, L, T, mat) for L in dense_L])
                unique = numpy.array([numpy.sum(numpy.diff(numpy.sign(dense_p[numpy.isfinite(dense_p)] - pv)) != 0) <= 1 for pv in p])
                p, Ws_ = p[unique], Ws_[unique]
                keep = (p > (pmin[0] if pmin else 1e-14)) & (p < 0.95)
                order = numpy.argsort(p[keep])
                pk, Wk = p[keep][order], Ws_[keep][order]
                if len(pk) < 4:
                    yield {'name': name, 'ok': True, 'detail': 'fewer than four widths on an increasing stretch of the documented equation (no claim)'}
                    continue
                f = PMi.psd_horvath_kawazoe if model == 'HK' else PMi.psd_horvath_kawazoe_ry
                with warnings.catch_warnings():
                    warnings.simplefilter('ignore')
                    w, dist, vc = f(pk, numpy.linspace(1.0, 5.0, len(pk)), T, geom, ADS, mat)
                want = (Wk[:-1] + Wk[1:]) / 2
                w = numpy.asarray(w, dtype=float)
                # (the infinite series of the cylindrical equations is truncated by the transcription exactly as the code says it
                # does -- 25 terms per nm of radius --, so that the comparison is about the equation, not about the truncation;
                # with the full series the widths differ by up to 1.6 % at 2 nm for the oxide-ion surfaces)
                ok = len(w) == len(want) and bool(numpy.max(numpy.abs(w - want)) <= tol)
                yield {'name': name, 'ok': ok, 'detail': '' if ok else f"expected mid-widths {want[:6]} reported {w[:6]}"}


def origin_point_cases():
    """an isotherm that starts with a measured point at the origin (p = 0, n = 0): every later point keeps its own width, cumulative
    volume and finite-difference distribution -- the result from the second bin on equals the result for the data without that point"""
    import warnings
    import pygaps
    pygaps.logger.disabled = True
    import pygaps.characterisation.psd_micro as PMi
    from pygaps.characterisation.models_hk import get_hk_model
    mat = get_hk_model('Carbon(HK)')
    p = numpy.geomspace(1e-7, 0.1, 12)
    n = numpy.linspace(0.8, 7.5, 12)
    for model, f, kw in (('HK', PMi.psd_horvath_kawazoe, {}), ('HK-CY', PMi.psd_horvath_kawazoe, {'use_cy': True}), ('RY', PMi.psd_horvath_kawazoe_ry, {})):
        for geom in ('slit', 'cylinder'):
            name = f"leading_origin_point|{model}|{geom}"
            try:
                with warnings.catch_warnings():
                    warnings.simplefilter('ignore')
                    w0, d0, v0 = (numpy.asarray(x, dtype=float) for x in f(p, n, 77.355, geom, ADS, mat, **kw))
                    w1, d1, v1 = (numpy.asarray(x, dtype=float) for x in f(numpy.concatenate(([0.0], p)), numpy.concatenate(([0.0], n)), 77.355, geom, ADS, mat, **kw))
                if len(w0) < 4:
                    yield {'name': name, 'ok': True, 'detail': 'fewer than four widths inside the reporting range (no claim)'}
                    continue
                k = len(w0)
                ok = len(w1) >= k and numpy.allclose(w1[-k:], w0, rtol=1e-6) and numpy.allclose(v1[-k:], v0, rtol=1e-9) and numpy.allclose(d1[-k + 1:], d0[1:], rtol=1e-5)
                detail = '' if ok else f"without the origin point: widths {w0[:4]} volumes {v0[:4]}; with it: widths {w1[:5]} volumes {v1[:5]}"
            except Exception as exc:
                ok, detail = False, f"{type(exc).__name__}: {exc}"[:160]
            yield {'name': name, 'ok': bool(ok), 'detail': detail}


def dict_order_cases():
    """the adsorbate and adsorbent parameter sets are dictionaries: the same numbers under the same names give the same widths
    whatever order the keys were written in (sorted by name, reversed, as a JSON round trip leaves them)"""
    import warnings
    import pygaps
    pygaps.logger.disabled = True
    import pygaps.characterisation.psd_micro as PMi
    from pygaps.characterisation.models_hk import get_hk_model
    mat = dict(get_hk_model('Carbon(HK)'))
    p = numpy.geomspace(1e-7, 0.05, 10)
    n = numpy.linspace(0.8, 7.0, 10)
    orders = {'sorted_by_name': lambda d: {k: d[k] for k in sorted(d)}, 'reversed': lambda d: {k: d[k] for k in list(d)[::-1]}}
    for model, f in (('HK', PMi.psd_horvath_kawazoe), ('RY', PMi.psd_horvath_kawazoe_ry)):
        for geom in ('slit', 'cylinder'):
            with warnings.catch_warnings():
                warnings.simplefilter('ignore')
                ref = numpy.asarray(f(p, n, 77.355, geom, dict(ADS), dict(mat))[0], dtype=float)
                for oname, reorder in orders.items():
                    for which in ('adsorbate', 'material'):
                        try:
                            a = reorder(dict(ADS)) if which == 'adsorbate' else dict(ADS)
                            m = reorder(dict(mat)) if which == 'material' else dict(mat)
                            got = numpy.asarray(f(p, n, 77.355, geom, a, m)[0], dtype=float)
                            ok = got.shape == ref.shape and bool(numpy.allclose(got, ref, rtol=1e-9))
                            detail = '' if ok else f"widths {got[:4]} vs {ref[:4]} with the documented key order"
                        except Exception as exc:
                            ok, detail = False, f"{type(exc).__name__}: {exc}"[:160]
                        yield {'name': f"parameter_dictionary_key_order|{model}|{geom}|{which}_{oname}", 'ok': ok, 'detail': detail}


def bounded_cases(seed, thorough=False):
    yield from transcribed_cases(thorough)
    yield from origin_point_cases()
    yield from dict_order_cases()
    import pygaps
    pygaps.logger.disabled = True
    import pygaps.characterisation.psd_micro as PMi
    from pygaps.characterisation.models_hk import get_hk_model
    mats = ['Carbon(HK)', 'AlSiOxideIon', 'AlPhOxideIon'] if thorough else ['Carbon(HK)', 'AlSiOxideIon']
    for matname in mats:
        mat = get_hk_model(matname)
        for T in ((77.0, 150.0, 300.0) if thorough else (77.0, 200.0)):
            d0 = (ADS['molecular_diameter'] + mat['molecular_diameter']) / 2
            L = numpy.linspace(2 * d0 + 0.12, 2 * d0 + 2.5, 12)  # internuclear distances
            p = published_slit(L, T, ADS, mat)
            order = numpy.argsort(p)
            p, L = p[order], L[order]
            keep = (p > 1e-12) & (p < 0.95)
            p, L = p[keep], L[keep]
            loading = numpy.linspace(1.0, 5.0, len(p))
            w, dist, vcum = PMi.psd_horvath_kawazoe(p, loading, T, 'slit', ADS, mat)
            want = L - mat['molecular_diameter']
            want_avg = (want[:-1] + want[1:]) / 2
            ok = len(w) == len(want_avg) and numpy.allclose(numpy.asarray(w, dtype=float), want_avg, rtol=2e-3)
            yield {'name': f"slit_published_equation_round_trip|{matname}|T={T}", 'ok': bool(ok),
                   'detail': '' if ok else f"widths {numpy.asarray(w)[:4]} vs {want_avg[:4]}"}
        if matname == mats[0]:
            bad = _entry_point_sequence()
            yield {'name': 'entry_point_uses_parameters_of_each_isotherm_in_a_sequence', 'ok': not bad, 'detail': str(bad[:2])[:300]}
        for model, geom in [(m, g) for m in ('HK', 'HK-CY', 'RY', 'RY-CY') for g in ('slit', 'cylinder', 'sphere')]:
            p = numpy.geomspace(1e-6, 0.1, 10)
            loading = 5 * p ** 0.3 / (1 + p ** 0.3)
            f = PMi.psd_horvath_kawazoe if model.startswith('HK') else PMi.psd_horvath_kawazoe_ry
            try:
                w, dist, vcum = f(p, loading, 77.0, geom, ADS, mat, use_cy=model.endswith('CY'))
            except Exception as exc:
                yield {'name': f"tail_and_monotone|{model}|{geom}|{matname}", 'ok': False, 'detail': f"{type(exc).__name__}: {exc}"[:150]}
                continue
            w = numpy.asarray(w, dtype=float)
            V = loading * ADS['adsorbate_molar_mass'] / ADS['liquid_density'] / 1000
            k = len(vcum)
            mono = bool(numpy.all(numpy.diff(w) >= -1e-6))
            tail = bool(numpy.allclose(numpy.asarray(vcum, dtype=float), V[1:k + 1]))
            yield {'name': f"tail_and_monotone|{model}|{geom}|{matname}", 'ok': mono and tail,
                   'detail': '' if (mono and tail) else f"widths non-decreasing: {mono}; cumulative == liquid volume: {tail}"}
            if matname != mats[0]:
                continue
            # the distribution is the finite-difference derivative on every interval, also where the loading is still rising at
            # the top of the window (Cheng-Yang widths then come back down: listed finding; the derivative is negative there, not 0).
            # Checked on what is returned alone: a_i = (w_i + w_i+1) / 2 and s_i = dV_i / dist_i = w_i+1 - w_i give
            # a_i+1 - a_i = (s_i + s_i+1) / 2 for consecutive intervals
            p2 = numpy.geomspace(1e-7, 0.2, 40)
            l2 = numpy.linspace(1.0, 10.0, 40)
            try:
                a, dist, vcum = f(p2, l2, 77.355, geom, ADS, mat, use_cy=model.endswith('CY'))
                a, dist = numpy.asarray(a, dtype=float), numpy.asarray(dist, dtype=float)
                dV = numpy.diff(l2 * ADS['adsorbate_molar_mass'] / ADS['liquid_density'] / 1000)[:len(dist)]
                probs = []
                zero = [i for i in range(len(dist)) if dist[i] == 0 and dV[i] != 0]
                if zero:
                    probs.append(f"distribution 0 on {len(zero)} interval(s) over which {dV[zero[0]]:.4g} cm3/g were adsorbed (first: interval {zero[0]})")
                else:
                    with numpy.errstate(all='ignore'):
                        st = dV / dist
                    lhs, rhs = numpy.diff(a), (st[:-1] + st[1:]) / 2
                    badi = [i for i in range(len(lhs)) if numpy.isfinite(rhs[i]) and not abs(lhs[i] - rhs[i]) <= 1e-6 * max(abs(lhs[i]), abs(rhs[i]), 1e-3)]
                    if badi:
                        probs.append(f"intervals {badi[:4]}: the width steps implied by dV/dist do not add up to the reported widths ({lhs[badi[0]]:.6g} vs {rhs[badi[0]]:.6g})")
            except Exception as exc:
                probs = [f"{type(exc).__name__}: {exc}"[:150]]
            yield {'name': f"distribution_is_finite_difference_derivative|{model}|{geom}|{matname}", 'ok': not probs, 'detail': '; '.join(probs)}


def _entry_point_sequence():
    """psd_microporous on isotherms of one adsorbate at several temperatures, in one process: every result equals the same
    calculation with the parameters written out by hand (database properties + liquid density at that temperature)"""
    import pygaps
    import pygaps.characterisation.psd_micro as PMi
    pygaps.logger.disabled = True
    p = numpy.geomspace(1e-6, 0.15, 12)
    bad = []
    for T in (77.355, 87.3, 77.355, 70.0):
        loading = 5 * p ** 0.3 / (1 + p ** 0.3)
        iso = pygaps.PointIsotherm(pressure=list(p), loading=list(loading), material='pgv_c17', adsorbate='nitrogen', temperature=T, pressure_mode='relative',
                                   pressure_unit=None, loading_basis='molar', loading_unit='mmol', material_basis='mass', material_unit='g', temperature_unit='K')
        a = iso.adsorbate
        am = {'molecular_diameter': a.get_prop('molecular_diameter'), 'polarizability': a.get_prop('polarizability'),
              'magnetic_susceptibility': a.get_prop('magnetic_susceptibility'), 'surface_density': a.get_prop('surface_density'),
              'liquid_density': a.liquid_density(T), 'adsorbate_molar_mass': a.molar_mass()}
        got = PMi.psd_microporous(iso, psd_model='HK', pore_geometry='slit')
        want = PMi.psd_microporous(iso, psd_model='HK', pore_geometry='slit', adsorbate_model=am)
        for k in ('pore_widths', 'pore_distribution', 'pore_volume_cumulative'):
            if not numpy.allclose(numpy.asarray(got[k], dtype=float), numpy.asarray(want[k], dtype=float), rtol=1e-9):
                bad.append({'temperature': T, 'result': k, 'from_isotherm': [float(v) for v in got[k][-2:]], 'parameters_written_out': [float(v) for v in want[k][-2:]]})
    return bad


@replayer('c17.history')
def _history(spec, model):
    bad = _entry_point_sequence()
    return {'confirmed': bool(bad), 'observed': bad[:3], 'expected': 'adsorbate parameters of the isotherm at hand (liquid density at its temperature)'}


@replayer('c17.bounded')
def _b(spec, model):
    for res in bounded_cases(spec.get('seed', 0), thorough=True):
        if res['name'] == spec['name']:
            return {'confirmed': not res['ok'], 'observed': res['detail']}
    return {'confirmed': False, 'error': 'case not found'}


def _first_bad(prefix):
    bad = [r for r in bounded_cases(0) if r['name'].startswith(prefix) and not r['ok']]
    return {'confirmed': bool(bad), 'observed': bad[:2]}


@replayer('c17.slit')
def _slit(spec, model):
    return _first_bad('slit_published')


@replayer('c17.tail')
def _tail(spec, model):
    return _first_bad('tail_and_monotone|HK|slit')


@replayer('c17.objective')
def _obj(spec, model):
    r = _first_bad('slit_published')
    r['note'] = 'objective obligations replay through the published-equation round trip'
    return r
