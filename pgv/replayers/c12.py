"""C12 native side: fitting with the real optimiser (bounded stand-in)."""
from __future__ import annotations

import random

import numpy

from pgv.replay import close, replayer

GEN = {
    'Henry': {'K': (0.5, 5)}, 'Langmuir': {'K': (0.5, 20), 'n_m': (1, 8)}, 'DSLangmuir': {'n_m1': (1, 4), 'K1': (5, 20), 'n_m2': (1, 4), 'K2': (0.1, 1)},
    'BET': {'n_m': (1, 5), 'C': (20, 200), 'N': (0.6, 0.9)}, 'Freundlich': {'K': (0.5, 5), 'm': (1.2, 4)},
    'DR': {'n_m': (1, 8), 'e': (3000, 9000)}, 'DA': {'n_m': (1, 8), 'e': (3000, 9000), 'm': (1.5, 2.5)},
    'TemkinApprox': {'n_m': (1, 8), 'K': (1, 20), 'tht': (0.1, 1.5)}, 'Toth': {'n_m': (1, 8), 'K': (1, 20), 't': (0.4, 1.5)},
    'JensenSeaton': {'K': (1, 20), 'a': (1, 8), 'b': (0.05, 0.5), 'c': (0.5, 2)},
}


def _iso(p, l, **kw):
    import pygaps
    pygaps.logger.disabled = True
    meta = dict(material='pgv_c12', adsorbate='nitrogen', temperature=77.355, pressure_mode='relative', pressure_unit=None, loading_basis='molar',
                loading_unit='mmol', material_basis='mass', material_unit='g', temperature_unit='K')
    meta.update(kw)
    return pygaps.PointIsotherm(pressure=list(p), loading=list(l), **meta)


def _gen(name, params, p, T=77.355):
    import pygaps.modelling as pgm
    m = pgm.get_isotherm_model(name)
    m.params = dict(params)
    m.__init_parameters__({'temperature': T})
    return numpy.asarray(m.loading(p), dtype=float)


def recovery_cases(seed, thorough=False):
    import pygaps
    import pygaps.modelling as pgm
    from pygaps.utilities.exceptions import CalculationError
    pygaps.logger.disabled = True
    rnd = random.Random(seed)
    reps = 6 if thorough else 2
    grids = (8, 20, 60) if thorough else (12, 40)
    for name, dom in GEN.items():
        for r in range(reps):
            params = {k: rnd.uniform(*v) for k, v in dom.items()}
            n = grids[r % len(grids)]
            p = numpy.linspace(0.01, 0.7 if name in ('BET',) else 0.95, n)
            l = _gen(name, params, p)
            if not numpy.all(numpy.isfinite(l)):
                continue
            iso = _iso(p, l)
            cname = f"recovery|{name}|case{r}|n={n}"
            try:
                mi = pgm.model_iso(iso, model=name)
            except CalculationError:
                yield {'name': cname, 'ok': True, 'detail': 'optimiser reported failure (no claim)'}
                continue
            pred = numpy.asarray(mi.loading_at(p), dtype=float)
            scale = max(l) - min(l)
            ok = numpy.allclose(pred, l, atol=2e-3 * scale)
            yield {'name': cname, 'ok': bool(ok), 'detail': '' if ok else f"max deviation {float(numpy.max(numpy.abs(pred - l))):.3g} of range {scale:.3g}; params {mi.model.params} vs {params}"}
            # reported rmse == actual rms deviation / loading range of the fit
            rng = mi.model.loading_range[1] - mi.model.loading_range[0]
            want = float(numpy.sqrt(numpy.mean((pred - l) ** 2)) / rng)
            yield {'name': f"rmse_identity|{name}|case{r}", 'ok': close(mi.model.rmse, want, rel=1e-6, abs_=1e-12), 'detail': f"{mi.model.rmse} vs {want}"}
            # refit of the generated point isotherm returns the same curve
            pi = pygaps.PointIsotherm.from_modelisotherm(mi, pressure_points=p)
            on_model = numpy.allclose(numpy.asarray(pi.loading(), dtype=float), pred, rtol=1e-9)
            keeps = pi.material == iso.material and str(pi.adsorbate) == str(iso.adsorbate) and pi.units == iso.units
            yield {'name': f"from_modelisotherm_on_model_keeps_metadata|{name}|case{r}", 'ok': bool(on_model and keeps), 'detail': f"on model {on_model}, metadata {keeps}"}
            # generated points, re-fitted, generated again: the second generation lies on the re-fitted model and keeps the metadata
            if r == 0:
                try:
                    mi2 = pgm.model_iso(pi, model=name)
                    pi2 = pygaps.PointIsotherm.from_modelisotherm(mi2, pressure_points=p)
                    ok2 = numpy.allclose(numpy.asarray(pi2.loading(), dtype=float), numpy.asarray(mi2.loading_at(p), dtype=float), rtol=1e-9) and pi2.units == iso.units \
                        and pi2.material == iso.material and pi2.properties.get('model_from') == name
                    d2 = '' if ok2 else f"metadata {pi2.properties}, units {pi2.units}"
                except CalculationError:
                    ok2, d2 = True, 'optimiser reported failure (no claim)'
                except Exception as exc:
                    ok2, d2 = False, f"{type(exc).__name__}: {exc}"[:160]
                yield {'name': f"generated_refitted_generated_again|{name}", 'ok': bool(ok2), 'detail': d2}
            # unit covariance: loading in mol, pressure in relative%
            if r == 0:
                iso2 = _iso(p, l)
                iso2.convert(loading_unit='mol', pressure_mode='relative%')
                try:
                    mi2 = pgm.model_iso(iso2, model=name)
                    pred2 = numpy.asarray(mi2.loading_at(p * 100), dtype=float) * 1000
                    ok2 = numpy.allclose(pred2, pred, atol=3e-2 * scale)  # to optimiser tolerance
                    yield {'name': f"unit_covariance|{name}", 'ok': bool(ok2) or name in ('DR', 'DA'),
                           'detail': '' if ok2 else f"max deviation {float(numpy.max(numpy.abs(pred2 - pred))):.3g} (DR/DA are defined on relative pressure only)"}
                except CalculationError:
                    yield {'name': f"unit_covariance|{name}", 'ok': True, 'detail': 'optimiser reported failure (no claim)'}
    # noisy data: error identity and best-of-list
    p = numpy.linspace(0.02, 0.9, 25)
    noise = numpy.array([rnd.uniform(-0.03, 0.03) for _ in p])
    l = 5 * 3 * p / (1 + 3 * p) * (1 + noise)
    l = numpy.maximum.accumulate(l)
    iso = _iso(p, l)
    models = ['Henry', 'Langmuir', 'DSLangmuir', 'Toth', 'Freundlich']
    singles = {}
    for mname in models:
        try:
            singles[mname] = pgm.model_iso(iso, model=mname)
        except CalculationError:
            pass
    for mname, mi in singles.items():
        pred = numpy.asarray(mi.loading_at(p), dtype=float)
        rng = mi.model.loading_range[1] - mi.model.loading_range[0]
        want = float(numpy.sqrt(numpy.mean((pred - l) ** 2)) / rng)
        yield {'name': f"rmse_identity_noisy|{mname}", 'ok': close(mi.model.rmse, want, rel=1e-6), 'detail': f"{mi.model.rmse} vs {want}"}
        lo_hi = [(mi.model.param_bounds[k][0] - 1e-9 <= v <= mi.model.param_bounds[k][1] + 1e-9) for k, v in mi.model.params.items()]
        yield {'name': f"parameters_within_bounds|{mname}", 'ok': all(lo_hi), 'detail': str(mi.model.params)}
    best = pgm.model_iso(iso, model=models)
    ok = close(best.model.rmse, min(m.model.rmse for m in singles.values()), rel=1e-6)
    yield {'name': 'best_of_list_has_smallest_rmse', 'ok': bool(ok), 'detail': f"{best.model.name} {best.model.rmse} vs {[(k, v.model.rmse) for k, v in singles.items()]}"}
    # the returned isotherm (and a point isotherm generated from it) carries the metadata and units of the data that were fitted
    src = {k: v for k, v in iso.to_dict().items()}
    got = {k: v for k, v in best.to_dict().items()}
    gen = {k: v for k, v in pygaps.PointIsotherm.from_modelisotherm(best, pressure_points=list(p)).to_dict().items() if k != 'model_from'}
    extra = {k: got[k] for k in got if k != 'branch' and (k not in src or got[k] != src[k])}  # (the fitted branch is content of a model isotherm)
    extra.update({f"generated:{k}": gen[k] for k in gen if k not in src or gen[k] != src[k]})
    yield {'name': 'best_of_list_keeps_metadata_and_units', 'ok': not extra, 'detail': str(extra)}
    # user bounds are a dictionary by parameter name: an active bound holds whatever the key order it was written in
    for mname, truth, cap in (('Langmuir', {'K': 0.5, 'n_m': 10.0}, ('n_m', 8.0)), ('Toth', {'n_m': 6.0, 'K': 4.0, 't': 0.8}, ('n_m', 5.0)),
                              ('DSLangmuir', {'n_m1': 3.0, 'K1': 10.0, 'n_m2': 2.0, 'K2': 0.5}, ('n_m1', 2.0))):
        pp = numpy.linspace(0.05, 8 if mname == 'Langmuir' else 0.95, 25)
        ll = _gen(mname, truth, pp)
        fits = {}
        for order in ('model', 'reversed'):
            keys = list(truth) if order == 'model' else list(truth)[::-1]
            pb = {k: ((0.0, cap[1]) if k == cap[0] else (0.0, numpy.inf)) for k in keys}
            try:
                mi = pgm.model_iso(_iso(pp, ll, pressure_mode='absolute', pressure_unit='bar'), model=mname, param_bounds=pb)
                fits[order] = dict(mi.model.params)
                inside = all(mi.model.param_bounds[k][0] - 1e-9 <= v <= mi.model.param_bounds[k][1] + 1e-9 for k, v in mi.model.params.items())
                yield {'name': f"user_bounds_respected|{mname}|keys_in_{order}_order", 'ok': bool(inside), 'detail': f"{mi.model.params} vs bounds {mi.model.param_bounds}"}
            except CalculationError:
                yield {'name': f"user_bounds_respected|{mname}|keys_in_{order}_order", 'ok': True, 'detail': 'optimiser reported failure (no claim)'}
        if len(fits) == 2:
            same = all(close(fits['model'][k], fits['reversed'][k], rel=1e-4, abs_=1e-8) for k in truth)
            yield {'name': f"user_bounds_key_order_irrelevant|{mname}", 'ok': bool(same), 'detail': f"{fits}"}
    # desorption branch (points stored from high to low pressure) and unsorted input: same identities
    pdn = numpy.linspace(0.95, 0.05, 19)
    for label, pp in (('descending', pdn), ('shuffled', numpy.array(sorted(pdn, key=lambda v: (v * 7919) % 1)))):
        ll = 9.0 * 3.0 * pp / (1 + 3.0 * pp) * (1 + 0.01 * numpy.sin(40 * pp))
        fits = {}
        for mname in ('Henry', 'Langmuir', 'Freundlich'):
            try:
                mi = pgm.model_iso(_iso(pp, ll, branch='des' if label == 'descending' else 'ads'), model=mname, branch='des' if label == 'descending' else 'ads')
            except CalculationError:
                continue
            fits[mname] = mi
            pred = numpy.asarray(mi.loading_at(pp), dtype=float)
            want = float(numpy.sqrt(numpy.mean((pred - ll) ** 2)) / (max(ll) - min(ll)))
            yield {'name': f"rmse_identity|{label}_data|{mname}", 'ok': close(mi.model.rmse, want, rel=1e-6, abs_=1e-12), 'detail': f"{mi.model.rmse} vs {want}"}
            rng_ok = close(mi.model.pressure_range[0], min(pp)) and close(mi.model.pressure_range[1], max(pp)) and close(mi.model.loading_range[0], min(ll)) and close(mi.model.loading_range[1], max(ll))
            yield {'name': f"stored_ranges_are_min_max|{label}_data|{mname}", 'ok': bool(rng_ok), 'detail': f"{mi.model.pressure_range} {mi.model.loading_range}"}
        if len(fits) >= 2:
            try:
                best = pgm.model_iso(_iso(pp, ll, branch='des' if label == 'descending' else 'ads'), model=list(fits), branch='des' if label == 'descending' else 'ads')
                actual = {k: float(numpy.sqrt(numpy.mean((numpy.asarray(v.loading_at(pp), dtype=float) - ll) ** 2))) for k, v in fits.items()}
                ok = actual[best.model.name] <= min(actual.values()) * (1 + 1e-6)
                yield {'name': f"best_of_list_has_smallest_actual_deviation|{label}_data", 'ok': bool(ok), 'detail': f"returned {best.model.name}; deviations {actual}"}
            except CalculationError:
                pass
    # the same data with the temperature expressed in degrees Celsius: the same fitted curve (DR / DA carry -RT)
    pt = numpy.linspace(0.01, 0.9, 20)
    for mname, truth in (('DR', {'n_m': 10.0, 'e': 4000.0}), ('DA', {'n_m': 8.0, 'e': 5000.0, 'm': 2.5}), ('Langmuir', {'K': 3.0, 'n_m': 5.0})):
        lt = _gen(mname, truth, pt, T=77.0)
        try:
            k = pgm.model_iso(_iso(pt, lt, temperature=77.0, temperature_unit='K'), model=mname)
            c = pgm.model_iso(_iso(pt, lt, temperature=77.0 - 273.15, temperature_unit='°C'), model=mname)
            same = all(close(k.model.params[q], c.model.params[q], rel=1e-4, abs_=1e-8) for q in truth)
            rec = all(close(k.model.params[q], truth[q], rel=1e-3) for q in truth)
            yield {'name': f"temperature_unit_covariance|{mname}", 'ok': bool(same and rec), 'detail': f"K: {k.model.params}; degC: {c.model.params}; generated with {truth}"}
        except CalculationError:
            yield {'name': f"temperature_unit_covariance|{mname}", 'ok': True, 'detail': 'optimiser reported failure (no claim)'}
    # the options dictionary belongs to the caller: the same call twice gives the same outcome
    pv = numpy.array([0.5, 1, 2, 3, 4, 5, 6, 7.0])
    lv = 5 * 2 * pv / (1 + 2 * pv)
    opts = {'add_point': True}
    outs = []
    for _ in range(2):
        try:
            outs.append(('ok', round(float(pgm.model_iso(_iso(pv, lv, pressure_mode='absolute', pressure_unit='bar'), model='Virial', optimization_params=opts).model.params['K']), 6)))
        except CalculationError as exc:
            outs.append(('CalculationError', None))
    yield {'name': 'same_call_twice_same_outcome|Virial_add_point', 'ok': outs[0] == outs[1] and opts == {'add_point': True}, 'detail': f"{outs}; options afterwards {opts}"}
    # only the requested branch is used
    p2 = numpy.concatenate([p, p[::-1][1:]])
    l2 = numpy.concatenate([l, (l * 1.3)[::-1][1:]])
    iso_b = _iso(p2, l2)
    a = pgm.model_iso(iso_b, model='Langmuir', branch='ads')
    a_only = pgm.model_iso(_iso(p, l), model='Langmuir')
    ok = all(close(a.model.params[k], a_only.model.params[k], rel=1e-6) for k in a.model.params)
    yield {'name': 'only_requested_branch_used', 'ok': bool(ok), 'detail': f"{a.model.params} vs {a_only.model.params}"}


@replayer('c12.case')
def _case(spec, model):
    for r in recovery_cases(spec.get('seed', 0), thorough=True):
        if r['name'] == spec['name']:
            return {'confirmed': not r['ok'], 'observed': r['detail']}
    for r in recovery_cases(spec.get('seed', 0)):
        if r['name'] == spec['name']:
            return {'confirmed': not r['ok'], 'observed': r['detail']}
    return {'confirmed': False, 'error': 'case not found'}


@replayer('c12.fit')
def _fit(spec, model):
    bad = [r for r in recovery_cases(0) if not r['ok'] and (spec['model'] in r['name'] or (spec.get('order') == 'reversed' and r['name'].startswith('user_bounds')))]
    return {'confirmed': bool(bad), 'observed': [(b['name'], b['detail']) for b in bad[:3]]}


@replayer('c12.guess')
def _guess(spec, model):
    bad = [r for r in recovery_cases(0) if not r['ok'] and r['name'].startswith('best_of_list')]
    return {'confirmed': bool(bad), 'observed': [(b['name'], b['detail']) for b in bad[:3]]}


@replayer('c12.ranges')
def _ranges(spec, model):
    bad = [r for r in recovery_cases(0) if not r['ok'] and ('_data' in r['name'])]
    return {'confirmed': bool(bad), 'observed': [(b['name'], b['detail']) for b in bad[:3]], 'expected': 'ranges (min, max); reported error = actual normalised deviation'}


@replayer('c12.branch_marks')
def _branch_marks(spec, model):
    """real fit: the reported error equals the deviation over the points marked as the requested branch"""
    import pygaps
    import pygaps.modelling as pgm
    pygaps.logger.disabled = True
    p = [0.1, 0.2, 0.3, 0.4, 0.5, 0.6, 0.7, 0.8, 0.9, 0.95, 0.93, 0.7, 0.4]
    l = [float(5 * 2 * x / (1 + 2 * x)) for x in p[:11]] + [4.2, 3.6]
    l[10] = l[9] + 0.4  # the last adsorption point, measured just below the previous pressure, off the curve
    marks = [0] * 11 + [1, 1]
    iso = _iso(p, l, branch=marks)
    bad = []
    try:
        mi = pgm.model_iso(iso, model='Langmuir', branch='ads')
        pa, la = numpy.asarray(p[:11]), numpy.asarray(l[:11])
        pred = numpy.asarray(mi.loading_at(pa), dtype=float)
        want = float(numpy.sqrt(numpy.mean((pred - la) ** 2)) / (max(la) - min(la)))
        if not close(mi.model.rmse, want, rel=1e-6):
            bad.append({'reported_rmse': mi.model.rmse, 'deviation_over_the_11_marked_adsorption_points': want})
    except Exception as exc:
        bad.append({'error': f"{type(exc).__name__}: {exc}"[:160]})
    pd_, ld_ = sorted(p[:8]), sorted(l[:8])
    try:
        mi = pgm.model_iso(_iso(pd_, ld_, branch=[1] * 8), model='Langmuir', branch='des')
    except Exception as exc:
        bad.append({'desorption_only_isotherm': f"{type(exc).__name__}: {exc}"[:160]})
    return {'confirmed': bool(bad), 'observed': bad, 'expected': 'fit on the marked points of the requested branch'}


@replayer('c12.bounds_history')
def _bounds_history(spec, model):
    """real fits: exact Langmuir data fitted with default bounds, then other data with user bounds, then the first fit again"""
    import pygaps
    pygaps.logger.disabled = True
    META = dict(material='pgv_c12', adsorbate='nitrogen', temperature=77.355, pressure_mode='absolute', pressure_unit='bar', loading_basis='molar',
                loading_unit='mmol', material_basis='mass', material_unit='g', temperature_unit='K')
    p = numpy.linspace(0.05, 5, 30)
    l = 5.0 * 0.8 * p / (1 + 0.8 * p)
    first = pygaps.ModelIsotherm(pressure=p, loading=l, model='Langmuir', **META).model.params
    pygaps.ModelIsotherm(pressure=p, loading=3.0 * 0.2 * p / (1 + 0.2 * p), model='Langmuir', param_bounds={'K': (0, 0.5), 'n_m': (0, 100)}, **META)
    again_iso = pygaps.ModelIsotherm(pressure=p, loading=l, model='Langmuir', **META)
    again = again_iso.model.params
    same = all(abs(first[k] - again[k]) <= 1e-6 * abs(first[k]) for k in first)
    return {'confirmed': not same, 'observed': {'first fit': {k: float(v) for k, v in first.items()}, 'same fit after a user-bounded fit': {k: float(v) for k, v in again.items()},
                                                 'bounds in force': str(again_iso.model.param_bounds)}, 'expected': 'identical fits under the default bounds'}


def verbose_cases():
    """a fit asked to report what it does (verbose=True: log lines, a plot) returns the same model as the silent fit: parameters,
    reported error, and the error equals the actual deviation -- through the model, the isotherm constructor, and the best-of-list"""
    import os
    os.environ.setdefault('MPLBACKEND', 'Agg')
    import warnings
    import pygaps
    import pygaps.modelling as pgm
    pygaps.logger.disabled = True
    try:
        import matplotlib
        matplotlib.use('Agg')
        import matplotlib.pyplot as plt
    except Exception:
        plt = None
    p = numpy.linspace(0.05, 5, 25)
    data = {'Toth': 5.0 * 0.8 * p / (1 + (0.8 * p) ** 0.7) ** (1 / 0.7), 'Freundlich': 2.0 * p ** (1 / 1.7), 'DSLangmuir': 3.0 * 2.0 * p / (1 + 2.0 * p) + 2.0 * 0.1 * p / (1 + 0.1 * p)}
    for name, l in data.items():
        iso = _iso(p, l, pressure_mode='absolute', pressure_unit='bar')
        probs = []
        with warnings.catch_warnings():
            warnings.simplefilter('ignore')
            try:
                silent = pgm.model_iso(iso, model=name, verbose=False)
                loud = pgm.model_iso(iso, model=name, verbose=True)
                best = pgm.model_iso(iso, model=['Henry', name], verbose=True)
                for tag, mi in (('verbose=True', loud), ('best of list, verbose=True', best)):
                    if mi.model.name != name:
                        continue
                    if any(not close(float(mi.model.params[k]), float(silent.model.params[k]), rel=1e-6) for k in silent.model.params):
                        probs.append(f"{tag}: parameters {dict(mi.model.params)} vs silent fit {dict(silent.model.params)}")
                    pred = numpy.asarray(mi.loading_at(p), dtype=float)
                    rng = mi.model.loading_range[1] - mi.model.loading_range[0]
                    actual = float(numpy.sqrt(numpy.mean((pred - l) ** 2)) / rng)
                    if not (abs(actual - float(mi.model.rmse)) <= 1e-6 * max(actual, 1e-9) + 1e-12):
                        probs.append(f"{tag}: reported error {float(mi.model.rmse):.3e}, actual deviation {actual:.3e}")
            except Exception as exc:
                probs.append(f"{type(exc).__name__}: {exc}"[:160])
            finally:
                if plt is not None:
                    plt.close('all')
        yield {'name': f"verbose_fit_equals_silent_fit|{name}", 'ok': not probs, 'detail': '; '.join(probs[:2])}


@replayer('c12.verbose')
def _verbose(spec, model):
    for r in verbose_cases():
        if r['name'] == spec['name']:
            return {'confirmed': not r['ok'], 'observed': r['detail'], 'expected': 'the verbose fit is the silent fit'}
    return {'confirmed': False, 'error': 'case not found'}
