"""C08 native side: operation histories on real database files vs a dictionary model (bounded stand-in)."""
from __future__ import annotations

import itertools
import json
import os
import random
import shutil
import sqlite3
import tempfile

from pgv.replay import replayer


def universe():
    import pandas
    import pygaps
    import pygaps.modelling as pgm
    pygaps.logger.disabled = True
    A1 = pygaps.Adsorbate('pgv_a1', formula='X', molar_mass=10.0, alias=['pgv_a1b'])
    A1b = pygaps.Adsorbate('pgv_a1', formula='Y', colour='red')
    A2 = pygaps.Adsorbate('pgv_a2')
    M1 = pygaps.Material('pgv_m1', density=2.0, batch='b1', sieve=[0.5, 1.5, 2.5])  # a list-valued property: one row per element
    M1b = pygaps.Material('pgv_m1', density=3.0)
    M2 = pygaps.Material('pgv_m2', swelling=0.0)  # a property whose value is zero is a property
    A1c = pygaps.Adsorbate('pgv_a1')  # overwriting with an item that has no properties must remove the old ones
    M1c = pygaps.Material('pgv_m1')
    common = dict(temperature=300, pressure_mode='absolute', pressure_unit='bar', loading_basis='molar', loading_unit='mmol',
                  material_basis='mass', material_unit='g', temperature_unit='K')
    I1 = pygaps.PointIsotherm(pressure=[0.1, 0.2, 0.3], loading=[1.0, 2.0, 3.0], branch=[0, 1, 0], material='pgv_m1', adsorbate='pgv_a1', note='n1', **common)
    m = pgm.get_isotherm_model('Henry')
    m.params, m.pressure_range, m.loading_range, m.rmse = {'K': 2.0}, (0.0, 1.0), (0.0, 2.0), 0.0
    I2 = pygaps.ModelIsotherm(model=m, material='pgv_m1', adsorbate='pgv_a2', **common)
    I3 = pygaps.core.baseisotherm.BaseIsotherm(material='pgv_m2', adsorbate='pgv_a1', flag=True, **common)
    return dict(A1=A1, A1b=A1b, A1c=A1c, A2=A2, M1=M1, M1b=M1b, M1c=M1c, M2=M2, I1=I1, I2=I2, I3=I3)


def iso_key(i):
    """content key of an isotherm that does not depend on which Material object the name resolved to"""
    import hashlib
    import json
    d = dict(i.to_dict())
    m = d.get('material')
    d['material'] = m['name'] if isinstance(m, dict) else str(m)
    if hasattr(i, 'data_raw'):
        d['__data__'] = {c: [round(float(x), 8) for x in i.data_raw[c]] for c in sorted(i.data_raw.columns)}
    if hasattr(i, 'model'):
        d['__model__'] = i.model.to_dict()
    return type(i).__name__ + ':' + hashlib.md5(json.dumps(d, sort_keys=True, default=str).encode()).hexdigest()


def _props(obj):
    # (the properties as the object holds them -- not its own export, which is part of what is being checked)
    d = dict(getattr(obj, 'properties', None) or {})
    if hasattr(obj, 'alias'):
        d['alias'] = list(obj.alias)
    d.pop('name', None)
    out = {}
    for k, v in d.items():
        out[k] = sorted(str(x) for x in v) if isinstance(v, (list, tuple, set)) else [str(v)]
    return out


OPS = ['ads_up:A1', 'ads_ow:A1b', 'ads_ow:A1c', 'ads_del:A1', 'ads_up:A2', 'ads_del:A2', 'mat_up:M1', 'mat_ow:M1b', 'mat_ow:M1c', 'mat_del:M1', 'mat_up:M2', 'mat_del:M2',
       'iso_up:I1', 'iso_up_strict:I1', 'iso_up_matonly:I1', 'iso_up_adsonly:I1', 'iso_del:I1', 'iso_up:I2', 'iso_del:I2', 'iso_up:I3', 'iso_del:I3',
       'atype_up:colour', 'atype_del:colour', 'mtype_del:batch', 'mtype_up:batch', 'mtype_up:density', 'atype_ow:colour', 'mtype_ow:batch', 'mtype_ow:ghost']
# property types carry a unit and a description; the ones uploaded explicitly get both, auto-inserted ones have none
TYPE_ATTRS = {'up': ('nm', 'as measured'), 'ow': ('g/cm3', 'second version')}


class Model:
    def __init__(self):
        self.ads, self.mats, self.isos = {}, {}, {}
        self.atypes, self.mtypes = {}, {}

    def copy(self):
        m = Model()
        m.ads, m.mats, m.isos = {k: dict(v) for k, v in self.ads.items()}, {k: dict(v) for k, v in self.mats.items()}, dict(self.isos)
        m.atypes, m.mtypes = dict(self.atypes), dict(self.mtypes)
        return m

    def apply(self, op, U):
        """-> 'ok' | 'refused'; state updated only on ok"""
        kind, arg = op.split(':')
        n = self.copy()
        if kind in ('ads_up', 'ads_ow'):
            a = U[arg]
            if (a.name in n.ads) != (kind == 'ads_ow'):
                return 'refused'
            n.ads[a.name] = _props(a)
            [n.atypes.setdefault(t, (None, None)) for t in n.ads[a.name]]
        elif kind == 'ads_del':
            a = U[arg]
            if a.name not in n.ads or any(v[2] == a.name for v in n.isos.values()):
                return 'refused'
            del n.ads[a.name]
        elif kind in ('mat_up', 'mat_ow'):
            a = U[arg]
            if (a.name in n.mats) != (kind == 'mat_ow'):
                return 'refused'
            n.mats[a.name] = _props(a)
            [n.mtypes.setdefault(t, (None, None)) for t in n.mats[a.name]]
        elif kind == 'mat_del':
            a = U[arg]
            if a.name not in n.mats or any(v[1] == a.name for v in n.isos.values()):
                return 'refused'
            del n.mats[a.name]
        elif kind in ('iso_up', 'iso_up_strict', 'iso_up_matonly', 'iso_up_adsonly'):
            i = U[arg]
            mat, ads = str(i.material), str(i.adsorbate)
            # auto-insertion is part of the same operation: if the upload is refused, the auto-inserted item is not stored either
            if kind in ('iso_up', 'iso_up_matonly'):
                if mat not in n.mats:
                    n.mats[mat] = _props(i.material)
                    [n.mtypes.setdefault(t, (None, None)) for t in n.mats[mat]]
            if kind in ('iso_up', 'iso_up_adsonly'):
                if ads not in n.ads:
                    n.ads[ads] = _props(i.adsorbate)
                    [n.atypes.setdefault(t, (None, None)) for t in n.ads[ads]]
            if mat not in n.mats or ads not in n.ads or iso_key(i) in n.isos:
                return 'refused'
            n.isos[iso_key(i)] = (type(i).__name__, mat, ads)
        elif kind == 'iso_del':
            i = U[arg]
            if iso_key(i) not in n.isos:
                return 'refused'
            del n.isos[iso_key(i)]
        elif kind in ('atype_up', 'mtype_up', 'atype_ow', 'mtype_ow'):
            # (overwriting an absent type is refused, as overwriting an absent adsorbate or material is)
            types = n.atypes if kind[0] == 'a' else n.mtypes
            if (arg in types) != kind.endswith('_ow'):
                return 'refused'
            types[arg] = TYPE_ATTRS[kind[-2:]]
        elif kind == 'atype_del':
            if arg not in n.atypes or any(arg in p for p in n.ads.values()):
                return 'refused'
            del n.atypes[arg]
        elif kind == 'mtype_del':
            if arg not in n.mtypes or any(arg in p for p in n.mats.values()):
                return 'refused'
            del n.mtypes[arg]
        self.__dict__.update(n.__dict__)
        return 'ok'


def _do(S, op, U, db):
    kind, arg = op.split(':')
    kw = dict(db_path=db, verbose=False)
    if kind == 'ads_up':
        S.adsorbate_to_db(U[arg], **kw)
    elif kind == 'ads_ow':
        S.adsorbate_to_db(U[arg], overwrite=True, **kw)
    elif kind == 'ads_del':
        S.adsorbate_delete_db(U[arg], **kw)
    elif kind == 'mat_up':
        S.material_to_db(U[arg], **kw)
    elif kind == 'mat_ow':
        S.material_to_db(U[arg], overwrite=True, **kw)
    elif kind == 'mat_del':
        S.material_delete_db(U[arg], **kw)
    elif kind == 'iso_up':
        S.isotherm_to_db(U[arg], **kw)
    elif kind == 'iso_up_strict':
        S.isotherm_to_db(U[arg], autoinsert_material=False, autoinsert_adsorbate=False, **kw)
    elif kind == 'iso_up_matonly':
        S.isotherm_to_db(U[arg], autoinsert_material=True, autoinsert_adsorbate=False, **kw)
    elif kind == 'iso_up_adsonly':
        S.isotherm_to_db(U[arg], autoinsert_material=False, autoinsert_adsorbate=True, **kw)
    elif kind == 'iso_del':
        S.isotherm_delete_db(U[arg], **kw)
    elif kind in ('atype_up', 'mtype_up', 'atype_ow', 'mtype_ow'):
        unit, desc = TYPE_ATTRS[kind[-2:]]
        f = S.adsorbate_property_type_to_db if kind[0] == 'a' else S.material_property_type_to_db
        f({'type': arg, 'unit': unit, 'description': desc}, overwrite=kind.endswith('_ow'), **kw)
    elif kind == 'atype_del':
        S.adsorbate_property_type_delete_db(arg, **kw)
    elif kind == 'mtype_del':
        S.material_property_type_delete_db(arg, **kw)


def _observe(S, db):
    ads = {a.name: _props(a) for a in S.adsorbates_from_db(db_path=db, verbose=False)}
    mats = {m.name: _props(m) for m in S.materials_from_db(db_path=db, verbose=False)}
    isos = {iso_key(i): (type(i).__name__, str(i.material), str(i.adsorbate)) for i in S.isotherms_from_db(db_path=db, verbose=False)}
    atypes = {t['type']: (t.get('unit'), t.get('description')) for t in S.adsorbate_property_types_from_db(db_path=db, verbose=False)}
    mtypes = {t['type']: (t.get('unit'), t.get('description')) for t in S.material_property_types_from_db(db_path=db, verbose=False)}
    con = sqlite3.connect(db)
    orphans = con.execute("select count(*) from isotherm_data where iso_id not in (select id from isotherms)").fetchone()[0] + \
        con.execute("select count(*) from isotherm_properties where iso_id not in (select id from isotherms)").fetchone()[0] + \
        con.execute("select count(*) from adsorbate_properties where ads_id not in (select id from adsorbates)").fetchone()[0] + \
        con.execute("select count(*) from material_properties where mat_id not in (select id from materials)").fetchone()[0]
    con.close()
    return ads, mats, isos, atypes, mtypes, orphans


def run_history(ops, tpl, tmp, reg0, dbs=1):
    """ops: list of (db index, op).  Returns (ok, detail)."""
    import pygaps
    import pygaps.parsing.sqlite as S
    from pgv.checks import c09
    c09._restore(reg0)
    U = universe()
    paths = []
    for k in range(dbs):
        pth = os.path.join(tmp, f'h{k}.db')
        shutil.copyfile(tpl, pth)
        paths.append(pth)
    models = [Model() for _ in range(dbs)]
    for step, (k, op) in enumerate(ops):
        want = models[k].apply(op, U)
        try:
            _do(S, op, U, paths[k])
            got = 'ok'
        except pygaps.utilities.exceptions.ParsingError:
            got = 'refused'
        except Exception as exc:
            got = f"{type(exc).__name__}: {exc}"[:100]
        if got != want:
            return False, f"step {step} {op}@db{k}: outcome {got}, dictionary model says {want}"
        for j in range(dbs):
            ads, mats, isos, at, mt, orphans = _observe(S, paths[j])
            m = models[j]
            if ads != m.ads or mats != m.mats or isos != m.isos or orphans:
                what = 'adsorbates' if ads != m.ads else 'materials' if mats != m.mats else 'isotherms' if isos != m.isos else 'orphan rows'
                return False, f"step {step} {op}@db{k}: {what} in db{j} differ from the dictionary model"
            if m.atypes != at or m.mtypes != mt:
                diff = {t: (dict(m.atypes, **m.mtypes).get(t), dict(at, **mt).get(t)) for t in set(m.atypes) | set(m.mtypes) | set(at) | set(mt)
                        if dict(m.atypes, **m.mtypes).get(t) != dict(at, **mt).get(t)}
                return False, f"step {step} {op}@db{k}: property types in db{j} differ from the dictionary model (model, stored): {diff}"
    return True, ''


def empty_template(tmp):
    import pygaps.parsing.sqlite as S
    from pygaps.utilities.sqlite_db_pragmas import PRAGMAS
    from pygaps.utilities.sqlite_utilities import db_execute_general
    path = os.path.join(tmp, 'empty.db')
    for pragma in PRAGMAS:
        db_execute_general(pragma, path)
    for t in ('isotherm', 'pointisotherm', 'modelisotherm'):
        S.isotherm_type_to_db({'type': t}, db_path=path, verbose=False)
    return path


def histories(seed, thorough):
    rnd = random.Random(seed)
    hs = [[(0, a)] for a in OPS] + [[(0, a), (0, b)] for a in OPS for b in OPS]
    n_rand = 1500 if thorough else 250
    for _ in range(n_rand):
        L = rnd.choice((3, 4, 5, 6) if thorough else (3, 4))
        hs.append([(0, rnd.choice(OPS)) for _ in range(L)])
    # two database files: what happened in one file must not influence the other
    two = [[(0, 'mat_up:M1'), (1, 'iso_up:I1')], [(0, 'ads_up:A1'), (1, 'iso_up:I1')], [(0, 'iso_up:I1'), (1, 'iso_up:I1')],
           [(0, 'iso_up:I1'), (1, 'ads_up:A1'), (1, 'mat_up:M1'), (1, 'iso_up_strict:I1')], [(0, 'mat_up:M1'), (1, 'mat_up:M1'), (0, 'mat_del:M1'), (1, 'iso_up:I1')]]
    for _ in range(200 if thorough else 20):
        two.append([(rnd.choice((0, 1)), rnd.choice([o for o in OPS if 'only' not in o])) for _ in range(rnd.choice((3, 4, 5)))])
    return hs, two


def run_chunk(chunk):
    from pgv.checks import c09
    import pygaps
    pygaps.logger.disabled = True
    tmp = tempfile.mkdtemp(prefix='pgv-c08h-')
    out = []
    try:
        tpl = empty_template(tmp)
        reg0 = c09._registries()
        for (dbs, ops) in chunk:
            ok, detail = run_history(ops, tpl, tmp, reg0, dbs)
            name = ('two_files|' if dbs == 2 else 'one_file|') + ' ; '.join(f"{op}@{k}" if dbs == 2 else op for k, op in ops)
            out.append({'__bounded__': {'name': name, 'ok': ok, 'detail': detail, 'ops': [[k, op] for k, op in ops]}})
        c09._restore(reg0)
    finally:
        shutil.rmtree(tmp, ignore_errors=True)
    return out


def bulk_case(n=130):
    """more stored isotherms than any internal batch size: everything uploaded comes back (all, and by criteria), a deletion
    removes exactly one"""
    import pygaps
    import pygaps.parsing.sqlite as S
    from pgv.checks import c09
    pygaps.logger.disabled = True
    tmp = tempfile.mkdtemp(prefix='pgv-c08b-')
    reg0 = c09._registries()
    try:
        db = os.path.join(tmp, 'bulk.db')
        shutil.copyfile(empty_template(tmp), db)
        common = dict(material='pgv_bulk_m', adsorbate='pgv_bulk_a', pressure_mode='absolute', pressure_unit='bar', loading_basis='molar', loading_unit='mmol',
                      material_basis='mass', material_unit='g', temperature_unit='K')
        isos = [pygaps.core.baseisotherm.BaseIsotherm(temperature=200 + k, serial=k + 0.5, **common) for k in range(n)]
        for i in isos:
            S.isotherm_to_db(i, db_path=db, verbose=False)
        want = {i.iso_id for i in isos}
        got = {i.iso_id for i in S.isotherms_from_db(db_path=db, verbose=False)}
        by = {i.iso_id for i in S.isotherms_from_db(criteria={'material': 'pgv_bulk_m'}, db_path=db, verbose=False)}
        probs = []
        if got != want:
            probs.append(f"{len(got)} of {n} isotherms retrieved")
        if by != want:
            probs.append(f"{len(by)} of {n} retrieved by criteria")
        S.isotherm_delete_db(isos[3], db_path=db, verbose=False)
        after = {i.iso_id for i in S.isotherms_from_db(db_path=db, verbose=False)}
        if after != want - {isos[3].iso_id}:
            probs.append(f"after one deletion {len(after)} retrieved, expected {n - 1} (exactly the deleted one missing: {after == want - {isos[3].iso_id}})")
        return {'name': f"one_file|bulk:{n}_isotherms_uploaded_retrieved_one_deleted", 'ok': not probs, 'detail': '; '.join(probs), 'ops': None}
    finally:
        c09._restore(reg0)
        shutil.rmtree(tmp, ignore_errors=True)


def value_type_cases():
    """a stored isotherm comes back equal (==, same identifier) for every kind of metadata value"""
    import pygaps
    import pygaps.parsing.sqlite as S
    from pgv.checks import c09
    pygaps.logger.disabled = True
    tmp = tempfile.mkdtemp(prefix='pgv-c08v-')
    reg0 = c09._registries()
    try:
        db = os.path.join(tmp, 'v.db')
        shutil.copyfile(empty_template(tmp), db)
        common = dict(material='pgv_val_m', adsorbate='pgv_val_a', temperature=300, pressure_mode='absolute', pressure_unit='bar', loading_basis='molar',
                      loading_unit='mmol', material_basis='mass', material_unit='g', temperature_unit='K')
        for tag, kw in (('float', dict(ratio=3.5)), ('text', dict(note='x3')), ('true', dict(flag=True)), ('integer', dict(count=3)), ('negative_integer', dict(offset=-2)),
                        ('text_that_reads_as_a_number', dict(batch='007'))):
            i = pygaps.core.baseisotherm.BaseIsotherm(**kw, **common)
            S.isotherm_to_db(i, db_path=db, verbose=False)
            back = [x for x in S.isotherms_from_db(db_path=db, verbose=False)]
            ok = len(back) == 1 and back[0] == i
            yield {'name': f"one_file|retrieved_equals_stored:{tag}_metadata", 'ok': bool(ok), 'ops': None,
                   'detail': '' if ok else str({k: (v, type(v).__name__) for k, v in (back[0].to_dict().items() if back else []) if k in kw})}
            S.isotherm_delete_db(i, db_path=db, verbose=False)
    finally:
        c09._restore(reg0)
        shutil.rmtree(tmp, ignore_errors=True)


def positional_path_case():
    """the target file may be named positionally: every operation still goes to that file and to no other"""
    import pygaps
    import pygaps.parsing.sqlite as S
    from pgv.checks import c09
    pygaps.logger.disabled = True
    tmp = tempfile.mkdtemp(prefix='pgv-c08p-')
    reg0 = c09._registries()
    try:
        db = os.path.join(tmp, 'pos.db')
        shutil.copyfile(empty_template(tmp), db)
        internal_before = sorted(m.name for m in S.materials_from_db(verbose=False))
        S.material_to_db(pygaps.Material('pgv_pos_m', density=2.0), db, verbose=False)
        probs = []
        if sorted(m.name for m in S.materials_from_db(db, verbose=False)) != ['pgv_pos_m']:
            probs.append(f"materials_from_db(path) -> {[m.name for m in S.materials_from_db(db, verbose=False)][:3]}")
        if sorted(m.name for m in S.materials_from_db(db_path=db, verbose=False)) != ['pgv_pos_m']:
            probs.append('material_to_db(material, path) did not write to the named file')
        internal_after = sorted(m.name for m in S.materials_from_db(verbose=False))
        if internal_after != internal_before:
            probs.append('the internal database was changed')
            try:
                S.material_delete_db(pygaps.Material('pgv_pos_m'), verbose=False)
            except Exception:
                pass
        return {'name': 'one_file|target_file_named_positionally', 'ok': not probs, 'detail': '; '.join(probs), 'ops': None}
    finally:
        c09._restore(reg0)
        shutil.rmtree(tmp, ignore_errors=True)


_FRESH = r"""
import json, os, sys
import pandas, pygaps, pygaps.parsing.sqlite as S
pygaps.logger.disabled = True
db, what = sys.argv[1], sys.argv[2]
common = dict(adsorbate='nitrogen', temperature=77.355)
if what == 'upload':
    isos = {
        'material_with_properties': pygaps.PointIsotherm(pressure=[1, 2, 3], loading=[1, 2, 3], material={'name': 'pgv_fp_m', 'density': 2.0, 'batch': 'b1'}, **common),
        'relative_pressure_no_unit': pygaps.PointIsotherm(pressure=[.1, .2, .3], loading=[1, 2, 3], material='pgv_fp_q', pressure_mode='relative', pressure_unit=None, **common),
        'fraction_loading_no_unit': pygaps.PointIsotherm(pressure=[1, 2, 3], loading=[.1, .2, .3], material='pgv_fp_q', loading_basis='fraction', loading_unit=None, **common),
        'integer_and_text_columns': pygaps.PointIsotherm(isotherm_data=pandas.DataFrame({'pressure': [1., 2, 3], 'loading': [1., 2, 3], 'cycle': [1, 1, 2], 'tag': ['a', 'b', 'c']}),
                                                         pressure_key='pressure', loading_key='loading', material='pgv_fp_q', **common),
    }
    out = {}
    for k, i in isos.items():
        try:
            S.isotherm_to_db(i, db_path=db, verbose=False)
            out[k] = i.iso_id
        except Exception as exc:
            out[k] = 'upload failed: ' + type(exc).__name__ + ': ' + str(exc)[:80]
    print(json.dumps(out))
else:
    got = S.isotherms_from_db(db_path=db, verbose=False)
    out = {'ids': [g.iso_id for g in got], 'deleted': []}
    for g in got:
        try:
            S.isotherm_delete_db(g, db_path=db, verbose=False)
            out['deleted'].append(g.iso_id)
        except Exception as exc:
            out.setdefault('delete_errors', []).append(type(exc).__name__ + ': ' + str(exc)[:80])
    out['left'] = len(S.isotherms_from_db(db_path=db, verbose=False))
    print(json.dumps(out))
"""


def fresh_process_cases():
    """isotherms uploaded in one process and retrieved in another (a session that has never seen their materials): each comes back
    with the identifier it was stored under and can be deleted through the retrieved object -- the outcome depends on the file only.
    The set includes isotherms without a pressure / loading unit and with integer and text columns."""
    import subprocess
    import sys
    tmp = tempfile.mkdtemp(prefix='pgv-c08f-')
    try:
        db = os.path.join(tmp, 'fresh.db')
        shutil.copyfile(empty_template(tmp), db)
        root = os.path.dirname(os.path.dirname(os.path.dirname(os.path.abspath(__file__))))
        env = dict(os.environ, PYTHONPATH=f"{os.environ.get('PGV_REPO', '/repo')}/src:{root}")

        def run(what):
            p = subprocess.run([sys.executable, '-c', _FRESH, db, what], capture_output=True, text=True, env=env, timeout=300)
            try:
                return json.loads(p.stdout.strip().splitlines()[-1])
            except Exception:
                return {'error': (p.stderr or p.stdout)[-300:]}
        up = run('upload')
        back = run('retrieve')
        for k, v in up.items() if 'error' not in up else []:
            if v.startswith('upload failed'):
                yield {'name': f"fresh_process|{k}", 'ok': False, 'detail': v, 'ops': None}
                continue
            probs = []
            if v not in back.get('ids', []):
                probs.append(f"stored as {v}, retrieved identifiers {back.get('ids')}")
            elif v not in back.get('deleted', []):
                probs.append(f"could not be deleted through the retrieved isotherm: {back.get('delete_errors')}")
            yield {'name': f"fresh_process|{k}", 'ok': not probs, 'detail': '; '.join(probs), 'ops': None}
        if 'error' in up or 'error' in back:
            yield {'name': 'fresh_process|harness', 'ok': False, 'detail': str(up.get('error') or back.get('error')), 'ops': None}
    finally:
        shutil.rmtree(tmp, ignore_errors=True)


def refused_midway_cases():
    """an upload that is refused after it has already written rows -- a supplementary column of a type the store cannot hold, met
    after the auto-inserted material, the isotherm row and the standard columns -- changes nothing: the file holds what it held,
    the material can be uploaded afterwards, the isotherm cannot be deleted (it was never stored)"""
    import pandas
    import pygaps
    import pygaps.parsing.sqlite as S
    from pgv.checks import c09
    pygaps.logger.disabled = True
    tmp = tempfile.mkdtemp(prefix='pgv-c08r-')
    reg0 = c09._registries()
    try:
        for label, column in (('boolean_column', [True, False, True]), ('object_column', [{'a': 1}, {'a': 2}, {'a': 3}])):
            db = os.path.join(tmp, f'{label}.db')
            shutil.copyfile(empty_template(tmp), db)
            c09._restore(reg0)
            before = _observe(S, db)
            df = pandas.DataFrame({'pressure': [1.0, 2.0, 3.0], 'loading': [1.0, 2.0, 3.0], 'flag': column})
            probs = []
            try:
                iso = pygaps.PointIsotherm(isotherm_data=df, pressure_key='pressure', loading_key='loading', material={'name': 'pgv_rm_mat', 'batch': 'b1'},
                                           adsorbate='nitrogen', temperature=77.355)
                try:
                    S.isotherm_to_db(iso, db_path=db, verbose=False)
                    outcome = 'accepted'
                except Exception as exc:
                    outcome = f"refused ({type(exc).__name__})"
                after = _observe(S, db)
                if outcome == 'accepted':
                    got = S.isotherms_from_db(db_path=db, verbose=False)
                    if not (len(got) == 1 and list(got[0].data_raw['flag']) == list(df['flag'])):
                        probs.append('accepted, but the column did not come back')
                elif after != before:
                    what = [n for n, a_, b_ in zip(('adsorbates', 'materials', 'isotherms', 'adsorbate property types', 'material property types', 'orphan rows'), after, before) if a_ != b_]
                    probs.append(f"{outcome}, yet the file changed: {what}")
                if outcome != 'accepted':
                    try:
                        S.material_to_db(pygaps.Material('pgv_rm_mat', batch='b1'), db_path=db, verbose=False)
                    except Exception as exc:
                        probs.append(f"the material cannot be uploaded afterwards: {type(exc).__name__}: {exc}"[:120])
            except Exception as exc:
                probs.append(f"{type(exc).__name__}: {exc}"[:160])
            yield {'name': f"refused_after_partial_writes|{label}", 'ok': not probs, 'detail': '; '.join(probs), 'ops': None}
    finally:
        c09._restore(reg0)
        shutil.rmtree(tmp, ignore_errors=True)


def criteria_cases():
    """retrieval by criteria on every column of the isotherm table (material, adsorbate, temperature, identifier, kind of isotherm,
    alone and combined, matching and not): exactly the stored isotherms a dictionary model selects come back, and a deletion through
    what an identifier query returned removes exactly that isotherm"""
    import pygaps
    import pygaps.modelling as pgm
    import pygaps.parsing.sqlite as S
    from pgv.checks import c09
    pygaps.logger.disabled = True
    tmp = tempfile.mkdtemp(prefix='pgv-c08c-')
    reg0 = c09._registries()
    try:
        db = os.path.join(tmp, 'crit.db')
        shutil.copyfile(empty_template(tmp), db)
        units = dict(pressure_mode='absolute', pressure_unit='bar', loading_basis='molar', loading_unit='mmol', material_basis='mass', material_unit='g', temperature_unit='K')
        mk_model = lambda: pgm.get_isotherm_model('Langmuir', parameters={'K': 2.0, 'n_m': 5.0}, pressure_range=(0.0, 1.0), loading_range=(0.0, 4.0), rmse=0.0)
        isos = [pygaps.core.baseisotherm.BaseIsotherm(material='pgv_cm1', adsorbate='pgv_ca1', temperature=77.0, **units),
                pygaps.PointIsotherm(pressure=[0.1, 0.2, 0.4], loading=[1.0, 1.5, 2.0], material='pgv_cm1', adsorbate='pgv_ca2', temperature=87.0, **units),
                pygaps.ModelIsotherm(model=mk_model(), material='pgv_cm2', adsorbate='pgv_ca1', temperature=77.0, **units),
                pygaps.PointIsotherm(pressure=[0.1, 0.3], loading=[1.0, 2.5], material='pgv_cm2', adsorbate='pgv_ca2', temperature=298.0, **units)]
        for i in isos:
            S.isotherm_to_db(i, db_path=db, verbose=False)
        row = lambda i: {'id': i.iso_id, 'iso_type': {'BaseIsotherm': 'isotherm'}.get(type(i).__name__, type(i).__name__.lower()), 'material': str(i.material), 'adsorbate': str(i.adsorbate), 'temperature': i.temperature}
        queries = [{'material': 'pgv_cm1'}, {'adsorbate': 'pgv_ca2'}, {'temperature': 77.0}, {'temperature': 298}, {'id': isos[1].iso_id}, {'id': isos[2].iso_id},
                   {'id': 'no such identifier'}, {'iso_type': 'pointisotherm'}, {'iso_type': 'modelisotherm'}, {'iso_type': 'isotherm'},
                   {'material': 'pgv_cm2', 'adsorbate': 'pgv_ca2'}, {'material': 'pgv_cm1', 'temperature': 87.0}, {'iso_type': 'pointisotherm', 'material': 'pgv_cm2'},
                   {'material': 'pgv_nobody'}, {'adsorbate': 'pgv_ca1', 'temperature': 298.0}]
        for q in queries:
            want = sorted(i.iso_id for i in isos if all(row(i)[k] == v for k, v in q.items()))
            try:
                got = sorted(i.iso_id for i in S.isotherms_from_db(criteria=dict(q), db_path=db, verbose=False))
                ok, detail = got == want, '' if got == want else f"{len(got)} isotherm(s) returned, the model selects {len(want)}"
            except Exception as exc:
                ok, detail = False, f"{type(exc).__name__}: {exc}"[:140]
            label = '+'.join(f"{k}={'<id of a stored one>' if k == 'id' and v != 'no such identifier' else v}" for k, v in q.items())
            yield {'name': f"one_file|retrieval_by_criteria|{label}", 'ok': ok, 'detail': detail, 'ops': None}
        probs = []
        try:
            for found in S.isotherms_from_db(criteria={'id': isos[3].iso_id}, db_path=db, verbose=False):
                S.isotherm_delete_db(found, db_path=db, verbose=False)
            left = sorted(i.iso_id for i in S.isotherms_from_db(db_path=db, verbose=False))
            if left != sorted(i.iso_id for i in isos[:3]):
                probs.append(f"{len(left)} isotherm(s) left, expected the other 3")
        except Exception as exc:
            probs.append(f"{type(exc).__name__}: {exc}"[:140])
        yield {'name': 'one_file|retrieval_by_criteria|deleted_through_an_identifier_query', 'ok': not probs, 'detail': '; '.join(probs), 'ops': None}
    finally:
        c09._restore(reg0)
        shutil.rmtree(tmp, ignore_errors=True)


@replayer('c08.criteria')
def _criteria(spec, model):
    for r in criteria_cases():
        if r['name'] == spec['name']:
            return {'confirmed': not r['ok'], 'observed': r['detail'], 'expected': 'exactly the stored isotherms that match the criteria'}
    return {'confirmed': False, 'error': 'case not found'}


def like_named_material_cases():
    """a material stored without properties in the target file, a like-named material with properties uploaded to another file
    earlier in the session (or only registered in the session): the isotherm retrieved from the target file equals the stored one"""
    import pygaps
    import pygaps.parsing.sqlite as S
    from pgv.checks import c09
    pygaps.logger.disabled = True
    units = dict(pressure_mode='absolute', pressure_unit='bar', loading_basis='molar', loading_unit='mmol', material_basis='mass', material_unit='g', temperature_unit='K')
    for tag in ('uploaded_to_another_file', 'registered_in_the_session'):
        tmp = tempfile.mkdtemp(prefix='pgv-c08l-')
        reg0 = c09._registries()
        probs = []
        try:
            tpl = empty_template(tmp)
            a, b = os.path.join(tmp, 'A.db'), os.path.join(tmp, 'B.db')
            shutil.copyfile(tpl, a)
            shutil.copyfile(tpl, b)
            if tag == 'uploaded_to_another_file':
                S.material_to_db(pygaps.Material('pgv_like', comment='from A', density=1.5), db_path=a, verbose=False)
            else:
                pygaps.MATERIAL_LIST.append(pygaps.Material('pgv_like', comment='session', density=1.5))
            S.adsorbate_to_db(pygaps.Adsorbate('pgv_like_a'), db_path=b, verbose=False)
            S.material_to_db(pygaps.Material('pgv_like'), db_path=b, verbose=False)
            iso = pygaps.core.baseisotherm.BaseIsotherm(material=pygaps.Material('pgv_like'), adsorbate='pgv_like_a', temperature=300.0, **units)
            S.isotherm_to_db(iso, db_path=b, verbose=False)
            got = S.isotherms_from_db(db_path=b, verbose=False)
            if len(got) != 1 or not (got[0] == iso):
                mats = [dict(getattr(g.material, 'properties', {})) for g in got]
                probs.append(f"{len(got)} retrieved, material properties {mats}, stored ones {{}}")
            else:
                S.isotherm_delete_db(got[0], db_path=b, verbose=False)
                if S.isotherms_from_db(db_path=b, verbose=False):
                    probs.append('not deleted through the retrieved isotherm')
        except Exception as exc:
            probs.append(f"{type(exc).__name__}: {exc}"[:160])
        finally:
            c09._restore(reg0)
            shutil.rmtree(tmp, ignore_errors=True)
        yield {'name': f"two_files|material_without_properties|like_named_one_{tag}", 'ok': not probs, 'detail': '; '.join(probs), 'ops': None}


@replayer('c08.like_named')
def _like_named(spec, model):
    for r in like_named_material_cases():
        if r['name'] == spec['name']:
            return {'confirmed': not r['ok'], 'observed': r['detail'], 'expected': 'the isotherm as stored in the target file'}
    return {'confirmed': False, 'error': 'case not found'}


@replayer('c08.refused_midway')
def _refused_midway(spec, model):
    bad = [r for r in refused_midway_cases() if not r['ok']]
    return {'confirmed': bool(bad), 'observed': [(b['name'], b['detail']) for b in bad], 'expected': 'a refused upload leaves the file as it was'}


@replayer('c08.fresh')
def _fresh(spec, model):
    bad = [r for r in fresh_process_cases() if not r['ok']]
    return {'confirmed': bool(bad), 'observed': [(b['name'], b['detail']) for b in bad], 'expected': 'same identifier in a fresh process; deletable through the retrieved isotherm'}


def odd_path_cases():
    """database files whose names contain characters that mean something in a URI or a shell (#, ?, %41, blanks), next to a
    neighbour whose name is a prefix of theirs: every operation -- writers and readers alike -- goes to the file that was named"""
    import pygaps
    import pygaps.parsing.sqlite as S
    from pgv.checks import c09
    pygaps.logger.disabled = True
    tmp = tempfile.mkdtemp(prefix='pgv-c08o-')
    reg0 = c09._registries()
    try:
        tpl = empty_template(tmp)
        for label, names in (('hash', ('mofs.db', 'mofs.db#2')), ('hash_and_blank', ('batch', 'batch #3.db')), ('question_mark', ('q.db', 'q.db?mode=rw')), ('percent', ('A.db', '%41.db'))):
            sub = os.path.join(tmp, label)
            os.makedirs(sub)
            pa, pb = os.path.join(sub, names[0]), os.path.join(sub, names[1])
            shutil.copyfile(tpl, pa)
            shutil.copyfile(tpl, pb)
            probs = []
            try:
                c09._restore(reg0)
                S.material_to_db(pygaps.Material('pgv_only_in_a', density=1.0), db_path=pa, verbose=False)
                S.material_to_db(pygaps.Material('pgv_only_in_b', density=2.0), db_path=pb, verbose=False)
                ga = sorted(m.name for m in S.materials_from_db(db_path=pa, verbose=False))
                gb = sorted(m.name for m in S.materials_from_db(db_path=pb, verbose=False))
                if ga != ['pgv_only_in_a'] or gb != ['pgv_only_in_b']:
                    probs.append(f"materials read from {names[0]!r}: {ga}, from {names[1]!r}: {gb}")
                iso = pygaps.PointIsotherm(pressure=[1, 2, 3], loading=[1, 2, 3], material='pgv_only_in_b', adsorbate='nitrogen', temperature=77.355)
                S.isotherm_to_db(iso, db_path=pb, verbose=False)
                back = S.isotherms_from_db(db_path=pb, verbose=False)
                if [b.iso_id for b in back] != [iso.iso_id]:
                    probs.append(f"isotherm uploaded to {names[1]!r} not retrieved from it")
                if sorted(os.listdir(sub)) != sorted(names):
                    probs.append(f"files in the folder afterwards: {sorted(os.listdir(sub))}")
            except Exception as exc:
                probs.append(f"{type(exc).__name__}: {exc}"[:140])
            yield {'name': f"file_names_with_special_characters|{label}", 'ok': not probs, 'detail': '; '.join(probs[:2]), 'ops': None}
    finally:
        c09._restore(reg0)
        shutil.rmtree(tmp, ignore_errors=True)


@replayer('c08.odd_path')
def _odd_path(spec, model):
    bad = [r for r in odd_path_cases() if not r['ok']]
    return {'confirmed': bool(bad), 'observed': [(b['name'], b['detail']) for b in bad], 'expected': 'every operation acts on the file that was named'}


@replayer('c08.positional')
def _positional(spec, model):
    r = positional_path_case()
    return {'confirmed': not r['ok'], 'observed': r['detail'], 'expected': 'operations act on the file that was named'}


@replayer('c08.value')
def _value(spec, model):
    bad = [r for r in value_type_cases() if not r['ok']]
    return {'confirmed': bool(bad), 'observed': [(b['name'], b['detail']) for b in bad], 'expected': 'retrieved isotherm == stored isotherm'}


@replayer('c08.bulk')
def _bulk(spec, model):
    r = bulk_case()
    return {'confirmed': not r['ok'], 'observed': r['detail'], 'expected': 'every uploaded isotherm is retrieved'}


def history_cases(seed, thorough=False):
    from pgv import par
    yield bulk_case(260 if thorough else 130)
    yield from value_type_cases()
    yield positional_path_case()
    yield from fresh_process_cases()
    yield from refused_midway_cases()
    yield from odd_path_cases()
    yield from criteria_cases()
    yield from like_named_material_cases()
    hs, two = histories(seed, thorough)
    items = [(1, h) for h in hs] + [(2, h) for h in two]
    res, crashes = par.pmap(run_chunk, par.chunks(items, 32))
    for r in res:
        yield r['__bounded__']
    for c in crashes:
        yield {'name': 'harness-crash', 'ok': False, 'detail': c[:400], 'ops': None}


@replayer('c08.sequence')
def _seq(spec, model):
    from pgv.checks import c09
    ops = [(k, op) for k, op in (spec.get('ops') or [])]
    if not ops:
        return {'confirmed': False, 'error': 'no operation list'}
    tmp = tempfile.mkdtemp(prefix='pgv-c08r-')
    try:
        tpl = empty_template(tmp)
        reg0 = c09._registries()
        ok, detail = run_history(ops, tpl, tmp, reg0, 1 + max(k for k, _ in ops))
        c09._restore(reg0)
    finally:
        shutil.rmtree(tmp, ignore_errors=True)
    return {'confirmed': not ok, 'observed': detail, 'expected': 'every step agrees with the dictionary model'}


@replayer('c08.history')
def _hist(spec, model):
    bad = [r for r in history_cases(0) if not r['ok'] and not r['name'].startswith('two_files')]
    return {'confirmed': bool(bad), 'observed': [(b['name'], b['detail']) for b in bad[:3]]}


@replayer('c08.registry')
def _registry(spec, model):
    return _seq({'ops': [[0, 'mat_up:M1'], [1, 'iso_up:I1']]}, model)


@replayer('c08.builders')
def _builders(spec, model):
    import pygaps.utilities.sqlite_utilities as U
    got = U.build_insert('t', ['a', 'b'])
    want = 'INSERT INTO "t" (a, b) VALUES (:a, :b)'
    return {'confirmed': got != want, 'observed': got, 'expected': want}
