"""C13 native side: IAST on real model isotherms (bounded stand-in) and replayers."""
from __future__ import annotations

import itertools
import random

import numpy

from pgv.replay import replayer


def _iso(model, params, i):
    import pygaps
    import pygaps.modelling as pgm
    pygaps.logger.disabled = True
    m = pgm.get_isotherm_model(model)
    m.params = dict(params)
    m.pressure_range = (0.0, 100.0)
    m.loading_range = (0.0, 100.0)
    return pygaps.ModelIsotherm(model=m, material='m', adsorbate=f'pgv_gas{i}', temperature=300, pressure_mode='absolute',
                                pressure_unit='bar', loading_basis='molar', loading_unit='mmol', material_basis='mass',
                                material_unit='g', temperature_unit='K')


def check_equations(isos, p, loadings, rtol=1e-5):
    """the returned loadings satisfy the IAST equations"""
    loadings = numpy.asarray(loadings, dtype=float)
    nt = loadings.sum()
    x = loadings / nt
    problems = []
    if not (numpy.all(x >= -1e-12) and numpy.all(x <= 1 + 1e-12)):
        problems.append(f"fractions outside [0,1]: {x}")
    p0 = numpy.asarray(p, dtype=float) / x
    pis = [float(iso.spreading_pressure_at(p0[i])) for i, iso in enumerate(isos)]
    if not numpy.allclose(pis, pis[0], rtol=rtol, atol=0):  # (scale-free: spreading pressures of 1e-8 are as good as any)
        problems.append(f"spreading pressures differ: {pis}")
    inv = sum(x[i] / float(isos[i].loading_at(p0[i])) for i in range(len(isos)))
    if not numpy.isclose(1 / inv, nt, rtol=rtol):
        problems.append(f"ideal mixing violated: 1/sum = {1 / inv}, total = {nt}")
    return problems


def real_mixtures(seed, thorough=False):
    import pygaps.iast as pgi
    rnd = random.Random(seed)
    reps = 12 if thorough else 4
    for n in (2, 3, 4):
        for k in range(reps):
            Ks = [rnd.uniform(0.2, 5) for _ in range(n)]
            M = rnd.uniform(1, 5)
            p = [rnd.uniform(0.1, 2) for _ in range(n)]
            # Henry mixture
            isos = [_iso('Henry', {'K': Ks[i]}, i) for i in range(n)]
            name = f"henry|n={n}|case{k}"
            try:
                res = pgi.iast_point(isos, p, warningoff=True)
                ok = numpy.allclose(res, [Ks[i] * p[i] for i in range(n)], rtol=1e-6)
                yield {'name': name, 'ok': bool(ok), 'detail': '' if ok else f"{res} vs {[Ks[i] * p[i] for i in range(n)]}"}
            except Exception as exc:
                yield {'name': name, 'ok': type(exc).__name__ == 'CalculationError', 'detail': f"{type(exc).__name__}"}
            # equal-capacity Langmuir, permutation, forward/reverse
            isos = [_iso('Langmuir', {'K': Ks[i], 'n_m': M}, i) for i in range(n)]
            name = f"langmuir|n={n}|case{k}"
            try:
                res = numpy.asarray(pgi.iast_point(isos, p, warningoff=True))
                want = [M * Ks[i] * p[i] / (1 + sum(Ks[j] * p[j] for j in range(n))) for i in range(n)]
                probs = check_equations(isos, p, res)
                if not numpy.allclose(res, want, rtol=1e-5):
                    probs.append(f"extended Langmuir: {res} vs {want}")
                perm = list(range(n))
                rnd.shuffle(perm)
                res_p = numpy.asarray(pgi.iast_point([isos[j] for j in perm], [p[j] for j in perm], warningoff=True))
                if not numpy.allclose(res_p, res[perm], rtol=1e-5):
                    probs.append(f"permutation {perm}: {res_p} vs {res[perm]}")
                x = res / res.sum()
                Pt = sum(p)
                y, lo = pgi.reverse_iast(isos, list(x / x.sum()), Pt, warningoff=True) if abs(float(numpy.sum(x / x.sum())) - 1.0) == 0 else (None, None)
                if y is not None and not numpy.allclose(numpy.asarray(y) * Pt, p, rtol=1e-4):
                    probs.append(f"reverse(forward) != identity: {numpy.asarray(y) * Pt} vs {p}")
                yield {'name': name, 'ok': not probs, 'detail': '; '.join(probs)}
            except Exception as exc:
                yield {'name': name, 'ok': type(exc).__name__ == 'CalculationError', 'detail': f"{type(exc).__name__}: {exc}"[:200]}


def helper_cases():
    """fraction-based, selectivity and vapour-liquid helpers on real isotherms, with the fractions given as lists and as numpy
    arrays (used for more than one evaluation): exactly what the point calculation gives; the caller's arrays unchanged"""
    import pygaps.iast as pgi
    isos = [_iso('Langmuir', {'K': 3.0, 'n_m': 4.0}, 0), _iso('Langmuir', {'K': 0.6, 'n_m': 4.0}, 1)]
    y = numpy.array([0.3, 0.7])
    y0 = y.copy()
    probs = []
    for Pt in (2.0, 5.0):
        got = numpy.asarray(pgi.iast_point_fraction(isos, y, Pt, warningoff=True))
        want = numpy.asarray(pgi.iast_point(isos, [0.3 * Pt, 0.7 * Pt], warningoff=True))
        if not numpy.allclose(got, want, rtol=1e-8):
            probs.append(f"iast_point_fraction(array, P={Pt}) = {got}, point calculation {want}")
    if not numpy.array_equal(y, y0):
        probs.append(f"caller's fraction array changed: {y0} -> {y}")
    yield {'name': 'helper|iast_point_fraction|array_used_twice', 'ok': not probs, 'detail': '; '.join(probs)}
    for kind, fr in (('list', [0.3, 0.7]), ('array', numpy.array([0.3, 0.7]))):
        pressures = [0.5, 1.0, 2.0, 4.0]
        res = pgi.iast_binary_svp(isos, fr, pressures, warningoff=True)
        want = []
        for Pt in pressures:
            n = numpy.asarray(pgi.iast_point(isos, [0.3 * Pt, 0.7 * Pt], warningoff=True))
            want.append((n[0] / n[1]) / (0.3 / 0.7))
        ok = numpy.allclose(res['selectivity'], want, rtol=1e-8)
        yield {'name': f"helper|iast_binary_svp|fractions_as_{kind}", 'ok': bool(ok), 'detail': '' if ok else f"{res['selectivity']} vs {want}"}
    res = pgi.iast_binary_vle(isos, 2.0, npoints=5, warningoff=True)
    ys = numpy.asarray(res['y'])[1:-1]
    want = []
    for yy in ys:
        n = numpy.asarray(pgi.iast_point(isos, [yy * 2.0, (1 - yy) * 2.0], warningoff=True))
        want.append(n[0] / n.sum())
    ok = numpy.allclose(numpy.asarray(res['x'])[1:-1], want, rtol=1e-8)
    yield {'name': 'helper|iast_binary_vle', 'ok': bool(ok), 'detail': '' if ok else f"{numpy.asarray(res['x'])[1:-1]} vs {want}"}


def point_mixture_cases():
    """mixtures of *point* isotherms: the returned loadings satisfy the IAST equations of those isotherms (their own piecewise
    linear interpolant), also after the isotherms were used and then converted in place to another loading unit"""
    import pygaps
    import pygaps.iast as pgi
    pygaps.logger.disabled = True
    grid = numpy.concatenate([numpy.linspace(0.02, 1, 25), numpy.linspace(1.2, 12, 30)])
    Ks, M = [2.5, 0.8, 0.3], 5.0

    def mk():
        return [pygaps.PointIsotherm(pressure=list(grid), loading=list(M * K * grid / (1 + K * grid)), material='m', adsorbate=f'pgv_gas{i}', temperature=300,
                                     pressure_mode='absolute', pressure_unit='bar', loading_basis='molar', loading_unit='mmol', material_basis='mass',
                                     material_unit='g', temperature_unit='K') for i, K in enumerate(Ks)]
    p = [0.4, 0.9, 1.3]
    isos = mk()
    try:
        res = numpy.asarray(pgi.iast_point(isos, p, warningoff=True))
        probs = check_equations(isos, p, res, rtol=1e-4)
        yield {'name': 'point_isotherms|n=3|fresh', 'ok': not probs, 'detail': '; '.join(probs)[:300]}
        for iso in isos:
            iso.convert_loading(unit_to='mol')
        res2 = numpy.asarray(pgi.iast_point(isos, p, warningoff=True))
        probs = check_equations(isos, p, res2, rtol=1e-4)
        if not numpy.allclose(res2, res / 1000, rtol=1e-4):
            probs.append(f"not the mmol result in mol: {res2} vs {res / 1000}")
        yield {'name': 'point_isotherms|n=3|used_then_converted_to_mol', 'ok': not probs, 'detail': '; '.join(probs)[:300]}
    except Exception as exc:
        yield {'name': 'point_isotherms|n=3|fresh', 'ok': type(exc).__name__ == 'CalculationError', 'detail': f"{type(exc).__name__}: {exc}"[:200]}
    # a component whose loading passes through a maximum (an excess isotherm): the spreading pressures at the fictitious pressures
    # are computed here, from the measured points (closed-form integral of the piecewise-linear interpolant over ln p, Henry's
    # law below the first point), not asked of the library
    import math

    def closed(pts, q):
        (p0_, n0_) = pts[0]
        if q <= p0_:
            return n0_ / p0_ * q
        tot = n0_
        for (pa, na), (pb, nb) in zip(pts, pts[1:]):
            hi = min(pb, q)
            if hi <= pa:
                break
            s_ = (nb - na) / (pb - pa)
            tot += s_ * (hi - pa) + (na - s_ * pa) * math.log(hi / pa)
        return tot
    pe = [0.25, 0.5, 1.0, 2.0, 5.0, 10.0, 20.0, 40.0, 70.0, 100.0, 200.0]
    data = [(pe, [0.5, 0.9, 1.6, 2.6, 4.2, 5.1, 5.0, 4.7, 4.3, 4.0, 3.4]), (pe, [0.45, 0.8, 1.45, 2.4, 3.9, 4.8, 5.3, 5.6, 5.8, 5.9, 6.0])]
    exc = [pygaps.PointIsotherm(pressure=pp, loading=ll, material='m', adsorbate=f'pgv_gas{i}', temperature=300, pressure_mode='absolute', pressure_unit='bar',
                                loading_basis='molar', loading_unit='mmol', material_basis='mass', material_unit='g', temperature_unit='K') for i, (pp, ll) in enumerate(data)]
    for pq in ([8.0, 4.0], [12.0, 6.0], [1.0, 1.0]):
        name = f"point_isotherms|loading_through_a_maximum|p={pq}"
        try:
            res = numpy.asarray(pgi.iast_point(exc, pq, warningoff=True), dtype=float)
            x = res / res.sum()
            p0 = numpy.asarray(pq) / x
            pis = [closed(list(zip(*data[i])), float(p0[i])) for i in range(2)]
            ok = bool(numpy.isclose(pis[0], pis[1], rtol=1e-5))
            yield {'name': name, 'ok': ok, 'detail': '' if ok else f"spreading pressures of the measured points at p_i/x_i = {p0}: {pis}"}
        except Exception as exc_:
            yield {'name': name, 'ok': type(exc_).__name__ == 'CalculationError', 'detail': f"{type(exc_).__name__}: {exc_}"[:200]}
    # two branches: the desorption branch lies on another curve and is stored from high to low pressure
    up = numpy.concatenate([numpy.linspace(0.02, 1, 20), numpy.linspace(1.5, 12, 22)])

    def mk2(K, i):
        pp = list(up) + list(up[::-1][1:])
        ll = [M * K * x / (1 + K * x) for x in up] + [M * 1.6 * K * x / (1 + 1.6 * K * x) for x in up[::-1][1:]]
        return pygaps.PointIsotherm(pressure=pp, loading=ll, branch=[0] * len(up) + [1] * (len(up) - 1), material='m', adsorbate=f'pgv_gas{i}', temperature=300,
                                    pressure_mode='absolute', pressure_unit='bar', loading_basis='molar', loading_unit='mmol', material_basis='mass',
                                    material_unit='g', temperature_unit='K')
    both = [mk2(K, i) for i, K in enumerate(Ks[:2])]
    for br in ('ads', 'des'):
        try:
            res = numpy.asarray(pgi.iast_point(both, [0.6, 1.1], branch=br, warningoff=True))
            x = res / res.sum()
            p0 = numpy.array([0.6, 1.1]) / x
            pis = [float(iso.spreading_pressure_at(p0[i], branch=br)) for i, iso in enumerate(both)]
            # ... and computed here from the points of that branch (closed form), not asked of the library: the two requests share the
            # isotherm objects, so whatever the first one left behind must not enter the second
            mine = [closed(sorted(zip(up if br == 'ads' else up[:-1], [M * Ks[i] * (1.6 if br == 'des' else 1.0) * x_ / (1 + Ks[i] * (1.6 if br == 'des' else 1.0) * x_)
                                                                  for x_ in (up if br == 'ads' else up[:-1])])), float(p0[i])) for i in range(2)]
            inv = sum(x[i] / float(both[i].loading_at(p0[i], branch=br)) for i in range(2))
            want = [M * (Ks[i] * (1.6 if br == 'des' else 1.0)) * [0.6, 1.1][i] / (1 + sum(Ks[j] * (1.6 if br == 'des' else 1.0) * [0.6, 1.1][j] for j in range(2))) for i in range(2)]
            probs = []
            if not numpy.isclose(pis[0], pis[1], rtol=1e-4):
                probs.append(f"spreading pressures on the {br} branch differ: {pis}")
            if not numpy.isclose(mine[0], mine[1], rtol=1e-4):
                probs.append(f"spreading pressures of the measured {br} points at p_i/x_i = {p0} differ: {mine} (the library's own reading: {pis})")
            if not numpy.isclose(1 / inv, res.sum(), rtol=1e-4):
                probs.append(f"ideal mixing on the {br} branch violated: {1 / inv} vs {res.sum()}")
            if not numpy.allclose(res, want, rtol=2e-2):
                probs.append(f"far from the extended-Langmuir value of that branch: {res} vs {want}")
            yield {'name': f"point_isotherms|two_branches|branch={br}", 'ok': not probs, 'detail': '; '.join(probs)[:300]}
        except Exception as exc:
            yield {'name': f"point_isotherms|two_branches|branch={br}", 'ok': type(exc).__name__ == 'CalculationError', 'detail': f"{type(exc).__name__}: {exc}"[:200]}


def argument_form_cases():
    """the same physical state given with whole-number pressures as Python ints, as an integer numpy array and as floats: the
    answers are the same (the SX obligations read the arguments as reals; this stands in for the machine number formats)"""
    import pygaps.iast as pgi
    isos = [_iso('Langmuir', {'K': 0.3, 'n_m': 5.0}, 0), _iso('Langmuir', {'K': 1.1, 'n_m': 5.0}, 1)]
    ref = numpy.asarray(pgi.iast_point(isos, [2.0, 6.0], warningoff=True))
    forms = (('int_list', [2, 6]), ('int_array', numpy.array([2, 6])), ('int32_array', numpy.array([2, 6], dtype='int32')),
             ('float32_array', numpy.array([2, 6], dtype='float32')), ('tuple', (2, 6)))
    for label, arg in forms:
        try:
            got = numpy.asarray(pgi.iast_point(isos, arg, warningoff=True), dtype=float)
            probs = check_equations(isos, [2.0, 6.0], got, rtol=1e-4 if 'float32' in label else 1e-5)
            if not numpy.allclose(got, ref, rtol=1e-5):
                probs.append(f"{got} vs {ref} for floats")
            yield {'name': f"argument_form|iast_point|{label}", 'ok': not probs, 'detail': '; '.join(probs)}
        except Exception as exc:
            yield {'name': f"argument_form|iast_point|{label}", 'ok': False, 'detail': f"{type(exc).__name__}: {exc}"[:200]}
    for label, Pt in (('int', 8), ('numpy_int', numpy.int64(8))):
        try:
            got = numpy.asarray(pgi.iast_point_fraction(isos, [0.25, 0.75], Pt, warningoff=True), dtype=float)
            ok = numpy.allclose(got, ref, rtol=1e-5)
            yield {'name': f"argument_form|iast_point_fraction|total_pressure_{label}", 'ok': bool(ok), 'detail': '' if ok else f"{got} vs {ref}"}
        except Exception as exc:
            yield {'name': f"argument_form|iast_point_fraction|total_pressure_{label}", 'ok': False, 'detail': f"{type(exc).__name__}: {exc}"[:200]}
    try:
        yf, lf = pgi.reverse_iast(isos, [0.25, 0.75], 8.0, warningoff=True)
        yi, li = pgi.reverse_iast(isos, [0.25, 0.75], 8, warningoff=True)
        ok = numpy.allclose(yf, yi, rtol=1e-6) and numpy.allclose(lf, li, rtol=1e-6)
        yield {'name': 'argument_form|reverse_iast|total_pressure_int', 'ok': bool(ok), 'detail': '' if ok else f"{yi},{li} vs {yf},{lf}"}
    except Exception as exc:
        yield {'name': 'argument_form|reverse_iast|total_pressure_int', 'ok': type(exc).__name__ == 'CalculationError', 'detail': f"{type(exc).__name__}: {exc}"[:200]}
    try:
        rf = pgi.iast_binary_svp(isos, [0.25, 0.75], [1.0, 2.0, 8.0], warningoff=True)
        ri = pgi.iast_binary_svp(isos, [0.25, 0.75], [1, 2, 8], warningoff=True)
        ok = numpy.allclose(rf['selectivity'], ri['selectivity'], rtol=1e-8)
        yield {'name': 'argument_form|iast_binary_svp|int_pressures', 'ok': bool(ok), 'detail': '' if ok else f"{ri['selectivity']} vs {rf['selectivity']}"}
    except Exception as exc:
        yield {'name': 'argument_form|iast_binary_svp|int_pressures', 'ok': False, 'detail': f"{type(exc).__name__}: {exc}"[:200]}
    try:
        rf = pgi.iast_binary_vle(isos, 2.0, npoints=5, warningoff=True)
        ri = pgi.iast_binary_vle(isos, 2, npoints=5, warningoff=True)
        ok = numpy.allclose(rf['x'], ri['x'], rtol=1e-8)
        yield {'name': 'argument_form|iast_binary_vle|int_pressure', 'ok': bool(ok), 'detail': '' if ok else f"{ri['x']} vs {rf['x']}"}
    except Exception as exc:
        yield {'name': 'argument_form|iast_binary_vle|int_pressure', 'ok': False, 'detail': f"{type(exc).__name__}: {exc}"[:200]}


def trace_component_cases(seed=3, n=120):
    """mixtures in which one component is adsorbed in traces only (affinities and pressures spread over four decades, the trace
    component listed first or last): the solver's own success flag is not a proof of a root -- whatever is returned has to
    equalise the spreading pressures, anything else has to be refused"""
    import pygaps.iast as pgi
    rnd = random.Random(seed)
    fixed = [([('Langmuir', {'K': 100.0, 'n_m': 4.0}), ('Langmuir', {'K': 0.5, 'n_m': 0.3})], [0.4, 0.01]),
             ([('Langmuir', {'K': 10.0, 'n_m': 5.0}), ('Langmuir', {'K': 0.01, 'n_m': 5.0})], [100.0, 0.001]),
             ([('Langmuir', {'K': 100.0, 'n_m': 3.0}), ('Langmuir', {'K': 1.0, 'n_m': 1.0})], [1.0, 0.01])]
    cases = list(fixed)
    for _ in range(n):
        k = rnd.choice([2, 3])
        cases.append(([('Langmuir', {'K': 10 ** rnd.uniform(-2, 2), 'n_m': rnd.uniform(0.3, 5)}) for _ in range(k)], [10 ** rnd.uniform(-2, 1) for _ in range(k)]))
    bad, returned, refused = [], 0, 0
    for j, (specs, p) in enumerate(cases):
        for order in (list(range(len(p))), list(range(len(p)))[::-1]):
            isos = [_iso(specs[i][0], specs[i][1], i) for i in order]
            pp = [p[i] for i in order]
            try:
                got = numpy.asarray(pgi.iast_point(isos, pp, warningoff=True), dtype=float)
            except Exception:
                refused += 1
                continue
            returned += 1
            probs = check_equations(isos, pp, got, rtol=1e-4)
            if probs:
                bad.append(f"case {j} order {order}: params {[s_[1] for s_ in specs]} p={p}: {probs[0]}")
    yield {'name': 'trace_components|returned_results_equalise_the_spreading_pressures', 'ok': not bad,
           'detail': f"{len(bad)} of {returned} returned results are not solutions ({refused} refused); first: {bad[0][:220]}" if bad else f"{returned} returned, {refused} refused"}


@replayer('c13.trace')
def _trace(spec, model):
    r = list(trace_component_cases())[0]
    return {'confirmed': not r['ok'], 'observed': r['detail'], 'expected': 'every returned result satisfies the IAST equations'}


def guess_cases():
    """user starting guesses, including degenerate ones (a zero fraction, fractions not summing to one): whenever the calculation
    returns, what it returns satisfies the IAST equations -- a result that is not a number is not an answer"""
    import pygaps.iast as pgi
    from pygaps.utilities.exceptions import pgError
    isos = [_iso('Langmuir', {'K': 1.0, 'n_m': 5.0}, 0), _iso('Langmuir', {'K': 3.0, 'n_m': 5.0}, 1)]
    for g in ([0.5, 0.5], [0.9, 0.1], [1.0, 0.0], [0.0, 1.0], [0.3, 0.3], [1e-12, 1.0 - 1e-12]):
        name = f"user_guess|iast_point|{g}"
        try:
            got = numpy.asarray(pgi.iast_point(isos, [1.0, 1.0], adsorbed_mole_fraction_guess=g, warningoff=True), dtype=float)
            probs = [f"returned {got}"] if not numpy.all(numpy.isfinite(got)) else check_equations(isos, [1.0, 1.0], got)
            yield {'name': name, 'ok': not probs, 'detail': '; '.join(probs)}
        except Exception as exc:  # (the property speaks about calculations that return)
            yield {'name': name, 'ok': True, 'detail': f"refused: {type(exc).__name__}"}
    # the same at partial pressures of 1e-9 .. 1e-10 (spreading pressures of the order of 1e-8: far below any absolute tolerance)
    low = [_iso('Langmuir', {'K': 2.0, 'n_m': 4.0}, 0), _iso('Langmuir', {'K': 0.5, 'n_m': 4.0}, 1), _iso('Langmuir', {'K': 8.0, 'n_m': 4.0}, 2)]
    for isos_, pp, g in ((low[:2], [1e-9, 1e-9], None), (low[:2], [1e-9, 1e-9], [0.5, 0.5]), (low[:2], [1e-9, 1e-9], [0.95, 0.05]), (low, [1e-10, 1e-10, 1e-10], [0.2, 0.3, 0.5])):
        name = f"user_guess|iast_point|p={pp[0]:g}|{g}"
        try:
            kw_ = {} if g is None else {'adsorbed_mole_fraction_guess': g}
            got = numpy.asarray(pgi.iast_point(isos_, pp, warningoff=True, **kw_), dtype=float)
            probs = [f"returned {got}"] if not numpy.all(numpy.isfinite(got)) else check_equations(isos_, pp, got, rtol=1e-4)
            yield {'name': name, 'ok': not probs, 'detail': '; '.join(probs)}
        except Exception as exc:
            yield {'name': name, 'ok': True, 'detail': f"refused: {type(exc).__name__}"}
    try:
        y, lo = pgi.reverse_iast(low[:2], [0.5, 0.5], 1e-9, warningoff=True)
        y, lo = numpy.asarray(y, dtype=float), numpy.asarray(lo, dtype=float)
        probs = check_equations(low[:2], list(y * 1e-9), lo, rtol=1e-4)
        yield {'name': 'user_guess|reverse_iast|P=1e-09', 'ok': not probs, 'detail': '; '.join(probs)}
    except Exception as exc:
        yield {'name': 'user_guess|reverse_iast|P=1e-09', 'ok': True, 'detail': f"refused: {type(exc).__name__}"}
    for g in ([0.5, 0.5], [1.0, 0.0], [0.0, 1.0]):
        name = f"user_guess|reverse_iast|{g}"
        try:
            y, lo = pgi.reverse_iast(isos, [0.25, 0.75], 2.0, gas_mole_fraction_guess=g, warningoff=True)
            y, lo = numpy.asarray(y, dtype=float), numpy.asarray(lo, dtype=float)
            probs = [f"returned {y}, {lo}"] if not (numpy.all(numpy.isfinite(y)) and numpy.all(numpy.isfinite(lo))) else check_equations(isos, list(y * 2.0), lo)
            yield {'name': name, 'ok': not probs, 'detail': '; '.join(probs)}
        except Exception as exc:
            yield {'name': name, 'ok': True, 'detail': f"refused: {type(exc).__name__}"}


@replayer('c13.guess')
def _guess(spec, model):
    for r in guess_cases():
        if r['name'] == spec['name']:
            return {'confirmed': not r['ok'], 'observed': r['detail'], 'expected': 'a result satisfying the IAST equations, or a refusal'}
    return {'confirmed': False, 'error': 'case not found'}


@replayer('c13.form')
def _form(spec, model):
    for r in argument_form_cases():
        if r['name'] == spec['name']:
            return {'confirmed': not r['ok'], 'observed': r['detail'], 'expected': 'same answer as for float arguments; IAST equations hold'}
    return {'confirmed': False, 'error': 'case not found'}


@replayer('c13.point')
def _point(spec, model):
    bad = [r for r in point_mixture_cases() if not r['ok']]
    return {'confirmed': bool(bad), 'observed': [(b['name'], b['detail']) for b in bad], 'expected': 'IAST equations hold for the isotherms as they are now'}


@replayer('c13.fraction_array')
def _fraction_array(spec, model):
    bad = [r for r in helper_cases() if not r['ok']]
    return {'confirmed': bool(bad), 'observed': [(b['name'], b['detail']) for b in bad[:3]], 'expected': 'helpers == point calculation, arguments unchanged'}


@replayer('c13.helper')
def _helper(spec, model):
    for r in helper_cases():
        if r['name'] == spec['name']:
            return {'confirmed': not r['ok'], 'observed': r['detail']}
    return {'confirmed': False, 'error': 'case not found'}


@replayer('c13.real')
def _real(spec, model):
    for res in real_mixtures(spec.get('seed', 0), thorough=True):
        if res['name'] == spec['name']:
            return {'confirmed': not res['ok'], 'observed': res['detail']}
    return {'confirmed': False, 'error': 'case not found'}


@replayer('c13.iast')
def _iast(spec, model):
    """run the real forward / reverse calculation on Langmuir isotherms and test the IAST equations on the output"""
    import pygaps.iast as pgi
    n = spec['n']
    bad = []
    rnd = random.Random(7)
    for k in range(6):
        Ks = [rnd.uniform(0.2, 5) for _ in range(n)]
        Ms = [rnd.uniform(1, 5) for _ in range(n)]
        p = [rnd.uniform(0.1, 2) for _ in range(n)]
        isos = [_iso('Langmuir', {'K': Ks[i], 'n_m': Ms[i]}, i) for i in range(n)]
        try:
            if spec['which'] == 'forward':
                res = pgi.iast_point(isos, p, warningoff=True)
                probs = check_equations(isos, p, res)
            else:
                x = numpy.array([1.0 / n] * n)
                x[-1] = 1.0 - x[:-1].sum()
                if float(numpy.sum(x)) != 1.0:
                    continue
                y, lo = pgi.reverse_iast(isos, x, sum(p), warningoff=True)
                probs = check_equations(isos, numpy.asarray(y) * sum(p), lo)
                if not numpy.isclose(numpy.sum(y), 1.0):
                    probs.append(f"gas fractions sum to {numpy.sum(y)}")
                if not numpy.allclose(numpy.asarray(lo) / numpy.sum(lo), x, rtol=1e-6):
                    probs.append("returned loadings do not have the requested adsorbed fractions")
        except Exception as exc:
            probs = [] if type(exc).__name__ == 'CalculationError' else [f"{type(exc).__name__}: {exc}"]
        if probs:
            bad.append({'K': Ks, 'n_m': Ms, 'p': p, 'problems': probs})
    return {'confirmed': bool(bad), 'observed': bad[:2], 'expected': 'outputs satisfy the IAST equations'}
