"""Native replay for C14: the real *_raw functions on synthetic data generated from the governing equations."""
from __future__ import annotations

import numpy

from pgv.replay import close, replayer


@replayer('c14.method')
def _method(spec, model):
    import pygaps
    pygaps.logger.disabled = True
    from pygaps.utilities.exceptions import CalculationError
    g = lambda k, d: float(model[k]) if isinstance(model.get(k), (int, float)) else d
    m = spec['method']
    bad = []
    rng = numpy.random.default_rng(3)
    grids = [numpy.linspace(0.02, 0.6, k) for k in (5, 9, 30)] + [numpy.sort(rng.uniform(0.01, 0.7, 12))]
    if spec.get('n'):
        ps = [g(f'p{i}', None) for i in range(spec['n'])]
        if all(p is not None for p in ps) and sorted(ps) == ps and len(set(ps)) == len(ps) and 0 < ps[0] and ps[-1] < 1:
            grids.insert(0, numpy.array(ps))
    for p in grids:
        lims = [None, (None, None), (float(p[1]) * 0.999, float(p[-2]) * 1.001), (g('lo', 0.05), g('hi', 0.35))]
        for lim in lims:
            try:
                if m == 'bet':
                    import pygaps.characterisation.area_bet as AB
                    nm, C, sig = g('n_m', 0.01), max(g('C', 100.0), 1.5), g('sigma', 0.162)
                    n = nm * C * p / ((1 - p) * (1 - p + C * p))
                    r = AB.area_BET_raw(p, n, sig, lim)
                    want = {'C': C, 'n_m': nm, 'area': nm * sig * 6.02214076e23 * 1e-18}
                    got = {'C': r[1], 'n_m': r[2], 'area': r[0]}
                    lo_i, hi_i = r[6], r[7]
                elif m == 'langmuir':
                    import pygaps.characterisation.area_lang as AL
                    nm, K, sig = g('n_m', 0.01), g('K', 20.0), g('sigma', 0.162)
                    n = nm * K * p / (1 + K * p)
                    r = AL.area_langmuir_raw(p, n, sig, lim)
                    want = {'K': K, 'n_m': nm, 'area': nm * sig * 6.02214076e23 * 1e-18}
                    got = {'K': r[1], 'n_m': r[2], 'area': r[0]}
                    lo_i, hi_i = r[5], r[6]
                elif m in ('tplot', 'alphas'):
                    import pygaps.characterisation.t_plots as TP
                    import pygaps.characterisation.alphas_plots as AS
                    a, b, M, rho = g('slope_a', 2.0), g('icpt_b', 0.5), g('M', 28.0), g('rho', 0.8)
                    t = 0.354 * (-5 / numpy.log(p)) ** (1 / 3)
                    tl = (float(t[0]) * 0.99, float(t[-1]) * 1.01)
                    if m == 'tplot':
                        res, _ = TP.t_plot_raw(a * t + b, p, lambda x: t, rho, M, tl)
                        want = {'slope': a, 'intercept': b, 'area': a * M / rho, 'volume': b * M / rho / 1000}
                    else:
                        A_ref, apt = g('A_ref', 100.0), g('ref_at_reducing_p', 2.0)
                        ref = 3.0 * t
                        al = ref / apt
                        res, _ = AS.alpha_s_raw(a * al + b, ref, apt, A_ref, rho, M, (float(al[0]) * 0.99, float(al[-1]) * 1.01))
                        want = {'slope': a, 'intercept': b, 'area': A_ref / apt * a, 'volume': b * M / rho / 1000}
                    if not res:
                        continue
                    got = {'slope': res[0]['slope'], 'intercept': res[0]['intercept'], 'area': res[0]['area'], 'volume': res[0]['adsorbed_volume']}
                    lo_i = hi_i = None
                    lim = None
                elif m in ('da', 'da_transform'):
                    import pygaps.characterisation.dr_da_plots as DA
                    V0, E0, mm, M, rho, T = 0.3, 6000.0, 2, 28.0, 0.8, g('T', 77.0)
                    n = V0 * numpy.exp(-(8.31446261815324 * T * numpy.log(1 / p) / E0) ** mm) * rho / M
                    r = DA.da_plot_raw(p, n, T, M, rho, mm, lim)
                    want = {'volume': V0, 'energy_kJ': E0 / 1000}
                    got = {'volume': r[0], 'energy_kJ': r[1]}
                    lo_i, hi_i = r[5], r[6]
                else:
                    return {'confirmed': False, 'error': f'unknown method {m}'}
            except CalculationError:
                if lim is not None and lim != (None, None):
                    lo, hi = lim
                    inside = int(numpy.sum((p > lo) & (p < hi)))
                    if inside >= 3:
                        bad.append({'grid': len(p), 'limits': lim, 'problem': f'refused although {inside} points lie strictly inside the limits'})
                continue
            except Exception as exc:
                bad.append({'grid': len(p), 'limits': lim, 'problem': f"{type(exc).__name__}: {exc}"})
                continue
            for k in want:
                if not close(got[k], want[k], rel=1e-6):
                    bad.append({'grid': len(p), 'limits': lim, 'quantity': k, 'got': float(got[k]), 'want': want[k]})
            if lim not in (None, (None, None)) and lo_i is not None:
                lo, hi = lim
                for i, v in enumerate(p):
                    sel = lo_i <= i <= hi_i
                    if sel and (v < lo or v > hi):
                        bad.append({'grid': len(p), 'limits': lim, 'problem': f'point {i} ({v}) outside the limits was used'})
                    if not sel and (lo < v < hi):
                        bad.append({'grid': len(p), 'limits': lim, 'problem': f'point {i} ({v}) inside the limits was not used'})
    return {'confirmed': bool(bad), 'observed': bad[:4], 'expected': 'generating parameters recovered; fitted region = points inside the limits'}


def da_exponent_cases(seed, thorough=False):
    """exact Dubinin-Astakhov data over grids, exponents, energies: da_plot_raw(exp=None) with the real minimiser returns
    the generating exponent, volume and energy (bounded stand-in: the minimiser finds a local minimum only)"""
    import random
    import warnings
    import pygaps
    pygaps.logger.disabled = True
    from pygaps.characterisation.dr_da_plots import da_plot_raw
    from pygaps.utilities.exceptions import CalculationError
    R, T, M, rho, V0 = 8.314462618, 77.355, 28.0134, 0.8076, 0.35
    rnd = random.Random(seed)
    for grid in ('lin', 'geo', 'rand'):
        for n in ((5, 10, 30, 100) if thorough else (6, 40)):
            if grid == 'lin':
                p = numpy.linspace(0.001, 0.3, n)
            elif grid == 'geo':
                p = numpy.geomspace(1e-6, 0.1, n)
            else:
                p = numpy.sort(numpy.array([rnd.uniform(1e-5, 0.5) for _ in range(n)]))
            for m in ((1.0, 1.05, 1.2, 1.5, 2.0, 2.5, 2.9, 3.0) if thorough else (1.0, 1.3, 2.0, 2.8)):
                for E in ((3.0, 6.5, 12.0) if thorough else (4.0, 9.0)):
                    A = R * T * numpy.log(1 / p)
                    loading = V0 * numpy.exp(-(A / (E * 1000)) ** m) * rho / M
                    name = f"da_exponent_recovered|grid={grid}|n={n}|m={m}|E={E}"
                    try:
                        with warnings.catch_warnings():
                            warnings.simplefilter('ignore')
                            r = da_plot_raw(p, loading, T, M, rho, None)
                    except CalculationError:
                        yield {'name': name, 'ok': True, 'detail': 'minimiser reported failure (no claim)'}
                        continue
                    ok = abs(r[2] - m) < 5e-3 and abs(r[0] - V0) < 2e-3 * V0 and abs(r[1] - E) < 2e-3 * E
                    yield {'name': name, 'ok': bool(ok), 'detail': '' if ok else f"exponent {r[2]:.4f} volume {r[0]:.4f} energy {r[1]:.3f} (generated with {m}, {V0}, {E})"}


@replayer('c14.da_exponent')
def _da_exp(spec, model):
    bad = [r for r in da_exponent_cases(0, thorough=True) if not r['ok']]
    return {'confirmed': bool(bad), 'observed': [(b['name'], b['detail']) for b in bad[:3]], 'expected': 'generating exponent, volume and energy'}


@replayer('c14.da_case')
def _da_case(spec, model):
    for th in (False, True):
        for r in da_exponent_cases(spec.get('seed', 0), thorough=th):
            if r['name'] == spec['name']:
                return {'confirmed': not r['ok'], 'observed': r['detail']}
    return {'confirmed': False, 'error': 'case not found'}


def entry_adsorbate_cases():
    """the isotherm entry points use the adsorbate's properties as they are at the time of the call: entry point == raw function
    fed with the current cross-sectional area / molar mass / liquid density, after each of a sequence of property changes and for
    a second adsorbate analysed in between (areas scale with the cross section, volumes with M/rho)"""
    import pygaps
    import pygaps.characterisation as pgc
    from pygaps.characterisation import area_bet, area_lang, t_plots, dr_da_plots, alphas_plots
    from scipy import constants
    pygaps.logger.disabled = True
    made = []

    def gas(name, **props):
        a = pygaps.Adsorbate(name, store=True, **props)
        made.append(a)
        return a

    try:
        g1 = gas('pgv_c14_gas_a', cross_sectional_area=0.162, molar_mass=28.0, liquid_density=0.8, saturation_pressure=1.0)
        g2 = gas('pgv_c14_gas_b', cross_sectional_area=0.21, molar_mass=44.0, liquid_density=1.1, saturation_pressure=1.0)
        p = numpy.linspace(0.01, 0.35, 30)
        n_m, c = 5e-3, 120.0
        l_bet = n_m * c * p / ((1 - p) * (1 - p + c * p))
        l_lang = n_m * 40 * p / (1 + 40 * p)
        pw = numpy.linspace(0.05, 0.9, 30)
        l_t = 2e-3 + 4e-3 * (13.99 / (0.034 - numpy.log10(pw)))**0.5
        pd_ = numpy.geomspace(1e-5, 0.1, 30)
        l_dr = 8e-3 * numpy.exp(-(constants.gas_constant * 77.355 / 6000.0 * numpy.log(1 / pd_))**2)

        def mk(ads, pp, ll):
            return pygaps.PointIsotherm(pressure=pp, loading=ll, material='pgv_c14', adsorbate=ads, temperature=77.355, temperature_unit='K',
                                        pressure_mode='relative', pressure_unit=None, loading_basis='molar', loading_unit='mol',
                                        material_basis='mass', material_unit='g')

        entries = {
            'area_BET': (l_bet, p, lambda iso, a: pgc.area_BET(iso, p_limits=(0.04, 0.32))['area'],
                         lambda a: area_bet.area_BET_raw(p, l_bet, a.properties['cross_sectional_area'], p_limits=(0.04, 0.32))[0]),
            'area_langmuir': (l_lang, p, lambda iso, a: pgc.area_langmuir(iso, p_limits=(0.04, 0.32))['area'],
                              lambda a: area_lang.area_langmuir_raw(p, l_lang, a.properties['cross_sectional_area'], p_limits=(0.04, 0.32))[0]),
            't_plot': (l_t, pw, lambda iso, a: pgc.t_plot(iso, thickness_model='Harkins/Jura', t_limits=(0.3, 1.2))['results'][0]['area'],
                       lambda a: t_plots.t_plot_raw(l_t * 1000, pw, pgc.models_thickness.get_thickness_model('Harkins/Jura'), a.properties['liquid_density'],
                                                    a.properties['molar_mass'], t_limits=(0.3, 1.2))[0][0]['area']),
            'dr_plot': (l_dr, pd_, lambda iso, a: pgc.dr_plot(iso)['pore_volume'],
                        lambda a: dr_da_plots.da_plot_raw(pd_, l_dr, 77.355, a.properties['molar_mass'], a.properties['liquid_density'], exp=2)[0]),
        }
        history = ({'cross_sectional_area': 0.135}, {'molar_mass': 30.0}, {'liquid_density': 0.65}, {'cross_sectional_area': 0.3, 'liquid_density': 1.3})
        for name, (ll, pp, entry, raw) in entries.items():
            probs = []
            try:
                iso1, iso2 = mk('pgv_c14_gas_a', pp, ll), mk('pgv_c14_gas_b', pp, ll)
                for a in (g1, g2):
                    a.properties.update({'cross_sectional_area': 0.162 if a is g1 else 0.21, 'molar_mass': 28.0 if a is g1 else 44.0,
                                         'liquid_density': 0.8 if a is g1 else 1.1})
                steps = [('stock', {})] + [(f"after {h}", h) for h in history]
                for label, change in steps:
                    g1.properties.update(change)
                    for iso, a in ((iso1, g1), (iso2, g2)):
                        got, want = float(entry(iso, a)), float(raw(a))
                        if not numpy.isclose(got, want, rtol=1e-9):
                            probs.append(f"{a.name} {label}: entry point {got:.8g}, raw function with the current properties {want:.8g}")
            except Exception as exc:
                probs.append(f"{type(exc).__name__}: {exc}"[:200])
            yield {'name': f"entry_uses_current_adsorbate_properties|{name}", 'ok': not probs, 'detail': '; '.join(probs[:3])}
    finally:
        for a in made:
            try:
                pygaps.ADSORBATE_LIST.remove(a)
            except ValueError:
                pass


@replayer('c14.adsorbate')
def _adsorbate(spec, model):
    for r in entry_adsorbate_cases():
        if r['name'] == spec['name']:
            return {'confirmed': not r['ok'], 'observed': r['detail'], 'expected': 'entry point == raw function with the adsorbate properties at the time of the call'}
    return {'confirmed': False, 'error': 'case not found'}


def alpha_s_self_cases():
    """alpha-s of an exactly generated (BET) isotherm against itself returns the reference area, slope = reference loading at
    the reducing pressure and a perfect correlation, for all four combinations of sample and reference branch (both branches
    carry the same curve, stored in measurement order)"""
    import pygaps
    import pygaps.characterisation as pgc
    pygaps.logger.disabled = True
    up = numpy.linspace(0.02, 0.9, 45)
    n_m, c = 5.0, 100.0
    f = lambda x: n_m * c * x / ((1 - x) * (1 - x + c * x))
    pp = list(up) + list(up[::-1])
    iso = pygaps.PointIsotherm(pressure=pp, loading=[f(x) for x in pp], branch=[0] * 45 + [1] * 45, material='pgv_c14', adsorbate='nitrogen', temperature=77.355,
                               pressure_mode='relative', pressure_unit=None, loading_basis='molar', loading_unit='mmol', material_basis='mass', material_unit='g',
                               temperature_unit='K')
    ref_area = pgc.area_BET(iso)['area']
    for b, br in (('ads', 'ads'), ('des', 'ads'), ('ads', 'des'), ('des', 'des')):
        try:
            res = pgc.alpha_s(iso, iso, reference_area='BET', branch=b, branch_ref=br, t_limits=(0.3, 2.0))['results']
            ok = len(res) == 1 and numpy.isclose(res[0]['area'], ref_area, rtol=1e-6) and numpy.isclose(res[0]['slope'], f(0.4), rtol=1e-4) and res[0]['corr_coef'] > 0.999999
            detail = '' if ok else f"area {[float(r['area']) for r in res]} (reference {float(ref_area):.2f}), slope {[float(r['slope']) for r in res]} (reference loading at 0.4: {f(0.4):.3f})"
        except Exception as exc:
            ok, detail = False, f"{type(exc).__name__}: {exc}"[:160]
        yield {'name': f"alpha_s_against_itself|branch={b},branch_ref={br}", 'ok': bool(ok), 'detail': detail}
    # the reference area given as a number (float, int)
    for tag, area in (('float', 120.0), ('int', 120)):
        try:
            res = pgc.alpha_s(iso, iso, reference_area=area, t_limits=(0.3, 2.0))['results']
            ok = len(res) == 1 and numpy.isclose(res[0]['area'], 120.0, rtol=1e-6)
            detail = '' if ok else f"area {[float(r['area']) for r in res]}, reference area given: 120"
        except Exception as exc:
            ok, detail = False, f"{type(exc).__name__}: {exc}"[:160]
        yield {'name': f"alpha_s_against_itself|reference_area_given_as_{tag}", 'ok': bool(ok), 'detail': detail}
    # the same reference data kept in absolute pressure (bar, kPa): the result is the one of the relative-pressure reference
    for unit in ('bar', 'kPa'):
        try:
            ref = pygaps.PointIsotherm(pressure=list(up), loading=[f(x) for x in up], material='pgv_c14', adsorbate='nitrogen', temperature=77.355,
                                       pressure_mode='relative', pressure_unit=None, loading_basis='molar', loading_unit='mmol', material_basis='mass', material_unit='g',
                                       temperature_unit='K')
            ref.convert_pressure(mode_to='absolute', unit_to=unit)
            res = pgc.alpha_s(iso, ref, reference_area=120.0, t_limits=(0.3, 2.0))['results']
            ok = len(res) == 1 and numpy.isclose(res[0]['area'], 120.0, rtol=1e-6) and numpy.isclose(res[0]['slope'], f(0.4), rtol=1e-4)
            detail = '' if ok else f"area {[float(r['area']) for r in res]} (reference area 120), slope {[float(r['slope']) for r in res]} (reference loading at 0.4: {f(0.4):.3f})"
        except Exception as exc:
            ok, detail = False, f"{type(exc).__name__}: {exc}"[:160]
        yield {'name': f"alpha_s_against_itself|reference_stored_in_absolute_{unit}", 'ok': bool(ok), 'detail': detail}


def verbose_entry_cases():
    """asking an analysis to print its summary and draw its plots (verbose=True) does not change what it returns: every entry of the
    result dictionary equals the silent call's, and the generating quantities are recovered either way"""
    import os
    os.environ.setdefault('MPLBACKEND', 'Agg')
    import warnings
    import pygaps
    import pygaps.characterisation as pgc
    pygaps.logger.disabled = True
    try:
        import matplotlib
        matplotlib.use('Agg')
        import matplotlib.pyplot as plt
    except Exception:
        plt = None
    up = numpy.linspace(0.01, 0.6, 40)
    n_m, c = 5e-3, 100.0
    mk = lambda l: pygaps.PointIsotherm(pressure=list(up), loading=list(l), material='pgv_c14', adsorbate='nitrogen', temperature=77.355, pressure_mode='relative',
                                        pressure_unit=None, loading_basis='molar', loading_unit='mol', material_basis='mass', material_unit='g', temperature_unit='K')
    bet = mk(n_m * c * up / ((1 - up) * (1 - up + c * up)))
    lang = mk(n_m * 40 * up / (1 + 40 * up))
    calls = {
        'area_BET': (bet, lambda i, v: pgc.area_BET(i, p_limits=(0.04, 0.32), verbose=v), {'n_monolayer': n_m, 'c_const': c}),
        'area_langmuir': (lang, lambda i, v: pgc.area_langmuir(i, p_limits=(0.04, 0.5), verbose=v), {'n_monolayer': n_m, 'langmuir_const': 40.0}),
        't_plot': (bet, lambda i, v: pgc.t_plot(i, t_limits=(0.35, 0.6), verbose=v), {}),
        'alpha_s': (bet, lambda i, v: pgc.alpha_s(i, bet, reference_area='BET', t_limits=(0.3, 1.2), verbose=v), {}),
        'dr_plot': (bet, lambda i, v: pgc.dr_plot(i, p_limits=(0.01, 0.2), verbose=v), {}),
        'da_plot': (bet, lambda i, v: pgc.da_plot(i, exp=2.2, p_limits=(0.01, 0.2), verbose=v), {}),
    }

    def flat(x):
        if isinstance(x, dict):
            return [(k, flat(v)) for k, v in sorted(x.items())]
        if isinstance(x, (list, tuple)):
            return [flat(v) for v in x]
        try:
            return numpy.round(numpy.asarray(x, dtype=float), 12).tolist()
        except Exception:
            return str(x)

    def same(a, b):
        fa, fb = flat(a), flat(b)
        if fa == fb:
            return True
        try:
            import itertools
            la = list(_leaves(fa))
            lb = list(_leaves(fb))
            return len(la) == len(lb) and all((x == y) or (isinstance(x, float) and isinstance(y, float) and (abs(x - y) <= 1e-9 * max(abs(x), abs(y)) or (x != x and y != y))) for x, y in zip(la, lb))
        except Exception:
            return False

    def _leaves(x):
        if isinstance(x, (list, tuple)):
            for v in x:
                yield from _leaves(v)
        else:
            yield x
    for name, (iso, call, gen) in calls.items():
        probs = []
        with warnings.catch_warnings():
            warnings.simplefilter('ignore')
            try:
                quiet, loud = call(iso, False), call(iso, True)
                diff = [k for k in quiet if k not in loud or not same(quiet[k], loud[k])]
                if diff:
                    k = diff[0]
                    probs.append(f"verbose=True changes {diff}: {k} {str(flat(loud.get(k)))[:60]} vs {str(flat(quiet[k]))[:60]}")
                for k, v in gen.items():
                    if not numpy.isclose(loud[k], v, rtol=1e-6):
                        probs.append(f"verbose=True: {k} = {loud[k]}, generating value {v}")
            except Exception as exc:
                probs.append(f"{type(exc).__name__}: {exc}"[:160])
            finally:
                if plt is not None:
                    plt.close('all')
        yield {'name': f"verbose_result_equals_silent_result|{name}", 'ok': not probs, 'detail': '; '.join(probs[:2])}


@replayer('c14.verbose')
def _verbose(spec, model):
    for r in verbose_entry_cases():
        if r['name'] == spec['name']:
            return {'confirmed': not r['ok'], 'observed': r['detail'], 'expected': 'the same result dictionary as the silent call'}
    return {'confirmed': False, 'error': 'case not found'}


@replayer('c14.alpha_self')
def _alpha_self(spec, model):
    for r in alpha_s_self_cases():
        if r['name'] == spec['name']:
            return {'confirmed': not r['ok'], 'observed': r['detail'], 'expected': 'reference area, slope = reference loading at the reducing pressure'}
    return {'confirmed': False, 'error': 'case not found'}


@replayer('c14.branch')
def _branch(spec, model):
    """alpha-s with the requested branch / reference branch: the reported alpha curve is n_ref(p) / n_ref(reducing pressure), both
    read on the reference branch"""
    import pygaps
    import pygaps.characterisation as pgc
    pygaps.logger.disabled = True
    if spec.get('entry') != 'alpha_s':
        return {'confirmed': False, 'error': 'no native replay for this entry point'}
    up = numpy.linspace(0.02, 0.9, 16)
    pp = list(up) + list(up[::-1][1:])
    mk = lambda f: pygaps.PointIsotherm(pressure=pp, loading=[f * 6 * 40 * x / (1 + 40 * x) / (1 - 0.6 * x) * (1.0 if k < 16 else 1.15) for k, x in enumerate(pp)],
                                        branch=[0] * 16 + [1] * 15, material='pgv_c14', adsorbate='nitrogen', temperature=77.355, pressure_mode='relative',
                                        pressure_unit=None, loading_basis='molar', loading_unit='mmol', material_basis='mass', material_unit='g', temperature_unit='K')
    iso, ref = mk(1.0), mk(0.4)
    b, br = spec['branch'], spec['branch_ref']
    try:
        res = pgc.alpha_s(iso, ref, reference_area='BET', branch=b, branch_ref=br)
    except Exception as exc:
        return {'confirmed': False, 'observed': f"{type(exc).__name__}: {exc}"[:160]}
    ps = iso.pressure(branch=b)
    want = numpy.asarray(ref.loading_at(ps, branch=br, pressure_mode='relative', loading_basis='molar', loading_unit='mmol'), dtype=float) / \
        float(ref.loading_at(0.4, branch=br, pressure_mode='relative', loading_basis='molar', loading_unit='mmol'))
    got = numpy.asarray(res['alpha_curve'], dtype=float)
    ok = got.shape == want.shape and numpy.allclose(got, want, rtol=1e-9)
    return {'confirmed': not ok, 'observed': {'alpha_curve': [float(v) for v in got[:4]]}, 'expected': {'alpha_curve': [float(v) for v in want[:4]]}}


def standard_thickness_cases():
    """t-plot with the two thickness curves that are tabulated standard isotherms: an isotherm generated as slope * t(p) + intercept,
    t(p) computed here from the table (linear between its points, held at the last tabulated value above it, zero below it: what
    models_thickness.load_std_isotherm states), on a grid that runs to p/p0 = 0.995 as measured isotherms do, returns the
    generating slope, intercept, area and pore volume and its thickness curve is the tabulated one"""
    import pygaps
    from pygaps.characterisation.models_thickness import get_thickness_model
    from pygaps.characterisation.t_plots import t_plot_raw
    from pygaps.data import STANDARD_ISOTHERMS
    from pygaps.parsing.csv import isotherm_from_csv
    pygaps.logger.disabled = True
    slope, intercept, mm, rho = 3.0, 1.5, 28.0134, 0.8076
    for name, key in (("carbon black Kruk/Jaroniec/Gadkaree", "CB_KJG"), ("SiO2 Jaroniec/Kruk/Olivier", "SiO2_JKO")):
        tab = isotherm_from_csv(STANDARD_ISOTHERMS[key])
        p_tab = numpy.asarray(tab.pressure(), dtype=float)
        t_tab = numpy.asarray(tab.loading(), dtype=float) / tab.properties["monolayer uptake [mmol/g]"] * 0.354
        order = numpy.argsort(p_tab)
        p_tab, t_tab = p_tab[order], t_tab[order]
        for top in (0.9, 0.995):
            probs = []
            pressure = numpy.linspace(0.05, top, 40)
            t_ref = numpy.interp(pressure, p_tab, t_tab, left=0.0, right=t_tab[-1])
            loading = slope * t_ref + intercept
            inside = int(numpy.sum((t_ref > 0.45) & (t_ref < 10.0)))
            try:
                results, t_curve = t_plot_raw(loading, pressure, get_thickness_model(name), rho, mm, (0.45, 10.0))
                dev = float(numpy.max(numpy.abs(numpy.asarray(t_curve, dtype=float) - t_ref)))
                if dev > 1e-9:
                    probs.append(f"thickness curve up to {dev:.3g} nm off the tabulated one (last point {float(t_curve[-1]):.5g}, table {float(t_ref[-1]):.5g})")
                if len(results) != 1:
                    probs.append(f"{len(results)} results")
                else:
                    r = results[0]
                    want = {'slope': slope, 'intercept': intercept, 'area': slope * mm / rho, 'adsorbed_volume': intercept * mm / rho / 1000}
                    for k, w in want.items():
                        if not abs(float(r[k]) - w) <= 1e-6 * abs(w):
                            probs.append(f"{k} {float(r[k]):.8g}, generated with {w:.8g}")
                    if len(r['section']) != inside:
                        probs.append(f"{len(r['section'])} points fitted, {inside} inside the limits")
            except Exception as exc:
                probs.append(f"{type(exc).__name__}: {exc}"[:160])
            yield {'name': f"t_plot_standard_isotherm_thickness|{key}|grid_to_{top}", 'ok': not probs, 'detail': '; '.join(probs[:3])}


@replayer('c14.std_thickness')
def _std_thickness(spec, model):
    for r in standard_thickness_cases():
        if r['name'] == spec['name']:
            return {'confirmed': not r['ok'], 'observed': r['detail'], 'expected': 'the generating slope, intercept, area and pore volume; the tabulated thickness curve'}
    return {'confirmed': False, 'error': 'case not found'}
