"""Native replay for C16 (real numpy)."""
from __future__ import annotations

import numpy

from pgv.replay import close, replayer


@replayer('c16.recurrence')
def _rec(spec, model):
    import pygaps.characterisation.psd_meso as PM
    from pygaps.characterisation.models_thickness import thickness_zero, thickness_harkins_jura
    from pygaps.characterisation.models_kelvin import get_kelvin_model
    n = max(spec['n'], 3)
    rng = numpy.random.default_rng(2)
    bad = []
    for trial in range(4):
        p = numpy.sort(rng.uniform(0.15, 0.95, n))
        V = numpy.cumsum(rng.uniform(0.0, 0.2, n)) + 0.1
        kel = get_kelvin_model('Kelvin', meniscus_geometry='hemispherical', temperature=77.0, liquid_density=0.8, adsorbate_molar_mass=28.0, adsorbate_surface_tension=8.9)
        tm = thickness_zero if spec['thickness'] == 'zero' else thickness_harkins_jura
        res = getattr(PM, spec['method'])(V, p, spec['geometry'], tm, kel)
        full = 2 * (kel(p) + tm(p))
        w = numpy.asarray(res['pore_widths'], dtype=float)
        if not (numpy.allclose(w, full[:-1]) or numpy.allclose(w, full[1:])):
            bad.append({'problem': 'widths are not 2(r_K+t) at the measured pressures', 'widths': w.tolist(), 'expected': full.tolist()})
        if not numpy.all(numpy.diff(w) > 0):
            bad.append({'problem': 'widths not increasing'})
        if not numpy.allclose(numpy.asarray(res['pore_distribution']) * numpy.diff(full), res['pore_volumes']):
            bad.append({'problem': 'distribution * width increment != pore volumes'})
        if spec['thickness'] == 'zero' and not numpy.allclose(res['pore_volumes'], numpy.diff(V)):
            bad.append({'problem': 'zero thickness: pore volumes are not the volume increments', 'got': list(map(float, res['pore_volumes'])), 'want': numpy.diff(V).tolist()})
    return {'confirmed': bool(bad), 'observed': bad[:3]}


@replayer('c16.driver')
def _drv(spec, model):
    import os
    import pygaps.characterisation as pgc
    import pygaps.parsing as pgp
    import pygaps
    pygaps.logger.disabled = True
    iso = pgp.isotherm_from_json(os.path.join(os.environ.get('PGV_REPO', '/repo'), 'docs/examples/data/characterisation/MCM-41 N2 77.355.json'))
    bad = []
    for lim in ((0.2, 0.9), (None, 0.8), (0.3, None)):
        res = pgc.psd_mesoporous(iso, psd_model=spec['model'], pore_geometry='cylinder', branch='des', thickness_model='zero thickness', p_limits=lim)
        p = iso.pressure(branch='des', pressure_mode='relative')[::-1]
        V = iso.loading(branch='des', loading_basis='volume_liquid', loading_unit='cm3')[::-1]
        mn, mx = res['limits']
        if not close(res['pore_volume_cumulative'][-1], V[mx], rel=1e-9):
            bad.append({'limits': lim, 'problem': 'cumulative curve does not end at the volume at the highest pressure used',
                        'got': float(res['pore_volume_cumulative'][-1]), 'want': float(V[mx])})
        lo, hi = lim
        for i, v in enumerate(p):
            sel = mn <= i <= mx
            if sel and ((lo is not None and v < lo) or (hi is not None and v > hi)):
                bad.append({'limits': lim, 'problem': f'point {i} outside the limits used'})
            if not sel and (lo is None or v > lo) and (hi is None or v < hi):
                bad.append({'limits': lim, 'problem': f'point {i} inside the limits not used'})
    return {'confirmed': bool(bad), 'observed': bad[:3]}


@replayer('c16.kelvin')
def _kel(spec, model):
    from pygaps.characterisation.models_kelvin import kelvin_radius
    f = {'cylindrical': 2.0, 'hemispherical': 1.0, 'hemicylindrical': 0.5}[spec['geometry']]
    T, rho, M, g = 77.0, 0.8, 28.0, 8.9
    bad = []
    ps = [0.5, 0.05, 0.9, 0.999, 0.9999, 1e-4]
    if isinstance((model or {}).get('s'), (int, float)) and model['s'] > 0:
        ps.insert(0, 1 / (1 + float(model['s'])))  # the solver's / witness search's own point
    for p in ps:
        want = -2 * g * (M / rho) / (f * 8.31446261815324 * T * numpy.log(p))
        got = kelvin_radius(p, spec['geometry'], T, rho, M, g)
        if not close(got, want, rel=1e-9):
            bad.append({'p': p, 'radius': float(got), 'kelvin_equation': float(want)})
    return {'confirmed': bool(bad), 'observed': bad[:3], 'expected': 'Kelvin equation at every relative pressure in (0, 1)'}


@replayer('c16.history')
def _hist(spec, model):
    """two calculations in one process: the second one's widths equal those of the same calculation run first (fresh subprocess)"""
    import os
    import subprocess
    import sys
    import json
    root = os.path.dirname(os.path.dirname(os.path.dirname(os.path.abspath(__file__))))
    code = r'''
import os, sys, json
import pygaps, pygaps.parsing as pgp, pygaps.characterisation as pgc
pygaps.logger.disabled = True
iso = pgp.isotherm_from_json(os.path.join(os.environ.get('PGV_REPO', '/repo'), 'docs/examples/data/characterisation/MCM-41 N2 77.355.json'))
out = []
for branch, geom, *men in json.loads(sys.argv[1]):
    r = pgc.psd_mesoporous(iso, psd_model=sys.argv[2], pore_geometry=geom, branch=branch, thickness_model='zero thickness',
                           **({'meniscus_geometry': men[0]} if men else {}))
    out.append([float(x) for x in r['pore_widths'][:5]])
print(json.dumps(out))
'''
    env = dict(os.environ, PYTHONPATH=f"{os.environ.get('PGV_REPO', '/repo')}/src:{root}")
    run = lambda seq: json.loads(subprocess.run([sys.executable, '-c', code, json.dumps(seq), spec['model']], capture_output=True, text=True, env=env,
                                                timeout=300).stdout.strip().splitlines()[-1])
    both = run([spec['first'], spec['second']])
    alone = run([spec['second']])
    same = numpy.allclose(both[1], alone[0], rtol=1e-12)
    if same and len(spec['second']) > 2:
        # an explicitly named meniscus: with a zero-thickness layer the widths scale with the Kelvin radius, 1/f of the geometry
        f = {'cylindrical': 2.0, 'hemispherical': 1.0, 'hemicylindrical': 0.5}
        other = [g for g in f if g != spec['second'][2]][0]
        ref = run([list(spec['second'][:2]) + [other]])
        ratio = f[other] / f[spec['second'][2]]
        ok = numpy.allclose(numpy.asarray(alone[0]), numpy.asarray(ref[0]) * ratio, rtol=1e-9)
        return {'confirmed': not ok, 'observed': {f"widths with meniscus {spec['second'][2]}": alone[0], f"widths with meniscus {other}": ref[0]},
                'expected': f"ratio {ratio} (Kelvin radius ~ 1/f, f = 2, 1, 1/2 for cylindrical, hemispherical, hemicylindrical)"}
    return {'confirmed': not same, 'observed': {'second_after_first': both[1], 'second_alone': alone[0]}, 'expected': 'identical pore widths'}


def model_isotherm_cases():
    """the mesopore methods on a *model* isotherm describing the desorption (or adsorption) branch: the generated points are in
    increasing pressure order whatever the branch is called, so widths increase with pressure and, with a zero-thickness layer, the
    pore volumes are the successive changes in adsorbed liquid volume (non-negative, summing to the total change)"""
    import warnings
    import pygaps
    import pygaps.characterisation as pgc
    import pygaps.modelling as pgm
    pygaps.logger.disabled = True
    meta = dict(material='pgv_c16', adsorbate='nitrogen', temperature=77.355, pressure_mode='relative', pressure_unit=None, loading_basis='molar',
                loading_unit='mmol', material_basis='mass', material_unit='g', temperature_unit='K')
    for br in ('ads', 'des'):
        m = pgm.get_isotherm_model('Langmuir', parameters={'K': 6.0, 'n_m': 20.0}, pressure_range=(0.05, 0.95), loading_range=(4.6, 17.0), rmse=0.0)
        iso = pygaps.ModelIsotherm(model=m, branch=br, **meta)
        for method in ('pygaps-DH', 'BJH', 'DH'):
            name = f"model_isotherm|branch={br}|{method}"
            try:
                with warnings.catch_warnings():
                    warnings.simplefilter('ignore')
                    r = pgc.psd_mesoporous(iso, psd_model=method, branch=br, thickness_model='zero thickness', p_limits=(0.1, 0.9))
                w = numpy.asarray(r['pore_widths'], dtype=float)
                cum = numpy.asarray(r['pore_volume_cumulative'], dtype=float)
                probs = []
                if len(w) < 5 or not numpy.all(numpy.diff(w) > 0):
                    probs.append(f"widths not increasing: {w[:4]} ... {w[-2:]}")
                if numpy.any(numpy.diff(cum) < -1e-12):
                    probs.append(f"cumulative volume decreases: {cum[:4]}")
            except Exception as exc:
                probs = [f"{type(exc).__name__}: {exc}"[:160]]
            yield {'name': name, 'ok': not probs, 'detail': '; '.join(probs)}


@replayer('c16.model_isotherm')
def _model_iso(spec, model):
    for r in model_isotherm_cases():
        if r['name'] == spec['name']:
            return {'confirmed': not r['ok'], 'observed': r['detail'], 'expected': 'widths increasing with pressure, cumulative volume non-decreasing'}
    return {'confirmed': False, 'error': 'case not found'}


def real_isotherm_cases():
    """measured isotherms with the built-in thickness models (where thinning corrections can make the summed pore volumes exceed the
    volume adsorbed, so that the cumulative curve dips below zero at its low end): the cumulative curve still ends at the liquid
    volume adsorbed at the highest pressure used, and its increments are the reported pore volumes"""
    import os
    import warnings
    import pygaps
    import pygaps.characterisation as pgc
    import pygaps.parsing as pgp
    pygaps.logger.disabled = True
    data = os.path.join(os.environ.get('PGV_REPO', '/repo'), 'docs/examples/data/characterisation')
    for fname in ('MCM-41 N2 77.355.json', 'UiO-66(Zr) N2 77.355.json'):
        iso = pgp.isotherm_from_json(os.path.join(data, fname))
        for br in ('ads', 'des'):
            for method in ('pygaps-DH', 'BJH', 'DH'):
                name = f"real_isotherm|{fname.split(' ')[0]}|{br}|{method}"
                try:
                    with warnings.catch_warnings():
                        warnings.simplefilter('ignore')
                        r = pgc.psd_mesoporous(iso, psd_model=method, branch=br, p_limits=(0.1, 0.95))
                    cum = numpy.asarray(r['pore_volume_cumulative'], dtype=float)
                    lo, hi = r['limits']
                    vols = numpy.asarray(iso.loading(branch=br, loading_basis='volume_liquid', loading_unit='cm3'), dtype=float)
                    if br == 'des':
                        vols = vols[::-1]
                    top = float(vols[hi])
                    probs = []
                    if not numpy.isclose(cum[-1], top, rtol=1e-9):
                        probs.append(f"cumulative curve ends at {cum[-1]:.6g}, volume adsorbed at the highest pressure used {top:.6g} (lowest value of the curve {cum.min():.4g})")
                except Exception as exc:
                    probs = [f"{type(exc).__name__}: {exc}"[:160]]
                yield {'name': name, 'ok': not probs, 'detail': '; '.join(probs)}


@replayer('c16.real')
def _real(spec, model):
    for r in real_isotherm_cases():
        if r['name'] == spec['name']:
            return {'confirmed': not r['ok'], 'observed': r['detail'], 'expected': 'the cumulative curve ends at the volume adsorbed at the highest pressure used'}
    return {'confirmed': False, 'error': 'case not found'}


def steep_step_cases():
    """a near-vertical condensation step resolved by two points a few 1e-6 apart in p/p0 (a strictly increasing grid): the volume
    adsorbed across it is in the distribution -- distribution x width increment equals the pore volume of every bin, and with a
    zero-thickness layer the single step is the single peak, at the Kelvin width of the step"""
    import warnings
    import pygaps
    import pygaps.characterisation as pgc
    pygaps.logger.disabled = True
    p = numpy.array([0.2, 0.3, 0.39, 0.4, 0.400002, 0.41, 0.5, 0.6, 0.7])
    v = numpy.array([0.1, 0.1, 0.1, 0.1, 0.45, 0.45, 0.45, 0.45, 0.45])
    iso = pygaps.PointIsotherm(pressure=list(p), loading=list(v), material='pgv_c16', adsorbate='nitrogen', temperature=77.355, pressure_mode='relative',
                               pressure_unit=None, loading_basis='volume_liquid', loading_unit='cm3', material_basis='mass', material_unit='g', temperature_unit='K')
    for method in ('pygaps-DH', 'BJH', 'DH'):
        for tm in ('zero thickness', 'Harkins/Jura'):
            name = f"steep_step|{method}|{tm}"
            try:
                with warnings.catch_warnings():
                    warnings.simplefilter('ignore')
                    r = pgc.psd_mesoporous(iso, psd_model=method, branch='ads', thickness_model=tm, p_limits=(0.1, 0.9))
                w = numpy.asarray(r['pore_widths'], dtype=float)
                d = numpy.asarray(r['pore_distribution'], dtype=float)
                cum = numpy.asarray(r['pore_volume_cumulative'], dtype=float)
                vols = numpy.asarray(r['pore_volumes'], dtype=float)
                probs = []
                # reported widths belong to the lower pressure of each bin: bin k spans widths w[k] .. w[k+1]
                dw = numpy.diff(w)
                recon = d[:-1] * dw
                if not numpy.allclose(recon, vols[:-1], rtol=1e-6, atol=1e-12):
                    k = int(numpy.argmax(numpy.abs(recon - vols[:-1])))
                    probs.append(f"bin {k}: distribution x width increment = {recon[k]:.6g}, pore volume = {vols[k]:.6g} (width increment {dw[k]:.3g} nm)")
                if tm == 'zero thickness':
                    big = numpy.flatnonzero(numpy.abs(d) > 0)
                    if len(big) != 1 or not numpy.isclose(vols[big[0]], 0.35, rtol=1e-6):
                        probs.append(f"non-zero distribution entries at {list(big)}, expected exactly one, carrying the step of 0.35")
            except Exception as exc:
                probs = [f"{type(exc).__name__}: {exc}"[:160]]
            yield {'name': name, 'ok': not probs, 'detail': '; '.join(probs[:2])}


@replayer('c16.steep')
def _steep(spec, model):
    for r in steep_step_cases():
        if r['name'] == spec['name']:
            return {'confirmed': not r['ok'], 'observed': r['detail'], 'expected': 'distribution x width increment == pore volume in every bin'}
    return {'confirmed': False, 'error': 'case not found'}


def own_properties_cases():
    """two isotherms analysed one after the other in one process, measured with user-defined fluids (no thermodynamic backend) that
    carry the same name and temperature but different molar mass / liquid density / surface tension: with a zero-thickness layer every
    reported width of the second calculation is the first one's times (gamma*M/rho)_2 / (gamma*M/rho)_1 -- the Kelvin equation with
    the properties of the isotherm in hand, whatever was calculated before"""
    import warnings
    import pygaps
    import pygaps.characterisation as pgc
    pygaps.logger.disabled = True
    p = numpy.round(numpy.arange(0.05, 0.96, 0.05), 2)
    v = numpy.where(p <= 0.6, 0.05, 0.35)

    def mk(name, M, rho, gamma):
        ads = pygaps.Adsorbate(name, molar_mass=M, liquid_density=rho, surface_tension=gamma)
        iso = pygaps.PointIsotherm(pressure=list(p), loading=list(v), material='pgv_c16', adsorbate='nitrogen', temperature=87.0, pressure_mode='relative',
                                   pressure_unit=None, loading_basis='volume_liquid', loading_unit='cm3', material_basis='mass', material_unit='g',
                                   temperature_unit='K')
        iso.adsorbate = ads
        return iso
    sets = ((40.0, 1.40, 12.0), (40.0, 1.50, 8.0), (44.0, 1.40, 12.0))
    for method, geom in (('pygaps-DH', 'slit'), ('pygaps-DH', 'cylinder'), ('pygaps-DH', 'sphere'), ('BJH', 'cylinder'), ('DH', 'cylinder')):
        for br in ('ads',):
            name = f"own_properties|{method}|{geom}|{br}"
            probs = []
            try:
                ws = []
                for M, rho, gamma in sets:
                    with warnings.catch_warnings():
                        warnings.simplefilter('ignore')
                        r = pgc.psd_mesoporous(mk('pgv-c16-fluid', M, rho, gamma), psd_model=method, pore_geometry=geom, branch=br,
                                               thickness_model='zero thickness', kelvin_model='Kelvin')
                    ws.append(numpy.asarray(r['pore_widths'], dtype=float))
                k0 = sets[0][2] * sets[0][0] / sets[0][1]
                for (M, rho, gamma), w in zip(sets[1:], ws[1:]):
                    want = ws[0] * (gamma * M / rho) / k0
                    if w.shape != want.shape or not numpy.allclose(w, want, rtol=1e-9):
                        probs.append(f"fluid (M={M}, rho={rho}, gamma={gamma}) analysed after another fluid of the same name: widths {w[:3]}, "
                                     f"Kelvin equation with its own properties gives {want[:3]}")
            except Exception as exc:
                probs = [f"{type(exc).__name__}: {exc}"[:160]]
            yield {'name': name, 'ok': not probs, 'detail': '; '.join(probs[:1])}


@replayer('c16.own_properties')
def _own(spec, model):
    for r in own_properties_cases():
        if r['name'] == spec['name']:
            return {'confirmed': not r['ok'], 'observed': r['detail'], 'expected': 'widths scale with gamma*M/rho of the isotherm in hand'}
    return {'confirmed': False, 'error': 'case not found'}
