"""C09 native side: replay of one fault plan; real os._exit deaths in subprocesses (thorough tier)."""
from __future__ import annotations

import json
import os
import shutil
import subprocess
import sys
import tempfile

from pgv.replay import replayer

ROOT = os.path.dirname(os.path.dirname(os.path.dirname(os.path.abspath(__file__))))


@replayer('c09.fault')
def _fault(spec, model):
    from pgv.checks import c09
    obs = [o for o in c09.run_scenario(spec['scenario']) if '__sample__' not in o]
    tag = f"fault@{spec['at']}:{spec['fault']}"
    mine = [o for o in obs if tag in o['name'] and o['verdict'] != 'proved']
    return {'confirmed': bool(mine), 'observed': [{'obligation': o['name'], 'detail': o['detail']} for o in mine[:4]],
            'expected': 'database content equals the pre-state or the complete effect'}


_CHILD = r'''
import os, sys, json
sys.path.insert(0, {root!r})
import pygaps
pygaps.logger.disabled = True
import pygaps.parsing.sqlite as S
from pgv import sqlfault as SF
from pgv.checks import c09
idx, at, kind, db = {idx}, {at!r}, {kind!r}, {db!r}
name, setup, op = c09.scenarios()[idx]
o = c09._mk_objects()
class ExitCur(SF._Cur):
    pass
rec = SF.Recorder(os.path.dirname(db))
plan = SF.Plan(at, kind)
def really_die(path):
    os._exit(9)
rec.snapshot_crash = really_die
S.sqlite3 = SF.Sqlite3Proxy(rec, plan)
op(S, db, o)
os._exit(0)
'''


def real_exit_cases():
    """process death by os._exit at a few positions of every operation; the file is inspected afterwards"""
    from pgv import sqlfault as SF
    from pgv.checks import c09
    import pygaps
    import pygaps.parsing.sqlite as S
    pygaps.logger.disabled = True
    tmp = tempfile.mkdtemp(prefix='pgv-c09x-')
    try:
        tpl = c09.make_template(tmp)
        for idx, (name, setup, op) in enumerate(c09.scenarios()):
            reg = c09._registries()
            o = c09._mk_objects()
            pre_db = os.path.join(tmp, f'pre{idx}.db')
            shutil.copyfile(tpl, pre_db)
            setup(S, pre_db, o)
            pre = SF.dump(pre_db)
            full = os.path.join(tmp, f'full{idx}.db')
            shutil.copyfile(pre_db, full)
            c09._restore(reg)
            o2 = c09._mk_objects()
            op(S, full, o2)
            post = SF.dump(full)
            c09._restore(reg)
            for at, kind in ((0, 'die_before'), (1, 'die_after'), ('commit', 'die_before'), ('commit', 'die_after')):
                db = os.path.join(tmp, f'run{idx}.db')
                for suf in ('', '-journal', '-wal', '-shm'):
                    if os.path.exists(db + suf):
                        os.remove(db + suf)
                shutil.copyfile(pre_db, db)
                code = _CHILD.format(root=ROOT, idx=idx, at=at, kind=kind, db=db)
                p = subprocess.run([sys.executable, '-c', code], capture_output=True, text=True, timeout=120,
                                   env=dict(os.environ, PYTHONPATH=f"{os.environ.get('PGV_REPO', '/repo')}/src:{ROOT}"))
                state = SF.dump(db)
                if p.returncode == 0:
                    # the operation has fewer statements than the injection position: nobody died, the call completed
                    ok, why = state == post, 'call completed without reaching the injection point but its effect is not in the file'
                else:
                    ok = p.returncode == 9 and (state == pre or (state == post and (at, kind) == ('commit', 'die_after')))
                    why = 'neither pre-state nor complete effect'
                yield {'name': f"{name}|exit@{at}:{kind}", 'ok': ok, 'detail': '' if ok else f"rc={p.returncode}; {why}; {p.stderr[-200:]}"}
    finally:
        shutil.rmtree(tmp, ignore_errors=True)


_BIG_CHILD = r"""
import os, sys
sys.path.insert(0, {root!r})
import numpy, pygaps
pygaps.logger.disabled = True
import pygaps.parsing.sqlite as S
from pgv import sqlfault as SF
db = {db!r}
n = 150000
p = numpy.linspace(1e-6, 1.0, n)
iso = pygaps.PointIsotherm(pressure=p, loading=5 * 3 * p / (1 + 3 * p), branch='ads', material='pgv_big_mat', adsorbate='pgv_prior_ads', temperature=77.0,
                           pressure_mode='absolute', pressure_unit='bar', loading_basis='molar', loading_unit='mmol', material_basis='mass', material_unit='g',
                           temperature_unit='K')
rec = SF.Recorder(os.path.dirname(db))
rec.snapshot_crash = lambda path: os._exit(9)
S.sqlite3 = SF.Sqlite3Proxy(rec, SF.Plan('commit', 'die_before'))
S.isotherm_to_db(iso, db_path=db, verbose=False)
os._exit(0)
"""


def big_transaction_case():
    """a transaction larger than SQLite's page cache (150 000 points, several MB) killed just before its commit: the file
    afterwards (as the next connection sees it, i.e. after journal recovery) holds nothing of it"""
    from pgv import sqlfault as SF
    from pgv.checks import c09
    import pygaps
    pygaps.logger.disabled = True
    tmp = tempfile.mkdtemp(prefix='pgv-c09big-')
    try:
        tpl = c09.make_template(tmp)
        db = os.path.join(tmp, 'big.db')
        shutil.copyfile(tpl, db)
        pre = SF.dump(db)
        code = _BIG_CHILD.format(root=ROOT, db=db)
        p = subprocess.run([sys.executable, '-c', code], capture_output=True, text=True, timeout=900,
                           env=dict(os.environ, PYTHONPATH=f"{os.environ.get('PGV_REPO', '/repo')}/src:{ROOT}"))
        state = SF.dump(db)
        ok = p.returncode == 9 and state == pre
        diff = '; '.join(f"{t}: {len(pre[t] or [])}->{len(state[t] or [])} rows" for t in SF.TABLES if state[t] != pre[t])
        return {'name': 'isotherm_to_db.point.150000_points|exit@commit:die_before', 'ok': ok,
                'detail': '' if ok else f"rc={p.returncode}; {diff}; {p.stderr[-200:]}"}
    finally:
        shutil.rmtree(tmp, ignore_errors=True)


@replayer('c09.big')
def _big(spec, model):
    r = big_transaction_case()
    return {'confirmed': not r['ok'], 'observed': r['detail'], 'expected': 'nothing of the killed upload in the file'}
