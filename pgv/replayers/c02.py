"""Native replay for C02 obligations: the real PointIsotherm (real pandas), real Adsorbate/Material."""
from __future__ import annotations

import numpy

from pgv import spec_si as S
from pgv.replay import close, replayer, _num

LABELS = ('pressure_mode', 'pressure_unit', 'loading_basis', 'loading_unit', 'material_basis', 'material_unit',
          'temperature_unit')


def build_iso(labels, model, ads_fail=(), pressure=None, loading=None):
    import pygaps
    pygaps.logger.disabled = True
    M = _num(model, 'M_ads', 28.0)
    rl = _num(model, 'rhobar_l', 0.03)
    rg = _num(model, 'rhobar_g', 0.0002)
    props = dict(molar_mass=M, saturation_pressure=_num(model, 'p_sat', 101325.0), liquid_density=rl * M,
                 gas_density=rg * M, liquid_molar_density=rl, gas_molar_density=rg)
    for f in ads_fail:
        props.pop(f, None)
    ads = pygaps.Adsorbate('pgv_replay_ads', store=True, **props)  # objects cannot be passed to the constructor
    mat = pygaps.Material('pgv_replay_mat', store=True, density=_num(model, 'rho_mat', 2.0), molar_mass=_num(model, 'M_mat', 60.0))
    T = 300.0 if labels['temperature_unit'] == 'K' else 26.85
    p = pressure if pressure is not None else [0.1, 0.2, 0.35, 0.3, 0.15]
    l = loading if loading is not None else [1.0, 2.0, 3.5, 3.2, 1.8]
    iso = pygaps.PointIsotherm(pressure=p, loading=l, material='pgv_replay_mat', adsorbate='pgv_replay_ads', temperature=T,
                               other_meta='x', **{k: labels[k] for k in LABELS})
    a = S.Ads(props.get('saturation_pressure', 101325.0), M, rl, rg)
    m = S.Mat(mat.density, mat.molar_mass)
    return iso, a, m


def _mu(lb, mb, mu):
    if lb in ('fraction', 'percent') and mb in S.MATERIAL_BASES and mu not in S.MATERIAL_BASES[mb]:
        return next(iter(S.MATERIAL_BASES[mb]))
    return mu


def canon(iso, a, m):
    lab = [getattr(iso, k) for k in LABELS]
    p = [float(S.canon_p(v, lab[0], lab[1], a)) for v in iso.data_raw[iso.pressure_key]]
    l = [float(S.canon_l(v, lab[2], lab[3], lab[4], _mu(lab[2], lab[4], lab[5]), a, m)) for v in iso.data_raw[iso.loading_key]]
    return p, l


def state(iso):
    return ([getattr(iso, k) for k in LABELS], iso._temperature, iso.data_raw.copy(), dict(iso.properties),
            iso.material, iso.adsorbate)


def same_state(s1, s2):
    return s1[0] == s2[0] and s1[1] == s2[1] and s1[2].equals(s2[2]) and s1[3] == s2[3] and s1[4] is s2[4] and s1[5] is s2[5]


@replayer('c02.method')
def _method(spec, model):
    import pygaps
    from pygaps.utilities.exceptions import pgError
    lab = spec['labels']
    iso, a, m = build_iso(lab, model, spec.get('ads_fail', ()))
    iso.l_interpolator = iso.p_interpolator = object()  # 'filled' caches
    before = state(iso)
    cp0, cl0 = canon(iso, a, m)
    Tk0 = iso.temperature
    try:
        getattr(iso, spec['method'])(**spec['args'])
        out = 'return'
    except pgError as exc:
        out = 'pgError'
    except Exception as exc:
        out = f"other:{type(exc).__name__}: {exc}"
    after = state(iso)
    problems = []
    if out.startswith('other'):
        problems.append(out)
    if out == 'pgError' and not same_state(before, after):
        problems.append(f"refused but state changed: labels {before[0]} -> {after[0]}; data equal: {before[2].equals(after[2])}")
    if out == 'return' and spec['must_refuse']:
        problems.append('returned normally although the target representation is not valid / not computable')
    if out == 'return':
        new_lab = after[0]
        try:
            pygaps.core.baseisotherm.BaseIsotherm(material='x', adsorbate='y', temperature=1, **dict(zip(LABELS, new_lab)))
        except pgError as exc:
            problems.append(f"labels after the call are rejected by the constructor: {new_lab}")
        want = [spec['target'][k] for k in LABELS]
        if new_lab != want:
            problems.append(f"labels {new_lab} do not name the requested representation {want}")
        if not problems:
            cp1, cl1 = canon(iso, a, m)
            if not all(close(x, y, rel=2e-4) for x, y in zip(cp0, cp1)):
                problems.append(f"pressure data not equal to the original in SI: {cp0[:2]} -> {cp1[:2]}")
            if not all(close(x, y, rel=2e-4) for x, y in zip(cl0, cl1)):
                problems.append(f"loading data not equal to the original in SI: {cl0[:2]} -> {cl1[:2]}")
            if not close(Tk0, iso.temperature, rel=1e-12):
                problems.append(f"temperature changed: {Tk0} -> {iso.temperature}")
        if not after[2]['branch'].equals(before[2]['branch']) or after[3] != before[3]:
            problems.append('branch marks or metadata changed')
        data_changed = not before[2].equals(after[2])
        if data_changed and (iso.l_interpolator is not None or iso.p_interpolator is not None):
            problems.append('data changed but interpolator caches kept')
    return {'confirmed': bool(problems), 'observed': {'outcome': out, 'problems': problems, 'labels_after': after[0]},
            'expected': spec['target'] if not spec['must_refuse'] else 'refusal with unchanged state'}


def native_history_cases():
    """real isotherms on real adsorbates with a thermodynamic backend, converted along different routes: the stored data after any
    history equal the original data converted directly, and converting back restores the original numbers.  One adsorbate carries
    a *stored* molar mass and densities that deliberately disagree with its backend: every step of every route must draw the
    constants from the same source."""
    import numpy
    import pygaps
    pygaps.logger.disabled = True
    made = []
    try:
        odd = pygaps.Adsorbate('pgv_c02_odd_n2', backend_name='Nitrogen', molar_mass=50.0, liquid_density=0.3, gas_density=0.01, store=True)
        made.append(odd)
        meta = dict(material={'name': 'pgv_c02_mat', 'density': 2.0, 'molar_mass': 100.0}, temperature=77.355, pressure_mode='absolute', pressure_unit='bar',
                    loading_basis='molar', loading_unit='mmol', material_basis='mass', material_unit='g', temperature_unit='K')
        for ads in ('nitrogen', 'pgv_c02_odd_n2'):
            mk = lambda: pygaps.PointIsotherm(pressure=[0.1, 0.2, 0.4, 0.3], loading=[0.5, 1.25, 2.0, 1.8], adsorbate=ads, **meta)
            routes = {
                'molar>mass>volume_gas': [dict(basis_to='mass', unit_to='g'), dict(basis_to='volume_gas', unit_to='cm3')],
                'molar>volume_liquid>mass>volume_gas': [dict(basis_to='volume_liquid', unit_to='cm3'), dict(basis_to='mass', unit_to='mg'), dict(basis_to='volume_gas', unit_to='cm3')],
                'molar>percent>volume_gas': [dict(basis_to='percent'), dict(basis_to='volume_gas', unit_to='cm3')],
                'molar>mass>fraction>volume_gas': [dict(basis_to='mass', unit_to='g'), dict(basis_to='fraction'), dict(basis_to='volume_gas', unit_to='cm3')],
            }
            direct = mk()
            direct.convert_loading(basis_to='volume_gas', unit_to='cm3')
            want = numpy.asarray(direct.loading(), dtype=float)
            orig = numpy.asarray(mk().loading(), dtype=float)
            for rname, steps in routes.items():
                probs = []
                try:
                    iso = mk()
                    for st in steps:
                        iso.convert_loading(**st)
                    got = numpy.asarray(iso.loading(), dtype=float)
                    if not numpy.allclose(got, want, rtol=1e-9):
                        probs.append(f"after the route {got} vs converted directly {want}")
                    iso.convert_loading(basis_to='molar', unit_to='mmol')
                    back = numpy.asarray(iso.loading(), dtype=float)
                    if not numpy.allclose(back, orig, rtol=1e-9):
                        probs.append(f"back in mmol {back} vs original {orig}")
                except Exception as exc:
                    probs.append(f"{type(exc).__name__}: {exc}"[:160])
                yield {'name': f"native_history|{ads}|{rname}", 'ok': not probs, 'detail': '; '.join(probs[:2])}
    finally:
        for a in made:
            try:
                pygaps.ADSORBATE_LIST.remove(a)
            except ValueError:
                pass


@replayer('c02.native_history')
def _native_history(spec, model):
    for r in native_history_cases():
        if r['name'] == spec['name']:
            return {'confirmed': not r['ok'], 'observed': r['detail'], 'expected': 'route == direct conversion; back-conversion restores the original'}
    return {'confirmed': False, 'error': 'case not found'}


def combined_convert_cases():
    """PointIsotherm.convert(...) with several targets at once, one of which is refused: afterwards the isotherm is what the steps
    completed before the refusal made it -- its labels describe its numbers (the data read in a fixed representation equal the
    original), and the same call repeated with a possible target ends where the direct conversion ends"""
    import numpy
    import pygaps
    pygaps.logger.disabled = True
    meta = dict(material={'name': 'pgv_c02_nomat'}, adsorbate='nitrogen', temperature=77.355, pressure_mode='absolute', pressure_unit='bar',
                loading_basis='molar', loading_unit='mmol', material_basis='mass', material_unit='g', temperature_unit='K')
    mk = lambda: pygaps.PointIsotherm(pressure=[0.1, 0.2, 0.4, 0.8, 0.5, 0.25], loading=[0.5, 1.25, 2.0, 2.6, 2.2, 1.6], **meta)
    canon = lambda i: (numpy.asarray(i.pressure(pressure_mode='absolute', pressure_unit='Pa'), dtype=float),
                       numpy.asarray(i.loading(loading_basis='molar', loading_unit='mol', material_basis='mass', material_unit='kg'), dtype=float))
    cases = {
        'pressure_ok_then_unknown_loading_unit': (dict(pressure_unit='Pa', loading_unit='no_such_unit'), dict(pressure_unit='Pa', loading_unit='mol')),
        'pressure_ok_then_loading_basis_without_unit': (dict(pressure_unit='kPa', loading_basis='mass'), dict(pressure_unit='kPa', loading_basis='mass', loading_unit='g')),
        'pressure_ok_then_material_volume_without_density': (dict(pressure_mode='absolute', pressure_unit='Pa', material_basis='volume', material_unit='cm3'),
                                                             dict(pressure_mode='absolute', pressure_unit='Pa', material_unit='kg')),
        'material_ok_then_unknown_loading_basis': (dict(material_unit='kg', loading_basis='no_such_basis', loading_unit='g'), dict(material_unit='kg', loading_basis='mass', loading_unit='g')),
    }
    for name, (bad, good) in cases.items():
        probs = []
        try:
            iso = mk()
            p0, l0 = canon(iso)
            try:
                iso.convert(**bad)
                probs.append('the impossible target was not refused')
            except Exception:
                pass
            p1, l1 = canon(iso)
            if not (numpy.allclose(p1, p0, rtol=1e-9) and numpy.allclose(l1, l0, rtol=1e-9)):
                probs.append(f"after the refusal the labels {iso.units} no longer describe the numbers: pressure in Pa {p1[:3]} (was {p0[:3]}), loading in mol/kg {l1[:3]} (was {l0[:3]})")
            iso.convert(**good)
            direct = mk()
            direct.convert(**good)
            if not (numpy.allclose(iso.pressure(), direct.pressure(), rtol=1e-9) and numpy.allclose(iso.loading(), direct.loading(), rtol=1e-9) and iso.units == direct.units):
                probs.append(f"repeating the call with a possible target gives {list(iso.pressure())[:2]} {iso.units}, the direct conversion {list(direct.pressure())[:2]} {direct.units}")
        except Exception as exc:
            probs.append(f"{type(exc).__name__}: {exc}"[:160])
        yield {'name': f"combined_convert|{name}", 'ok': not probs, 'detail': '; '.join(probs[:2])}


@replayer('c02.combined')
def _combined(spec, model):
    for r in combined_convert_cases():
        if r['name'] == spec['name']:
            return {'confirmed': not r['ok'], 'observed': r['detail'], 'expected': 'labels describe the numbers after a refused combined conversion'}
    return {'confirmed': False, 'error': 'case not found'}
