"""Native replay for C11 point-isotherm and ModelIsotherm spreading-pressure obligations."""
from __future__ import annotations

import numpy

from pgv.replay import close, replayer


@replayer('c11.point')
def _point(spec, model):
    import pygaps
    from scipy import integrate
    from pygaps.utilities.exceptions import CalculationError
    pygaps.logger.disabled = True
    n = spec['n']
    g = lambda k, d: float(model[k]) if isinstance(model.get(k), (int, float)) else d
    p = [g(f'p{i}', 0.1 * (i + 1)) for i in range(n)]
    l = [g(f'l{i}', 1.0 * (i + 1)) for i in range(n)]
    if sorted(p) != p or len(set(p)) != n:
        p = [0.1 * (i + 1) for i in range(n)]
    if sorted(l) != l:
        l = [1.0 * (i + 1) for i in range(n)]
    pygaps.Adsorbate('pgv_c11_ads', store=True, saturation_pressure=101325.0, molar_mass=28.0)
    h = spec.get('history')
    sp, sl, sb, brkw = list(p), list(l), 'ads', {}
    if h == 'origin_point_measured':
        sp, sl = [0.0] + sp, [0.0] + sl
    elif h == 'desorption_branch_stored_high_to_low':
        sp, sl, sb, brkw = sp[::-1], sl[::-1], 'des', {'branch': 'des'}
    iso = pygaps.PointIsotherm(pressure=sp, loading=sl, branch=sb, material='m', adsorbate='pgv_c11_ads', temperature=300,
                               pressure_mode='absolute', pressure_unit='bar', loading_basis='molar', loading_unit='mmol',
                               material_basis='mass', material_unit='g', temperature_unit='K')
    kw = spec['unit_kw']
    fp = {'Pa': 1e5, 'kPa': 100.0}.get(kw.get('pressure_unit'), 1.0)
    fl = {'mol': 1e-3}.get(kw.get('loading_unit'), 1.0)
    if h and h.startswith('used+'):
        iso.spreading_pressure_at((p[0] + p[-1]) / 2)
        if 'convert_loading' in h:
            iso.convert_loading(unit_to='mol')
            fl = 1e-3
        else:
            iso.convert_pressure(unit_to='kPa')
            fp = 100.0
    P_ = [x * fp for x in p]
    L_ = [x * fl for x in l]
    w = spec['where']
    q = {'below': P_[0] / 2, 'at_first': P_[0], 'at_last': P_[-1], 'above': P_[-1] * 1.5}.get(w)
    if q is None:
        k = int(w.split(':')[1])
        q = (P_[k] + P_[k + 1]) / 2

    def interp(x):
        if x <= P_[0]:
            return L_[0] / P_[0] * x
        if x > P_[-1]:
            b = (L_[-1] - L_[-2]) / (P_[-1] - P_[-2])
            return L_[-1] + b * (x - P_[-1])
        return float(numpy.interp(x, P_, L_))
    pts = [x for x in P_ if x < q]
    want = integrate.quad(lambda x: interp(x) / x, 0, q, points=pts or None, limit=200)[0]
    try:
        got = float(iso.spreading_pressure_at(q, interp_fill=spec['fill'], **kw, **brkw))
        out = 'return'
    except CalculationError:
        got, out = None, 'CalculationError'
    except Exception as exc:
        got, out = None, f"{type(exc).__name__}: {exc}"
    if w == 'above' and spec['fill'] is None:
        return {'confirmed': out != 'CalculationError', 'observed': out, 'expected': 'CalculationError'}
    return {'confirmed': out != 'return' or not (got == got and close(got, want, rel=1e-6)), 'observed': got if out == 'return' else out, 'expected': want,
            'data': {'p': p, 'l': l, 'q': q}}


@replayer('c11.modeliso')
def _modeliso(spec, model):
    import pygaps
    from pygaps.utilities.exceptions import pgError
    from pgv.replayers.c03 import _model_iso
    from pgv import spec_si as S
    mi, a, m = _model_iso(spec['labels'], model)
    kw = {k: v for k, v in spec['kwargs'].items() if v is not None}
    q = 0.4
    try:
        got = float(mi.spreading_pressure_at(q, **kw))
        out = 'return'
    except pgError as exc:
        got, out = None, 'pgError'
    except Exception as exc:
        got, out = None, type(exc).__name__
    if spec['expect'] == 'must_refuse':
        return {'confirmed': out != 'pgError', 'observed': out}
    if out != 'return':
        return {'confirmed': spec['expect'] == 'must_return' or out != 'pgError', 'observed': out, 'expected': 'a value'}
    lab = spec['labels']
    rm = kw.get('pressure_mode') or lab['pressure_mode']
    ru = kw.get('pressure_unit') or (lab['pressure_unit'] if rm == lab['pressure_mode'] else None)
    q_st = float(S.canon_p(q, rm, ru, a)) / float(S.canon_p(1.0, lab['pressure_mode'], lab['pressure_unit'], a))
    want = 2.5 * q_st  # Henry model K=2.5: Pi = K p
    return {'confirmed': not close(got, want, rel=2e-4), 'observed': got, 'expected': want}


def stored_dtype_cases():
    """whole-number data stored as integers (Python ints, an integer table read from a file without decimals): the spreading
    pressure equals that of the same data stored as floats and the integral of n/p of the interpolant -- stand-in for the
    machine number formats, which the SX obligations read as reals"""
    import pandas
    import pygaps
    from scipy import integrate
    pygaps.logger.disabled = True
    meta = dict(material='pgv_c11', adsorbate='nitrogen', temperature=77.355, pressure_mode='absolute', pressure_unit='bar', loading_basis='molar',
                loading_unit='mmol', material_basis='mass', material_unit='g', temperature_unit='K')
    P, L = [1, 2, 3, 5, 8, 13], [20, 50, 90, 140, 200, 270]
    isos = {
        'float_lists': pygaps.PointIsotherm(pressure=[float(x) for x in P], loading=[float(x) for x in L], **meta),
        'int_lists': pygaps.PointIsotherm(pressure=P, loading=L, **meta),
        'int_table': pygaps.PointIsotherm(isotherm_data=pandas.DataFrame({'pressure': P, 'loading': L}), pressure_key='pressure', loading_key='loading', **meta),
        'int_loading_float_pressure': pygaps.PointIsotherm(pressure=[float(x) for x in P], loading=L, **meta),
    }
    qs = [0.5, 1.0, 1.5, 2.5, 4.0, 7.9, 13.0]

    def interp(x):
        return L[0] / P[0] * x if x <= P[0] else float(numpy.interp(x, P, L))
    want = [integrate.quad(lambda x: interp(x) / x, 0, q, points=[v for v in P if v < q] or None, limit=200)[0] for q in qs]
    for k, iso in isos.items():
        probs = []
        for q, w in zip(qs, want):
            try:
                got = float(iso.spreading_pressure_at(q))
                if not close(got, w, rel=1e-7):
                    probs.append(f"Pi({q}) = {got!r}, integral {w!r}")
            except Exception as exc:
                probs.append(f"Pi({q}): {type(exc).__name__}: {exc}"[:120])
        yield {'name': f"stored_number_format|{k}", 'ok': not probs, 'detail': '; '.join(probs[:3])}


@replayer('c11.dtype')
def _dtype(spec, model):
    for r in stored_dtype_cases():
        if r['name'] == spec['name']:
            return {'confirmed': not r['ok'], 'observed': r['detail'], 'expected': 'the integral of n/p of the interpolant, whatever number format the data are stored in'}
    return {'confirmed': False, 'error': 'case not found'}


def array_query_cases():
    """a spreading pressure asked for at several pressures at once (increasing, decreasing, rotated order): where the call returns,
    every value belongs to the pressure at its own position -- it equals the scalar query"""
    import warnings
    import pygaps
    import pygaps.modelling as pgm
    from pgv.checks.models_common import DOMAIN
    pygaps.logger.disabled = True
    from pgv.replayers.c10 import _model
    meta = dict(material='pgv_c11', adsorbate='nitrogen', temperature=77.355, pressure_mode='absolute', pressure_unit='bar', loading_basis='molar',
                loading_unit='mmol', material_basis='mass', material_unit='g', temperature_unit='K')
    for name in sorted(DOMAIN):
        m = _model(name, None, {})
        m.pressure_range, m.loading_range = (0.0, 10.0), (0.0, 10.0)
        try:
            iso = pygaps.ModelIsotherm(model=m, **meta)
        except Exception:
            continue
        probs, claimed = [], 0
        with warnings.catch_warnings():
            warnings.simplefilter('ignore')
            for order in ([0.1, 0.3, 0.5], [0.5, 0.3, 0.1], [0.3, 0.5, 0.1], [0.5, 0.1, 0.3], [0.2, 0.7, 0.4, 0.1]):
                for kw, f in (({}, 1.0), ({'pressure_unit': 'kPa'}, 100.0)):
                    try:
                        one = numpy.asarray([float(numpy.asarray(iso.spreading_pressure_at(q * f, **kw)).ravel()[0]) for q in order])
                    except Exception:
                        continue
                    try:
                        arr = numpy.asarray(iso.spreading_pressure_at([q * f for q in order], **kw), dtype=float).ravel()
                    except Exception:
                        continue  # arrays refused: no answer, no claim
                    claimed += 1
                    if arr.shape != one.shape or not numpy.allclose(arr, one, rtol=1e-8):
                        probs.append(f"at {[q * f for q in order]}: array call {arr}, one at a time {one}")
        yield {'name': f"array_query|{name}", 'ok': not probs, 'detail': '; '.join(probs[:2]) or f"{claimed} array calls answered"}


@replayer('c11.array')
def _array(spec, model):
    for r in array_query_cases():
        if r['name'] == spec['name']:
            return {'confirmed': not r['ok'], 'observed': r['detail'], 'expected': 'each value equals the scalar query at the pressure in its own position'}
    return {'confirmed': False, 'error': 'case not found'}


def branch_integral_cases():
    """measured data with a hysteresis loop: on either branch the reduced spreading pressure is the closed-form integral of that
    branch's piecewise-linear interpolant over ln p, continued to the origin by Henry's law (first point: its loading)"""
    import math
    import pygaps
    pygaps.logger.disabled = True
    meta = dict(material='pgv_c11', adsorbate='nitrogen', temperature=77.355, pressure_mode='absolute', pressure_unit='bar', loading_basis='molar',
                loading_unit='mmol', material_basis='mass', material_unit='g', temperature_unit='K')
    p = [0.05, 0.1, 0.2, 0.4, 0.6, 0.8, 0.95, 0.7, 0.5, 0.3, 0.15]
    n = [0.5, 0.9, 1.5, 2.2, 2.6, 3.4, 4.0, 3.8, 3.5, 2.4, 1.4]
    b = [0] * 7 + [1] * 4
    iso = pygaps.PointIsotherm(pressure=p, loading=n, branch=b, **meta)

    def closed(pts, q):
        pts = sorted(pts)
        (p0, n0) = pts[0]
        if q <= p0:
            return n0 / p0 * q
        tot = n0
        for (pa, na), (pb, nb) in zip(pts, pts[1:]):
            hi = min(pb, q)
            if hi <= pa:
                break
            s = (nb - na) / (pb - pa)
            tot += s * (hi - pa) + (na - s * pa) * math.log(hi / pa)
        return tot
    # a second isotherm whose loading passes through a maximum (an excess isotherm): loadings are not ordered like the pressures
    pe, ne = [0.5, 1.0, 2.0, 4.0, 6.0, 10.0, 14.0, 18.0], [1.0, 1.8, 3.0, 4.2, 4.6, 4.8, 4.5, 4.1]
    excess = pygaps.PointIsotherm(pressure=pe, loading=ne, branch=[0] * 8, **meta)
    branches = {'ads': (iso, list(zip(p[:7], n[:7]))), 'des': (iso, list(zip(p[7:], n[7:]))), 'ads(loading through a maximum)': (excess, list(zip(pe, ne)))}
    for br, (iso, pts) in branches.items():
        lo, hi = min(x for x, _ in pts), max(x for x, _ in pts)
        qs = [lo * 0.5, lo, lo + 0.3 * (hi - lo), lo + 0.55 * (hi - lo), lo + 0.8 * (hi - lo), hi]
        probs = []
        for q in qs:
            want = closed(pts, q)
            try:
                got = float(numpy.asarray(iso.spreading_pressure_at(q, branch=br[:3])).ravel()[0])
            except Exception as exc:
                probs.append(f"p={q:.4g}: {type(exc).__name__}: {exc}"[:120])
                continue
            if not abs(got - want) <= 1e-9 * max(1.0, abs(want)):
                probs.append(f"p={q:.4g}: returned {got!r}, the integral of the branch's interpolant is {want!r}")
        yield {'name': f"branch_integral|{br}", 'ok': not probs, 'detail': '; '.join(probs[:3])}


@replayer('c11.branch_integral')
def _branch_integral(spec, model):
    for r in branch_integral_cases():
        if r['name'] == spec['name']:
            return {'confirmed': not r['ok'], 'observed': r['detail'], 'expected': "the integral of the branch's interpolant over ln p, Henry's law below the first point"}
    return {'confirmed': False, 'error': 'case not found'}
