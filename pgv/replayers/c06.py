"""Round-trip stand-ins for C06 (JSON) and C07 (CSV, Excel, AIF): real exports re-imported and compared."""
from __future__ import annotations

import os
import shutil
import tempfile

from pgv.replay import replayer


def _export_import(fmt, iso, tmp, via_file):
    import pygaps.parsing as pgp
    if fmt == 'json':
        if via_file:
            p = os.path.join(tmp, 'x.json')
            pgp.isotherm_to_json(iso, p)
            return pgp.isotherm_from_json(p), open(p, encoding='utf-8').read()
        s = pgp.isotherm_to_json(iso)
        return pgp.isotherm_from_json(s), s
    if fmt == 'csv':
        if via_file:
            p = os.path.join(tmp, 'x.csv')
            pgp.isotherm_to_csv(iso, p)
            return pgp.isotherm_from_csv(p), None
        s = pgp.isotherm_to_csv(iso)
        return pgp.isotherm_from_csv(s), s
    if fmt == 'aif':
        if via_file:
            p = os.path.join(tmp, 'x.aif')
            pgp.isotherm_to_aif(iso, p)
            return pgp.isotherm_from_aif(p), None
        s = pgp.isotherm_to_aif(iso)
        return pgp.isotherm_from_aif(s), s
    if fmt == 'excel':
        p = os.path.join(tmp, 'x.xls')
        pgp.isotherm_to_xl(iso, p)
        return pgp.isotherm_from_xl(p), None
    raise ValueError(fmt)


def one_case(fmt, name, iso, tmp):
    import pygaps
    from pgv import rtgen
    from pygaps.utilities.exceptions import pgError
    problems = []
    if isinstance(iso, Exception):
        return [f"the isotherm could not be constructed: {type(iso).__name__}: {iso}"[:200]]
    for via_file in ((False, True) if fmt != 'excel' else (True,)):
        try:
            back, doc = _export_import(fmt, iso, tmp, via_file)
        except pgError as exc:
            # the generators draw every value from the format's value domain (the property's quantifier): a refusal of one of
            # them -- at export, or of the format's own document at import -- is a value that did not come back
            problems.append(f"{'file' if via_file else 'string'}: refused with {type(exc).__name__}: {exc}"[:160])
            continue
        except Exception as exc:
            problems.append(f"{'file' if via_file else 'string'}: {type(exc).__name__}: {exc}"[:200])
            continue
        diffs = rtgen.compare(iso, back, fmt)
        if diffs:
            problems.append(f"{'file' if via_file else 'string'}: " + '; '.join(diffs[:3]))
        elif fmt == 'json' and doc is not None:
            import pygaps.parsing as pgp
            again = pgp.isotherm_to_json(back)
            if not via_file and again != doc:
                problems.append("exporting the re-imported isotherm does not reproduce the document")
    return problems


def roundtrips(fmt, seed, thorough=False):
    from pgv import par
    n = 400 if thorough else 96
    chunks = [(fmt, seed, n, i, 16) for i in range(16)]
    res, crashes = par.pmap(run_chunk, chunks)
    for r in res:
        yield r['__bounded__']
    for c in crashes:
        yield {'name': 'harness-crash', 'ok': False, 'detail': c[:400]}


def run_chunk(args):
    fmt, seed, n, i, k = args
    from pgv import rtgen
    tmp = tempfile.mkdtemp(prefix='pgv-rt-')
    out = []
    try:
        for j, (name, iso) in enumerate(rtgen.make(fmt, seed, n)):
            if j % k != i:
                continue
            problems = one_case(fmt, name, iso, tmp)
            out.append({'__bounded__': {'name': name, 'ok': not problems, 'detail': ' | '.join(problems)[:400]}})
    finally:
        shutil.rmtree(tmp, ignore_errors=True)
    return out


@replayer('c06.case')
def _case(spec, model):
    from pgv import rtgen
    tmp = tempfile.mkdtemp(prefix='pgv-rt-')
    try:
        for name, iso in rtgen.make(spec['fmt'], spec.get('seed', 0), 400):
            if name == spec['name']:
                problems = one_case(spec['fmt'], name, iso, tmp)
                return {'confirmed': bool(problems), 'observed': problems}
    finally:
        shutil.rmtree(tmp, ignore_errors=True)
    return {'confirmed': False, 'error': 'case not found'}


@replayer('c06.roundtrip')
def _rt(spec, model):
    bad = [r for r in roundtrips('json', 0) if not r['ok']]
    return {'confirmed': bool(bad), 'observed': [(b['name'], b['detail']) for b in bad[:3]]}


@replayer('c06.model')
def _model(spec, model):
    import json
    import random
    import numpy
    import pygaps
    from pgv import rtgen
    pygaps.logger.disabled = True
    m = rtgen._model(spec['model'], random.Random(1))
    iso = pygaps.ModelIsotherm(model=m, material='pgv_m', adsorbate='nitrogen', temperature=77.0, pressure_mode='relative', loading_basis='molar',
                               loading_unit='mmol', material_basis='mass', material_unit='g', temperature_unit='K', pressure_unit=None)
    import pygaps.parsing as pgp
    back = pgp.isotherm_from_json(pgp.isotherm_to_json(iso))
    diffs = rtgen.compare(iso, back, 'json')
    return {'confirmed': bool(diffs), 'observed': diffs}


@replayer('c07.codec')
def _codec(spec, model):
    from pygaps.utilities.string_utilities import _to_string, cast_string
    bad = []
    for v in list(range(-5, 6)) + [0.5, 1e-7, True, False, 'plain text', 'a-b', 'é']:
        r = cast_string(_to_string(v))
        if r != v or (isinstance(v, (bool, str)) and type(r) is not type(v)):
            bad.append((v, r))
    return {'confirmed': bool(bad), 'observed': bad[:5]}


@replayer('c07.format')
def _format(spec, model):
    bad = [r for r in roundtrips(spec['fmt'], 0) if not r['ok']]
    return {'confirmed': bool(bad), 'observed': [(b['name'], b['detail']) for b in bad[:3]]}


def file_name_cases(fmt):
    """export to the path the caller names and import from that same path: file names with the usual extension, with another
    extension, without any, with dots inside, given as str and as pathlib.Path"""
    import pathlib
    import pygaps
    import pygaps.parsing as pgp
    pygaps.logger.disabled = True
    to_, from_ = {'json': (pgp.isotherm_to_json, pgp.isotherm_from_json), 'csv': (pgp.isotherm_to_csv, pgp.isotherm_from_csv),
                  'excel': (pgp.isotherm_to_xl, pgp.isotherm_from_xl)}[fmt]
    ext = {'json': 'json', 'csv': 'csv', 'excel': 'xls'}[fmt]
    iso = pygaps.PointIsotherm(pressure=[0.1, 0.2, 0.4], loading=[1.0, 1.5, 2.0], material='pgv_fn', adsorbate='nitrogen', temperature=77.355)
    tmp = tempfile.mkdtemp(prefix='pgv-fn-')
    try:
        for label, name in (('usual_extension', f'iso.{ext}'), ('other_extension', 'iso.dat'), ('no_extension', 'iso_export'), ('dots_inside', 'run1.5bar')):
            for kind, conv in (('str', str), ('Path', pathlib.Path)):
                sub = os.path.join(tmp, f"{label}_{kind}")
                os.makedirs(sub)
                path = conv(os.path.join(sub, name))
                probs = []
                try:
                    to_(iso, path)
                    listing = sorted(os.listdir(sub))
                    if listing != [name]:
                        probs.append(f"asked to write {name!r}, the folder holds {listing}")
                    back = from_(path)
                    if not back == iso:
                        probs.append('the isotherm read from the path is not the one written')
                except Exception as exc:
                    probs.append(f"{type(exc).__name__}: {exc}"[:140])
                yield {'name': f"{fmt}_file_name|{label}|{kind}", 'ok': not probs, 'detail': '; '.join(probs)}
    finally:
        shutil.rmtree(tmp, ignore_errors=True)


@replayer('c06.file_name')
def _file_name(spec, model):
    for r in file_name_cases(spec['fmt']):
        if r['name'] == spec['name']:
            return {'confirmed': not r['ok'], 'observed': r['detail'], 'expected': 'the file is written at, and read back from, the path that was given'}
    return {'confirmed': False, 'error': 'case not found'}


def registry_cases(fmt):
    """an isotherm that carries its own material, while a material of the same name with other values of the same properties is
    registered in the session (pygaps.MATERIAL_LIST): the round trip gives back the isotherm's own material properties"""
    import pygaps
    import pygaps.modelling as pgm
    from pygaps.core.baseisotherm import BaseIsotherm
    pygaps.logger.disabled = True
    meta = dict(adsorbate='nitrogen', temperature=77.0, pressure_mode='absolute', pressure_unit='bar', loading_basis='molar', loading_unit='mmol',
                material_basis='mass', material_unit='g', temperature_unit='K')
    registered = pygaps.Material('pgv_registered', density=1.5, batch='B1')
    pygaps.MATERIAL_LIST.append(registered)
    tmp = tempfile.mkdtemp(prefix='pgv-reg-')
    try:
        def own():
            return pygaps.Material('pgv_registered', density=2.0, batch='B7')
        isos = {'base': lambda: BaseIsotherm(material=own(), **meta),
                'point': lambda: pygaps.PointIsotherm(pressure=[0.1, 0.2, 0.4], loading=[1.0, 1.5, 2.0], material=own(), **meta),
                'model': lambda: pygaps.ModelIsotherm(model=pgm.get_isotherm_model('Langmuir', parameters={'K': 2.0, 'n_m': 5.0}, pressure_range=(0.0, 1.0),
                                                                                     loading_range=(0.0, 4.0), rmse=0.0), material=own(), **meta)}
        for kind, mk in isos.items():
            try:
                probs = one_case(fmt, f"registry|{kind}", mk(), tmp)
            except Exception as exc:
                probs = [f"{type(exc).__name__}: {exc}"[:160]]
            yield {'name': f"{fmt}_own_material_beside_a_registered_one|{kind}", 'ok': not probs, 'detail': ' | '.join(probs)[:300]}
    finally:
        pygaps.MATERIAL_LIST[:] = [m for m in pygaps.MATERIAL_LIST if m is not registered]
        shutil.rmtree(tmp, ignore_errors=True)


@replayer('c06.registry')
def _registry(spec, model):
    for r in registry_cases(spec['fmt']):
        if r['name'] == spec['name']:
            return {'confirmed': not r['ok'], 'observed': r['detail'], 'expected': "the re-imported isotherm has the exported isotherm's own material properties"}
    return {'confirmed': False, 'error': 'case not found'}
