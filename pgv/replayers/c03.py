"""Native replay for C03: real PointIsotherm / ModelIsotherm accessors vs permanent conversion of a copy."""
from __future__ import annotations

import numpy

from pgv import spec_si as S
from pgv.replay import close, replayer, _num
from pgv.replayers.c02 import LABELS, build_iso, _mu


def _copy(iso):
    import pygaps
    return pygaps.PointIsotherm.from_isotherm(iso, isotherm_data=iso.data_raw.copy(), pressure_key=iso.pressure_key,
                                              loading_key=iso.loading_key)


def _model_iso(labels, model):
    import pygaps
    import pygaps.modelling as pgm
    iso, a, m = build_iso(labels, model, pressure=[0.1, 0.2, 0.3], loading=[1.0, 1.5, 1.8])
    mod = pgm.get_isotherm_model('Henry')
    mod.params = {'K': 2.5}
    mod.pressure_range = (0.1, 0.9)
    mod.loading_range = (0.25, 2.25)
    d = iso.to_dict()
    mi = pygaps.ModelIsotherm(model=mod, **d)
    return mi, a, m


@replayer('c03.accessor')
def _accessor(spec, model):
    import pygaps
    from pygaps.utilities.exceptions import pgError
    pygaps.logger.disabled = True
    lab = spec['labels']
    kw = {k: v for k, v in spec['kwargs'].items()}
    method = spec['method']
    if spec['cls'] == 'point':
        iso, a, m = build_iso(lab, model, pressure=[0.1, 0.2, 0.3, 0.4], loading=[1.0, 2.0, 3.0, 4.0])
    else:
        iso, a, m = _model_iso(lab, model)
    S_lab = [getattr(iso, k) for k in LABELS]

    def canon_p(v, mode, unit):
        return float(S.canon_p(v, mode, unit, a))

    def canon_l(v, lb, lu, mb, mu):
        return float(S.canon_l(v, lb, lu, mb, _mu(lb, mb, mu), a, m))

    # completed request
    def comp(st, rq):
        return (rq[0] or st[0], rq[1] or (st[1] if (rq[0] or st[0]) == st[0] else None))
    Rp = comp((S_lab[0], S_lab[1]), (kw.get('pressure_mode'), kw.get('pressure_unit')))
    Rl = comp((S_lab[2], S_lab[3]), (kw.get('loading_basis'), kw.get('loading_unit')))
    Rm = comp((S_lab[4], S_lab[5]), (kw.get('material_basis'), kw.get('material_unit')))
    args = ()
    if method == 'loading_at':
        args = (0.25,)
    if method == 'pressure_at':
        args = (1.7,)
    if spec['cls'] == 'model' and method in ('pressure', 'loading'):
        kw['points'] = 3
    try:
        res = getattr(iso, method)(*args, **{k: v for k, v in kw.items() if v is not None})
        out = ('return', numpy.atleast_1d(numpy.asarray(res, dtype=float)).tolist())
    except pgError as exc:
        out = ('pgError', str(exc)[:80])
    except Exception as exc:
        out = (type(exc).__name__, str(exc)[:80])
    exp = spec['expect']
    if exp == 'must_refuse':
        return {'confirmed': out[0] != 'pgError', 'observed': out, 'expected': 'pyGAPS error'}
    if out[0] != 'return':
        return {'confirmed': exp == 'must_return' or out[0] != 'pgError', 'observed': out, 'expected': 'a value'}
    # expected numbers via the SI spec from the stored data / model
    try:
        if method == 'pressure':
            stored = iso.data_raw[iso.pressure_key].tolist() if spec['cls'] == 'point' else list(numpy.linspace(0.1, 0.9, 3))
            want = [canon_p(v, S_lab[0], S_lab[1]) for v in stored]
            got = [canon_p(v, *Rp) for v in out[1]]
        elif method == 'loading':
            if spec['cls'] == 'point':
                stored = iso.data_raw[iso.loading_key].tolist()
            else:
                stored = [2.5 * p for p in numpy.linspace(0.1, 0.9, 3)]
            want = [canon_l(v, S_lab[2], S_lab[3], S_lab[4], S_lab[5]) for v in stored]
            got = [canon_l(v, Rl[0], Rl[1], Rm[0], Rm[1]) for v in out[1]]
        elif method == 'loading_at':
            # q given in Rp; stored-representation query:
            q_si = canon_p(args[0], *Rp)
            q_st = q_si / canon_p(1.0, S_lab[0], S_lab[1])
            inner = float(numpy.interp(q_st, [0.1, 0.2, 0.3, 0.4], [1, 2, 3, 4])) if spec['cls'] == 'point' else 2.5 * q_st
            want = [canon_l(inner, S_lab[2], S_lab[3], S_lab[4], S_lab[5])]
            got = [canon_l(out[1][0], Rl[0], Rl[1], Rm[0], Rm[1])]
        else:
            n_si = canon_l(args[0], Rl[0], Rl[1], Rm[0], Rm[1])
            n_st = n_si / canon_l(1.0, S_lab[2], S_lab[3], S_lab[4], S_lab[5])
            inner = float(numpy.interp(n_st, [1, 2, 3, 4], [0.1, 0.2, 0.3, 0.4])) if spec['cls'] == 'point' else n_st / 2.5
            want = [canon_p(inner, S_lab[0], S_lab[1])]
            got = [canon_p(out[1][0], *Rp)]
    except Exception as exc:
        return {'confirmed': False, 'error': f"spec evaluation failed: {type(exc).__name__}: {exc}", 'observed': out}
    ok = len(want) == len(got) and all(close(x, y, rel=2e-4) for x, y in zip(want, got))
    return {'confirmed': not ok, 'observed': {'returned': out[1][:4], 'in_SI': got[:4]}, 'expected': {'in_SI': want[:4]},
            'note': 'SI value of the returned numbers under the requested representation vs SI value of the stored data'}


@replayer('c03.split')
def _split(spec, model):
    import pandas
    from pygaps.utilities.math_utilities import split_ads_data
    from pgv.checks.c03 import INDEXINGS
    n = spec['n']
    # evaluate every ordering pattern of n pressures (ties included) against the spec
    import itertools
    bad = []
    for ps in itertools.product(range(1, n + 1), repeat=n):
        df = pandas.DataFrame({'pressure': [float(p) for p in ps], 'loading': [0.0] * n}, index=INDEXINGS[spec['index']](n))
        try:
            got = [int(x) for x in split_ads_data(df, 'pressure')]
        except Exception as exc:
            got = f"{type(exc).__name__}: {exc}"
        m = list(ps).index(max(ps))
        want = [0] * n if m == n - 1 else ([1] * n if m == 0 else [1 if j > m else 0 for j in range(n)])
        if got != want:
            bad.append({'pressures': list(ps), 'got': got, 'want': want})
    return {'confirmed': bool(bad), 'observed': bad[:3], 'expected': 'marks determined by the position of the first maximum only'}


@replayer('c03.selection')
def _selection(spec, model):
    import pygaps
    import pandas
    pygaps.logger.disabled = True
    layout = spec['layout']
    n = len(layout)
    p = [0.5, 0.0, 0.25, 0.75][:n]
    l = [2.0, 0.0, 1.0, 3.0][:n]
    ex = [7.0, 0.0, -1.0, 2.0][:n]
    df = pandas.DataFrame({'pressure': p, 'loading': l, 'branch': layout, 'extra': ex}, index=[7, 3, 9, 4][:n])
    pygaps.Adsorbate('pgv_sel_ads', store=True)
    iso = pygaps.PointIsotherm(isotherm_data=df, pressure_key='pressure', loading_key='loading', material='m',
                               adsorbate='pgv_sel_ads', temperature=300, pressure_mode='absolute', pressure_unit='bar',
                               loading_basis='molar', loading_unit='mmol', material_basis='mass', material_unit='g',
                               temperature_unit='K')
    what = spec['what']
    col = {'pressure': p, 'loading': l, 'other_data': ex}[what]
    bad = []
    cands = [None, 0, 0.0, 0.25, 0.5, 1.0, -1.0, 2.0]
    for lo in cands:
        for hi in cands:
            if spec['limits'] == 'none' and (lo, hi) != (None, None):
                continue
            kw = {'branch': spec['branch'], 'limits': None if spec['limits'] == 'none' else (lo, hi)}
            if what == 'other_data':
                kw['key'] = 'extra'
            got = list(getattr(iso, what)(**kw))
            rows = [i for i, b in enumerate(layout) if spec['branch'] is None or (spec['branch'] == 'ads') == (b == 0)]
            want = [col[i] for i in rows if (lo is None or col[i] >= lo) and (hi is None or col[i] <= hi)]
            if [float(x) for x in got] != [float(x) for x in want]:
                bad.append({'limits': (lo, hi), 'got': got, 'want': want})
    return {'confirmed': bool(bad), 'observed': bad[:3], 'expected': 'stored points of the branch inside the limits, in order'}


@replayer('c03.refusal_history')
def _refusal_history(spec, model):
    """filled call first, then the same method without a fill rule outside / inside the measured range"""
    import pygaps
    pygaps.logger.disabled = True
    g = lambda k, d: float(model[k]) if isinstance(model.get(k), (int, float)) else d
    p = sorted([g('p0', 1.0), g('p1', 2.0), g('p2', 3.0)])
    l = sorted([g('l0', 1.0), g('l1', 2.0), g('l2', 3.0)])
    if not (0 < p[0] < p[1] < p[2] and 0 < l[0] < l[1] < l[2]):
        p, l = [1.0, 2.0, 3.0], [1.0, 2.0, 3.0]
    method, prior = spec['method'], spec['prior']
    fills = {'same.fill0': 0, 'same.extrapolate': 'extrapolate', 'same.fill_pair': (1, 2), 'pressure_at.extrapolate': 'extrapolate'}
    other = {'loading_at': 'pressure_at', 'pressure_at': 'loading_at'}
    pm = method if prior.startswith('same') else other[method]
    bad = []
    x = p if method == 'loading_at' else l
    for q in (g('q', x[2] * 2), x[0] / 2, x[2] * 2, (x[0] + x[1]) / 2):
        iso = pygaps.PointIsotherm(pressure=p, loading=l, material='m', adsorbate='nitrogen', temperature=77, pressure_mode='absolute',
                                   pressure_unit='bar', loading_basis='molar', loading_unit='mmol', material_basis='mass', material_unit='g',
                                   temperature_unit='K')
        try:
            getattr(iso, pm)(g('q2', 1.5), interp_fill=fills[prior])
        except Exception:
            pass
        try:
            r = getattr(iso, method)(q)
            out = f"returned {float(r)!r}"
        except ValueError:
            out = 'ValueError'
        inside = x[0] <= q <= x[2]
        if (out == 'ValueError') == inside:
            bad.append({'data': {'pressure': p, 'loading': l}, 'query': q, 'inside_range': inside, 'outcome': out})
    return {'confirmed': bool(bad), 'observed': bad[:3], 'expected': 'ValueError outside the measured range, a value inside it'}


def interpolation_cases():
    """real interpolators of real point isotherms whose stored numbers are large, ordinary and very small (1e-9 bar: low-pressure
    micropore data; 1e-9 mol): interpolated values coincide with the data at measured points, lie on the straight line between
    neighbours, are refused outside the measured range (1e-6 relative beyond either end) without a fill rule, and agree with a
    copy permanently converted to another unit"""
    import pygaps
    pygaps.logger.disabled = True
    base_p = numpy.array([2.0, 3.0, 5.0, 8.0, 13.0, 21.0, 34.0])
    base_l = numpy.array([0.1, 0.3, 0.55, 0.9, 1.4, 2.2, 3.0])
    for tag, fp, fl in (('ordinary', 1e-2, 1.0), ('tiny_pressures', 1e-9, 1.0), ('tiny_loadings', 1e-2, 1e-9), ('large', 1e3, 1e3), ('both_tiny', 1e-10, 1e-10)):
        p, l = base_p * fp, base_l * fl
        pp, ll = list(p) + list(p[::-1][1:]), list(l) + list(l[::-1][1:] * 1.2)
        iso = pygaps.PointIsotherm(pressure=pp, loading=ll, branch=[0] * 7 + [1] * 6, material='pgv_c03', adsorbate='nitrogen', temperature=77.355,
                                   pressure_mode='absolute', pressure_unit='bar', loading_basis='molar', loading_unit='mmol', material_basis='mass',
                                   material_unit='g', temperature_unit='K')
        for br in ('ads', 'des'):
            ps = numpy.asarray(iso.pressure(branch=br), dtype=float)
            ls = numpy.asarray(iso.loading(branch=br), dtype=float)
            probs = []
            for meth, xs, ys in (('loading_at', ps, ls), ('pressure_at', ls, ps)):
                f = getattr(iso, meth)
                try:
                    got = numpy.asarray(f(xs, branch=br), dtype=float)
                    if not numpy.allclose(got, ys, rtol=1e-9, atol=0):
                        probs.append(f"{meth}(measured points) = {got} instead of the data {ys}")
                    mid = (xs[:-1] + xs[1:]) / 2
                    got = numpy.asarray(f(mid, branch=br), dtype=float)
                    if not numpy.allclose(got, (ys[:-1] + ys[1:]) / 2, rtol=1e-9, atol=0):
                        probs.append(f"{meth}(midpoints) = {got} instead of {(ys[:-1] + ys[1:]) / 2}")
                    third = xs[:-1] + (xs[1:] - xs[:-1]) * 1e-3
                    got = numpy.asarray(f(third, branch=br), dtype=float)
                    want = ys[:-1] + (ys[1:] - ys[:-1]) * 1e-3
                    if not numpy.allclose(got, want, rtol=1e-9, atol=0):
                        probs.append(f"{meth}(a thousandth of the way to the next point) = {got} instead of {want}")
                except Exception as exc:
                    probs.append(f"{meth}: {type(exc).__name__}: {exc}"[:160])
                for q, where in ((xs.max() * (1 + 1e-6), 'above'), (xs.min() * (1 - 1e-6), 'below')):
                    try:
                        v = f(q, branch=br)
                        probs.append(f"{meth}({q!r}) {where} the measured range answered {v} instead of being refused")
                    except Exception:
                        pass
                # with a fill rule the query is answered: a number (0 and 0.0 among them), a pair, 'extrapolate'
                for fill in (0, 0.0, 7.5, (0, 0), (0.0, 9.0), 'extrapolate'):
                    for q, where in ((xs.max() * 1.5, 'above'), (xs.min() * 0.5, 'below')):
                        try:
                            v = float(numpy.asarray(f(q, branch=br, interp_fill=fill), dtype=float).ravel()[0])
                        except Exception as exc:
                            probs.append(f"{meth}({q!r}, interp_fill={fill!r}) {where} the measured range was refused ({type(exc).__name__}) although a fill rule was given")
                            continue
                        if fill != 'extrapolate':
                            # (a pair: value below the lowest x, value above the highest x)
                            wantf = (fill[1] if where == 'above' else fill[0]) if isinstance(fill, tuple) else fill
                            if v != float(wantf):
                                probs.append(f"{meth}({q!r}, interp_fill={fill!r}) {where} the measured range = {v}, the fill rule says {wantf}")
            # against a permanently converted copy (interior points only: end points are subject to the unit round trip's last bit)
            try:
                cp = _copy(iso)
                cp.convert_pressure(unit_to='Pa')
                cp.convert_loading(unit_to='mol')
                q = (ps[:-1] + ps[1:]) / 2
                a = numpy.asarray(iso.loading_at(q * 1e5, branch=br, pressure_unit='Pa', loading_unit='mol'), dtype=float)
                b = numpy.asarray(cp.loading_at(q * 1e5, branch=br), dtype=float)
                if not numpy.allclose(a, b, rtol=1e-9, atol=0):
                    probs.append(f"loading_at in Pa / mol: accessor {a} vs converted copy {b}")
            except Exception as exc:
                probs.append(f"converted copy: {type(exc).__name__}: {exc}"[:160])
            yield {'name': f"interpolation|{tag}|{br}", 'ok': not probs, 'detail': '; '.join(probs[:3])}


def stored_format_cases():
    """whole-number data stored as integers (lists of ints, an integer table): whole branches, slices and interpolated values in the
    stored and in requested units equal those of the same data stored as floats"""
    import pandas
    import pygaps
    pygaps.logger.disabled = True
    meta = dict(material='pgv_c03', adsorbate='nitrogen', temperature=77.355, pressure_mode='absolute', pressure_unit='bar', loading_basis='molar',
                loading_unit='mmol', material_basis='mass', material_unit='g', temperature_unit='K')
    P, L, B = [1, 2, 3, 5, 8, 5, 3, 2], [20, 50, 90, 140, 200, 170, 120, 70], [0, 0, 0, 0, 0, 1, 1, 1]
    ref = pygaps.PointIsotherm(pressure=[float(x) for x in P], loading=[float(x) for x in L], branch=B, **meta)
    forms = {'int_lists': pygaps.PointIsotherm(pressure=P, loading=L, branch=B, **meta),
             'int_table': pygaps.PointIsotherm(isotherm_data=pandas.DataFrame({'pressure': P, 'loading': L, 'branch': B}), pressure_key='pressure', loading_key='loading', **meta)}
    queries = {
        'pressure(ads)': lambda i: i.pressure(branch='ads'),
        'loading(des, mol)': lambda i: i.loading(branch='des', loading_unit='mol'),
        'pressure(Pa, limits)': lambda i: i.pressure(pressure_unit='Pa', limits=(2e5, 5e5)),
        'loading_at([1.5, 4, 7.5])': lambda i: i.loading_at([1.5, 4.0, 7.5]),
        'loading_at(250000 Pa, des)': lambda i: i.loading_at(250000.0, pressure_unit='Pa', branch='des'),
        'pressure_at([35, 117])': lambda i: i.pressure_at([35.0, 117.0]),
        'pressure_at(0.1 mol)': lambda i: i.pressure_at(0.1, loading_unit='mol'),
    }
    for k, iso in forms.items():
        probs = []
        for qn, q in queries.items():
            try:
                a, b = numpy.asarray(q(iso), dtype=float), numpy.asarray(q(ref), dtype=float)
                if a.shape != b.shape or not numpy.allclose(a, b, rtol=1e-12):
                    probs.append(f"{qn}: {a} vs {b} for float data")
            except Exception as exc:
                probs.append(f"{qn}: {type(exc).__name__}: {exc}"[:120])
        yield {'name': f"stored_number_format|{k}", 'ok': not probs, 'detail': '; '.join(probs[:3])}


def native_selection_cases():
    """real point isotherm with a hysteresis loop and a supplementary column: a read between limits returns exactly the stored points
    of the requested branch (or of the whole data) whose value lies inside the limits, in measurement order -- also when the points
    inside the limits are not consecutive rows, in stored and in requested units"""
    import pygaps
    pygaps.logger.disabled = True
    P = numpy.array([1.0, 2.0, 3.0, 4.0, 5.0, 6.0, 4.5, 3.5, 2.0])
    L = numpy.array([1.0, 2.0, 3.0, 4.0, 5.0, 6.0, 5.6, 4.8, 2.9])
    H = numpy.array([8.0, 7.0, 6.0, 5.0, 4.0, 3.0, 4.6, 5.2, 7.1])
    B = numpy.array([0, 0, 0, 0, 0, 0, 1, 1, 1])
    import pandas
    iso = pygaps.PointIsotherm(isotherm_data=pandas.DataFrame({'pressure': P, 'loading': L, 'enthalpy': H, 'branch': B}), pressure_key='pressure', loading_key='loading',
                               material='pgv_c03', adsorbate='nitrogen', temperature=77.355, pressure_mode='absolute', pressure_unit='bar', loading_basis='molar',
                               loading_unit='mmol', material_basis='mass', material_unit='g', temperature_unit='K')
    rows = {None: numpy.ones(9, bool), 'ads': B == 0, 'des': B == 1}

    def inside(v, lim):
        lo = -numpy.inf if lim[0] is None else lim[0]
        hi = numpy.inf if lim[1] is None else lim[1]
        return (v >= lo) & (v <= hi), (v > lo) & (v < hi)
    for br in (None, 'ads', 'des'):
        for what, col, read, fac in (('pressure', P, lambda lim, kw: iso.pressure(branch=br, limits=lim, **kw), {'': 1.0, 'kPa': 100.0}),
                                     ('loading', L, lambda lim, kw: iso.loading(branch=br, limits=lim, **kw), {'': 1.0, 'mol': 1e-3}),
                                     ('enthalpy', H, lambda lim, kw: iso.other_data('enthalpy', branch=br, limits=lim), {'': 1.0})):
            for unit, f in fac.items():
                probs = []
                for lim in ((2.5, 5.0), (None, 4.0), (3.2, None), (None, 4.9), (5.1, 8.0)):
                    kw = {} if not unit else ({'pressure_unit': unit} if what == 'pressure' else {'loading_unit': unit})
                    slim = tuple(None if x is None else x * f for x in lim)
                    closed, open_ = inside(col, lim)
                    must = col[rows[br] & open_] * f
                    may = col[rows[br] & closed] * f
                    try:
                        got = numpy.asarray(read(slim, kw), dtype=float)
                        # every stored point strictly inside is returned, nothing outside is, order is measurement order
                        ok = len(got) >= len(must) and len(got) <= len(may) and all(numpy.any(numpy.isclose(may, g, rtol=1e-12)) for g in got) and \
                            all(numpy.any(numpy.isclose(got, m, rtol=1e-12)) for m in must)
                        if ok and len(got) == len(may):
                            ok = bool(numpy.allclose(got, may, rtol=1e-12))
                        if not ok:
                            probs.append(f"limits={slim}: returned {got}, stored points inside {may}")
                    except Exception as exc:
                        probs.append(f"limits={slim}: {type(exc).__name__}: {exc}"[:120])
                yield {'name': f"native_selection|{what}|branch={br}|unit={unit or 'stored'}", 'ok': not probs, 'detail': '; '.join(probs[:2])}
    # the limits handed over as a tuple, a list or a numpy array select the same points (point and model isotherms)
    import pygaps.modelling as pgm
    mi = pygaps.ModelIsotherm(model=pgm.get_isotherm_model('Langmuir', parameters={'K': 2.0, 'n_m': 5.0}, pressure_range=(0.5, 6.0), loading_range=(2.5, 4.6), rmse=0.0),
                              material='pgv_c03', adsorbate='nitrogen', temperature=77.355, pressure_mode='absolute', pressure_unit='bar', loading_basis='molar',
                              loading_unit='mmol', material_basis='mass', material_unit='g', temperature_unit='K')
    for kind_, obj in (('point', iso), ('model', mi)):
        for what in ('pressure', 'loading'):
            lim = (2.5, 5.0) if (what == 'pressure' or kind_ == 'point') else (3.0, 4.4)
            probs = []
            try:
                ref = numpy.asarray(getattr(obj, what)(limits=lim), dtype=float)
                for fname, conv in (('list', list), ('array', numpy.asarray)):
                    try:
                        got = numpy.asarray(getattr(obj, what)(limits=conv(lim)), dtype=float)
                        if got.shape != ref.shape or not numpy.allclose(got, ref, rtol=1e-12):
                            probs.append(f"limits as {fname}: {got}, as tuple: {ref}")
                    except Exception as exc:
                        probs.append(f"limits as {fname}: {type(exc).__name__}: {exc}"[:120])
            except Exception as exc:
                probs.append(f"{type(exc).__name__}: {exc}"[:120])
            yield {'name': f"native_selection|{what}|limits_as_list_or_array|{kind_}", 'ok': not probs, 'detail': '; '.join(probs[:2])}


@replayer('c03.native_selection')
def _native_selection(spec, model):
    for r in native_selection_cases():
        if r['name'] == spec['name']:
            return {'confirmed': not r['ok'], 'observed': r['detail'], 'expected': 'exactly the stored points of the branch inside the limits, in measurement order'}
    return {'confirmed': False, 'error': 'case not found'}


def model_limit_cases():
    """limits on the points a model isotherm generates: a limit that is exactly zero is a limit (points on a limit may fall on
    either side -- the property does not say); one-sided limits leave the other side open"""
    import pygaps
    import pygaps.modelling as pgm
    pygaps.logger.disabled = True
    m = pgm.get_isotherm_model('Henry', parameters={'K': 2.0}, pressure_range=(0.0, 1.0), loading_range=(0.0, 2.0), rmse=0.0)
    iso = pygaps.ModelIsotherm(model=m, material='pgv_c03', adsorbate='nitrogen', temperature=77.355, pressure_mode='absolute', pressure_unit='bar',
                               loading_basis='molar', loading_unit='mmol', material_basis='mass', material_unit='g', temperature_unit='K')
    grid = numpy.linspace(0, 1, 11)
    for what, f, full in (('pressure', lambda lim: iso.pressure(points=11, limits=lim), grid), ('loading', lambda lim: iso.loading(points=11, limits=lim), 2 * grid)):
        for lim in ((None, 0.0), (0.0, None), (0.0, 0.0), (0.25 * full[-1], None), (None, 0.55 * full[-1]), (0.25 * full[-1], 0.55 * full[-1])):
            lo = -numpy.inf if lim[0] is None else lim[0]
            hi = numpy.inf if lim[1] is None else lim[1]
            must = full[(full > lo) & (full < hi)]
            may = full[(full >= lo) & (full <= hi)]
            try:
                got = numpy.asarray(f(lim), dtype=float)
                ok = all(numpy.any(numpy.isclose(got, x)) for x in must) and all(numpy.any(numpy.isclose(may, x)) for x in got)
                detail = '' if ok else f"returned {got}; points strictly inside {must}, inside or on the limits {may}"
            except Exception as exc:
                ok, detail = False, f"{type(exc).__name__}: {exc}"[:120]
            yield {'name': f"model_isotherm_limits|{what}|{lim}", 'ok': bool(ok), 'detail': detail}


@replayer('c03.model_limits')
def _model_limits(spec, model):
    for r in model_limit_cases():
        if r['name'] == spec['name']:
            return {'confirmed': not r['ok'], 'observed': r['detail'], 'expected': 'the generated points inside the limits'}
    return {'confirmed': False, 'error': 'case not found'}


@replayer('c03.stored_format')
def _stored_format(spec, model):
    for r in stored_format_cases():
        if r['name'] == spec['name']:
            return {'confirmed': not r['ok'], 'observed': r['detail'], 'expected': 'same numbers as for the data stored as floats'}
    return {'confirmed': False, 'error': 'case not found'}


@replayer('c03.interpolation')
def _interpolation(spec, model):
    for r in interpolation_cases():
        if r['name'] == spec['name']:
            return {'confirmed': not r['ok'], 'observed': r['detail'], 'expected': 'data at measured points, straight line between, refusal outside, same as converted copy'}
    return {'confirmed': False, 'error': 'case not found'}


def query_form_cases():
    """query points handed over in every documented form (a number, a Python list, a tuple, a numpy array, a pandas Series; whole
    numbers as ints) and in a foreign unit, mode or basis: the answer is the one a permanently converted copy gives natively"""
    import pandas
    import pygaps
    pygaps.logger.disabled = True
    meta = dict(material='pgv_c03', adsorbate='nitrogen', temperature=77.355, loading_basis='molar', loading_unit='mmol', material_basis='mass', material_unit='g',
                temperature_unit='K')
    P, L, B = [0.1, 0.2, 0.4, 0.8, 0.7, 0.3], [1.0, 2.0, 4.0, 6.0, 5.8, 4.2], [0, 0, 0, 0, 1, 1]
    stored = {'bar': pygaps.PointIsotherm(pressure=P, loading=L, branch=B, pressure_mode='absolute', pressure_unit='bar', **meta),
              'relative%': pygaps.PointIsotherm(pressure=[10.0, 20.0, 40.0, 80.0, 70.0, 30.0], loading=L, branch=B, pressure_mode='relative%', pressure_unit=None, **meta)}
    forms = {'list': list, 'tuple': tuple, 'array': numpy.asarray, 'series': pandas.Series}
    queries = {
        ('bar', 'loading_at', (('pressure_unit', 'kPa'),), 'ads'): ([15.0, 50.0], dict(unit_to='kPa'), None),
        ('bar', 'loading_at', (('pressure_unit', 'kPa'),), 'des'): ([40.0, 60.0], dict(unit_to='kPa'), None),
        ('relative%', 'loading_at', (('pressure_mode', 'relative'),), 'ads'): ([0.15, 0.5], dict(mode_to='relative'), None),
        ('bar', 'pressure_at', (('loading_unit', 'mol'),), 'ads'): ([0.0015, 0.005], None, dict(unit_to='mol')),
        ('bar', 'pressure_at', (('material_unit', 'kg'),), 'ads'): ([1500.0, 5000.0], None, 'material:kg'),
        ('bar', 'loading_at', (('pressure_unit', 'Pa'),), 'ads'): ([15000, 50000], dict(unit_to='Pa'), None),  # whole numbers as ints
    }
    for (sk, meth, kw, br), (pts, pconv, lconv) in queries.items():
        iso = stored[sk]
        cp = _copy(iso)
        if pconv:
            cp.convert_pressure(**pconv)
        if isinstance(lconv, dict):
            cp.convert_loading(**lconv)
        elif lconv == 'material:kg':
            cp.convert_material(unit_to='kg')
        want = numpy.asarray(getattr(cp, meth)(numpy.asarray(pts, dtype=float), branch=br), dtype=float)
        # (the answer comes in the stored representation of the other quantity, which the copy still has)
        probs = []
        for fname, conv in forms.items():
            try:
                got = numpy.asarray(getattr(iso, meth)(conv(pts), branch=br, **dict(kw)), dtype=float).ravel()
                if got.shape != want.shape or not numpy.allclose(got, want, rtol=1e-9, atol=0):
                    probs.append(f"{fname}: {got[:4]}{' ...' if got.size > 4 else ''} ({got.size} values), converted copy {want}")
            except Exception as exc:
                probs.append(f"{fname}: {type(exc).__name__}: {exc}"[:120])
        try:
            one = numpy.asarray([float(numpy.asarray(getattr(iso, meth)(q, branch=br, **dict(kw)), dtype=float).ravel()[0]) for q in pts])
            if not numpy.allclose(one, want, rtol=1e-9, atol=0):
                probs.append(f"one number at a time: {one}, converted copy {want}")
        except Exception as exc:
            probs.append(f"one number at a time: {type(exc).__name__}: {exc}"[:120])
        label = ','.join(f"{k}={v}" for k, v in kw)
        yield {'name': f"query_form|{sk}|{meth}({label})|{br}|{'ints' if isinstance(pts[0], int) else 'floats'}", 'ok': not probs, 'detail': '; '.join(probs[:3])[:400]}


@replayer('c03.query_form')
def _query_form(spec, model):
    for r in query_form_cases():
        if r['name'] == spec['name']:
            return {'confirmed': not r['ok'], 'observed': r['detail'], 'expected': 'the values a permanently converted copy gives natively, for every form of the argument'}
    return {'confirmed': False, 'error': 'case not found'}
