"""Symbolic PointIsotherm instances for SX: the *real class*, made with object.__new__, whose fields
hold symbolic data (column store of object arrays), enumerated labels and contract stubs for the
adsorbate / material.  Also: validity oracle = the real constructor, snapshots, RI spec helpers."""
from __future__ import annotations

import functools

import numpy

from pgv import lift, spec_si as S, stubs, sx

LABELS = ('pressure_mode', 'pressure_unit', 'loading_basis', 'loading_unit', 'material_basis', 'material_unit',
          'temperature_unit')

_PREP = {}


def prepare():
    """Lift tables and the converter functions *inside the modules that use them* (once per process)."""
    if _PREP:
        return _PREP
    import pygaps
    import pygaps.core.baseisotherm as B
    import pygaps.core.pointisotherm as PI
    import pygaps.units.converter_mode as cm
    import pygaps.units.converter_unit as cu
    from pygaps.utilities import exceptions as E
    pygaps.logger.disabled = True
    lift.lift_tables(cu)
    fns = {n: lift.lifted_source_function(getattr(cm, n)) for n in ('c_pressure', 'c_loading', 'c_material', 'c_temperature')}
    cm.c_unit = lift.lifted_source_function(cu.c_unit)
    for n, f in fns.items():
        setattr(cm, n, f)
    PI.c_pressure, PI.c_loading, PI.c_material = fns['c_pressure'], fns['c_loading'], fns['c_material']
    B.c_temperature = fns['c_temperature']
    T = S.Tables(cu._PRESSURE_UNITS, cu._MOLAR_UNITS, cu._MASS_UNITS, cu._VOLUME_UNITS)
    _PREP.update(pygaps=pygaps, B=B, PI=PI, cm=cm, cu=cu, E=E, T=T, fns=fns)
    return _PREP


@functools.lru_cache(maxsize=None)
def valid_labels(pm, pu, lb, lu, mb, mu, tu):
    """Validity oracle: would the real constructor accept these labels?  (native run of BaseIsotherm.__init__)"""
    st = prepare()
    try:
        st['B'].BaseIsotherm(material='pgv_valid_m', adsorbate='pgv_valid_a', temperature=300,
                             pressure_mode=pm, pressure_unit=pu, loading_basis=lb, loading_unit=lu,
                             material_basis=mb, material_unit=mu, temperature_unit=tu)
        return True
    except st['E'].pgError:
        return False
    except Exception:
        return False


def labels_of(iso):
    return tuple(getattr(iso, k) for k in LABELS)


class Sentinel:
    def __init__(self, name):
        self.name = name

    def __repr__(self):
        return f"<{self.name}>"


def make_iso(eng, labels, n=2, ads_fail=(), extra_fields=None, cls=None, frame=False, branch=None, index=None):
    """A PointIsotherm with symbolic data.  labels: dict over LABELS."""
    st = prepare()
    cls = cls or st['PI'].PointIsotherm
    iso = object.__new__(cls)
    ads = stubs.AdsorbateStub(stubs.sym_ads(eng), st['T'], fail=ads_fail)
    mat = stubs.MaterialStub(stubs.sym_mat(eng))
    iso._adsorbate = ads
    iso._material = mat
    iso._temperature = eng.real('T_raw')
    for k in LABELS:
        setattr(iso, k, labels[k])
    # the isotherm temperature must be positive in kelvin
    if labels['temperature_unit'] == 'K':
        eng.assume(iso._temperature.e > 0)
    else:
        eng.assume((iso._temperature + S.F('273.15')).e > 0)
    p = numpy.empty(n, dtype=object)
    l = numpy.empty(n, dtype=object)
    for i in range(n):
        p[i] = eng.real(f'p{i}')
        l[i] = eng.real(f'l{i}')
    br = numpy.array([stubs.Token(f'branch{i}') for i in range(n)], dtype=object)
    ex = numpy.array([stubs.Token(f'extra{i}') for i in range(n)], dtype=object)
    iso.pressure_key = 'pressure'
    iso.loading_key = 'loading'
    if frame:
        from pgv import pdstub
        brc = list(branch) if branch is not None else [0] * n
        iso.data_raw = pdstub.FrameStub({'pressure': list(p), 'loading': list(l), 'branch': brc, 'extra': list(ex)}, index)
    else:
        iso.data_raw = stubs.ColumnStore({'pressure': p, 'loading': l, 'branch': br, 'extra': ex})
    iso.properties = {'meta1': stubs.Token('meta1'), 'meta2': 5}
    iso.l_interpolator = Sentinel('cached_l_interpolator')
    iso.p_interpolator = Sentinel('cached_p_interpolator')
    for k, v in (extra_fields or {}).items():
        setattr(iso, k, v)
    # every other slot the constructors of the class leave at None (read mechanically from the `self.x = None` statements of the
    # `__init__` methods in the class hierarchy, on every run): an instance made here is in the state `__init__` would have left it in,
    # also when a change adds such a slot -- whether the code then keeps it consistent is what the history clauses decide
    for k in _none_slots(cls):
        if not hasattr(iso, k):
            setattr(iso, k, None)
    return iso


_NONE_SLOTS = {}


def _none_slots(cls):
    if cls in _NONE_SLOTS:
        return _NONE_SLOTS[cls]
    import ast
    import inspect
    import textwrap
    out = []
    for klass in cls.__mro__:
        init = vars(klass).get('__init__')
        if init is None or klass is object:
            continue
        try:
            tree = ast.parse(textwrap.dedent(inspect.getsource(init)))
        except (OSError, TypeError, SyntaxError):
            continue
        for node in ast.walk(tree):
            if isinstance(node, ast.Assign) and isinstance(node.value, ast.Constant) and node.value.value is None:
                for tgt in node.targets:
                    if isinstance(tgt, ast.Attribute) and isinstance(tgt.value, ast.Name) and tgt.value.id == 'self' and tgt.attr not in out:
                        out.append(tgt.attr)
    _NONE_SLOTS[cls] = out
    return out


def snapshot(iso):
    d = dict(vars(iso))
    d['properties'] = dict(iso.properties)
    d['__data__'] = {k: (list(v) if isinstance(v, numpy.ndarray) else v) for k, v in iso.data_raw.cols.items()}
    d['__data_obj__'] = iso.data_raw
    return d


def same_value(a, b):
    """-> True/False/SymBool"""
    if a is b:
        return True
    if isinstance(a, (sx.SymReal, sx.NaNValue)) or isinstance(b, (sx.SymReal, sx.NaNValue)):
        try:
            return sx.eq(a, b)
        except sx.Unsupported:
            return False
    if isinstance(a, (list, numpy.ndarray)) and isinstance(b, (list, numpy.ndarray)):
        if len(a) != len(b):
            return False
        parts = [same_value(x, y) for x, y in zip(a, b)]
        if any(p is False for p in parts):
            return False
        sym = [p for p in parts if p is not True]
        return sx.And(*sym) if sym else True
    try:
        return bool(a == b)
    except Exception:
        return False


def unchanged(old, iso, except_fields=(), except_cols=()):
    """list of (what, condition) -- every field / column equal to the snapshot"""
    out = []
    new = snapshot(iso)
    for k in sorted(set(old) | set(new)):
        if k in ('__data__', '__data_obj__') or k in except_fields:
            continue
        if k not in old or k not in new:
            out.append((f"field:{k}", False))
            continue
        out.append((f"field:{k}", same_value(old[k], new[k])))
    out.append(('data_object', new['__data_obj__'] is old['__data_obj__']))
    oc, nc = old['__data__'], new['__data__']
    out.append(('columns', list(oc) == list(nc)))
    for c in oc:
        if c in except_cols or c not in nc:
            continue
        out.append((f"column:{c}", same_value(oc[c], nc[c])))
    return out


def conj(conds):
    parts = [c for (_w, c) in conds]
    if any(p is False for p in parts):
        return False
    sym = [p for p in parts if p is not True]
    return sx.And(*sym) if sym else True


def first_false(conds):
    return [w for (w, c) in conds if c is False]


# ---- spec helpers ---------------------------------------------------------------

def _mu_for_spec(lb, mb, mu):
    """in fraction/percent the material unit cancels: any unit of the basis may stand in when it is unset"""
    if lb in ('fraction', 'percent') and mb in S.MATERIAL_BASES and mu not in S.MATERIAL_BASES[mb]:
        return next(iter(S.MATERIAL_BASES[mb]))
    return mu


def canon_p_of(v, labels, ads, T):
    return S.canon_p(v, labels[0], labels[1], ads, T)


def canon_l_of(v, labels, ads, mat, T):
    lb, lu, mb, mu = labels[2], labels[3], labels[4], labels[5]
    return S.canon_l(v, lb, lu, mb, _mu_for_spec(lb, mb, mu), ads, mat, T)


def kelvin_of(t, tu):
    return S.kelvin(t, tu)
