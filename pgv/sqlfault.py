"""Fault-injecting, recording proxy for the `sqlite3` module used by pygaps.parsing.sqlite.

The real sqlite3 library does the work on a real database file; the proxy
  * records the protocol trace (connect / cursor / execute#k / commit / rollback / close),
  * injects one fault according to a plan: statement k raises IntegrityError / InterfaceError /
    OperationalError, or the process "dies" before / after statement k or around commit,
  * on death copies the database file together with its journal at that instant (what the disk would hold
    after a crash); an independent connection to the copy lets sqlite run its own crash recovery.
After death every later call on the proxies is a no-op (nothing runs after a real process exit).
"""
from __future__ import annotations

import os
import shutil
import sqlite3 as real

TABLES = ['adsorbates', 'adsorbate_properties', 'adsorbate_properties_type', 'materials', 'material_properties',
          'material_properties_type', 'isotherms', 'isotherm_type', 'isotherm_properties', 'isotherm_properties_type', 'isotherm_data']


class Die(BaseException):
    """abrupt process exit at this instant"""


class Plan:
    def __init__(self, at=None, kind=None):
        self.at = at  # statement index (int) or 'commit'
        self.kind = kind

    def __repr__(self):
        return f"fault@{self.at}:{self.kind}" if self.kind else "no-fault"


class Recorder:
    def __init__(self, crash_dir=None):
        self.events = []
        self.n_exec = 0
        self.dead = False
        self.crash_dir = crash_dir
        self.crash_copy = None
        self.connections = []

    def snapshot_crash(self, path):
        dst = os.path.join(self.crash_dir, 'crash.db')
        shutil.copyfile(path, dst)
        for suf in ('-journal', '-wal', '-shm'):
            if os.path.exists(path + suf):
                shutil.copyfile(path + suf, dst + suf)
        self.crash_copy = dst


class _Cur:
    def __init__(self, conn, cur):
        self._c = conn
        self._cur = cur

    def execute(self, sql, params=()):
        rec, plan = self._c.rec, self._c.plan
        if rec.dead:
            return self
        if sql.strip().upper().startswith('PRAGMA'):
            rec.events.append(('pragma', sql))
            self._cur.execute(sql, params)
            return self
        k = rec.n_exec
        rec.n_exec += 1
        hit = plan.kind is not None and plan.at == k
        if hit and plan.kind in ('IntegrityError', 'InterfaceError', 'OperationalError'):
            rec.events.append(('execute!', k, plan.kind, sql))
            raise getattr(real, plan.kind)(f"injected {plan.kind} at statement {k}")
        if hit and plan.kind == 'die_before':
            rec.snapshot_crash(self._c.path)
            rec.dead = True
            rec.events.append(('die', k, 'before'))
            raise Die()
        rec.events.append(('execute', k, sql))
        self._cur.execute(sql, params)
        if hit and plan.kind == 'die_after':
            rec.snapshot_crash(self._c.path)
            rec.dead = True
            rec.events.append(('die', k, 'after'))
            raise Die()
        return self

    def executemany(self, sql, seq):
        for p in seq:
            self.execute(sql, p)
        return self

    def executescript(self, script):
        self._c.rec.events.append(('executescript', script[:40]))
        return self._cur.executescript(script)

    def fetchone(self):
        return self._cur.fetchone()

    def fetchall(self):
        return self._cur.fetchall()

    def __iter__(self):
        return iter(self._cur)

    @property
    def lastrowid(self):
        return self._cur.lastrowid

    @property
    def rowcount(self):
        return self._cur.rowcount


class _Conn:
    def __init__(self, path, rec, plan, **kw):
        self.path = path
        self.rec = rec
        self.plan = plan
        self._conn = real.connect(path, **kw)
        rec.connections.append(self)
        rec.events.append(('connect', path))

    def __setattr__(self, k, v):
        if k == 'row_factory':
            self._conn.row_factory = v
        elif k == 'isolation_level':
            self.rec.events.append(('isolation_level', v))
            self._conn.isolation_level = v
        else:
            object.__setattr__(self, k, v)

    def cursor(self):
        if self.rec.dead:
            return _Cur(self, None)
        self.rec.events.append(('cursor',))
        return _Cur(self, self._conn.cursor())

    def commit(self):
        rec, plan = self.rec, self.plan
        if rec.dead:
            return
        hit = plan.kind is not None and plan.at == 'commit'
        if hit and plan.kind == 'die_before':
            rec.snapshot_crash(self.path)
            rec.dead = True
            rec.events.append(('die', 'commit', 'before'))
            raise Die()
        if hit and plan.kind in ('OperationalError',):
            rec.events.append(('commit!', plan.kind))
            raise real.OperationalError("injected OperationalError at commit")
        rec.events.append(('commit',))
        self._conn.commit()
        if hit and plan.kind == 'die_after':
            rec.snapshot_crash(self.path)
            rec.dead = True
            rec.events.append(('die', 'commit', 'after'))
            raise Die()

    def rollback(self):
        if self.rec.dead:
            return
        self.rec.events.append(('rollback',))
        self._conn.rollback()

    def close(self):
        if self.rec.dead:
            # the OS closes the file without running any application code; drop our handle without commit
            try:
                self._conn.close()
            except Exception:
                pass
            return
        self.rec.events.append(('close',))
        self._conn.close()

    def execute(self, sql, params=()):
        return self.cursor().execute(sql, params)

    def __enter__(self):
        return self

    def __exit__(self, et, ev, tb):
        if et is None:
            self.commit()
        else:
            self.rollback()
        return False


class Sqlite3Proxy:
    """module-like object placed in pygaps.parsing.sqlite.sqlite3"""

    def __init__(self, rec, plan):
        self.rec = rec
        self.plan = plan
        for n in ('Error', 'IntegrityError', 'InterfaceError', 'OperationalError', 'DatabaseError', 'ProgrammingError', 'Row', 'Cursor', 'Connection'):
            setattr(self, n, getattr(real, n))

    def connect(self, path, **kw):
        return _Conn(str(path), self.rec, self.plan, **kw)


def dump(path):
    """full content of every table through an independent connection (sqlite performs crash recovery on open)"""
    conn = real.connect(path)
    try:
        out = {}
        for t in TABLES:
            try:
                out[t] = [tuple(r) for r in conn.execute(f'SELECT * FROM "{t}" ORDER BY rowid')]
            except real.OperationalError:
                out[t] = None
        return out
    finally:
        conn.close()


def check_protocol(events):
    """transaction protocol of one top-level call.  Returns list of violated clauses."""
    bad = []
    kinds = [e[0] for e in events]
    if kinds.count('connect') != 1:
        bad.append(f"expected exactly one connect, saw {kinds.count('connect')} (a nested call opened its own connection?)")
    if kinds.count('commit') > 1:
        bad.append(f"{kinds.count('commit')} commits")
    if 'executescript' in kinds:
        bad.append("executescript (commits implicitly) used in a write operation")
    if 'isolation_level' in kinds:
        bad.append("isolation level changed")
    # the all-or-nothing argument for process death rests on SQLite's default on-disk rollback journal and full
    # synchronisation: the only setting a write operation may touch is the foreign-key enforcement
    for e in events:
        if e[0] == 'pragma' and ''.join(str(e[1]).lower().split()).rstrip(';') not in ('pragmaforeign_keys=on', 'pragmaforeign_keys=1'):
            bad.append(f"connection setting changed inside a write operation: {str(e[1]).strip()[:60]}")
        if e[0] in ('execute', 'execute!') and isinstance(e[-1], str) and e[-1].strip().upper().startswith(
                ('SAVEPOINT', 'RELEASE', 'ROLLBACK', 'BEGIN', 'END', 'COMMIT', 'ATTACH', 'DETACH', 'VACUUM')):
            bad.append(f"transaction control statement issued by hand: {e[-1].strip()[:60]}")
    if 'commit' in kinds:
        i = kinds.index('commit')
        if any(k in ('execute', 'execute!') for k in kinds[i + 1:]):
            bad.append("statement executed after commit")
        if any(k == 'execute!' for k in kinds[:i]):
            bad.append("commit after a failed statement")
    died = 'die' in kinds
    if not died and kinds.count('connect') >= 1 and kinds.count('close') != kinds.count('connect'):
        bad.append("connection not closed")
    return bad
