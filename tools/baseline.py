#!/usr/bin/env python3
"""Run the pinned suite on a tree (default /repo) and compare with BASELINE.json stable_pass."""
import json, subprocess, sys, os, tempfile
import xml.etree.ElementTree as ET
repo = sys.argv[1] if len(sys.argv) > 1 else '/repo'
out = tempfile.mktemp(suffix='.xml', dir='/tmp')
env = dict(os.environ, PYTHONPATH=f"{repo}/src", PYTHONDONTWRITEBYTECODE='1')
env.pop('PYGAPS_VERIF', None)
p = subprocess.run(['/venv/bin/python', '-m', 'pytest', '-q', '-p', 'no:cacheprovider', '--timeout=900',
                    '--continue-on-collection-errors', f'--junitxml={out}', '-x' if False else '-q'],
                   cwd=repo, env=env, capture_output=True, text=True)
base = json.load(open('/root/.vp/BASELINE.json'))
want = set(base['stable_pass'])
passed = set()
for tc in ET.parse(out).getroot().iter('testcase'):
    name = f"{tc.get('classname')}::{tc.get('name')}"
    if not any(c.tag in ('failure', 'error', 'skipped') for c in tc):
        passed.add(name)
os.unlink(out)
missing = sorted(want - passed)
print(f"passed={len(passed)} baseline={len(want)} baseline_missing={len(missing)} newly_passing={len(passed - want)}")
for m in missing[:40]:
    print("  MISSING", m)
sys.exit(1 if missing else 0)
