#!/bin/sh
# tools/runall.sh [--update-ledger] [tier]  -- run every registered check on /repo, print the summary lines
cd "$(dirname "$0")/.."
UL=""; [ "$1" = "--update-ledger" ] && { UL="--update-ledger"; shift; }
TIER=${1:-quick}
rc=0
for id in $(.venv/bin/python -c "import json; print(' '.join(c['property_id'] for c in json.load(open('MANIFEST.json'))['checks']))"); do
  ./check $id --tier $TIER $UL > scratch/$id.log 2>&1; r=$?
  tail -1 scratch/$id.log | cut -c1-200
  [ $r -ne 0 ] && { rc=1; grep -E "^(VIOLATION|UNDECIDED|CHECKER-ERROR)" scratch/$id.log | head -5 | cut -c1-300; }
done
.venv/bin/python - <<'PY'
import json, jsonschema, glob
sch = json.load(open('/root/.vp/EVIDENCE.schema.json'))
man = json.load(open('MANIFEST.json'))
for c in man['checks']:
    d = json.load(open(c['evidence_file']))
    jsonschema.validate(d, sch)
    if d['level'] != c['level_claimed']['category']:
        print("LEVEL MISMATCH", c['property_id'], d['level'], c['level_claimed']['category'])
print("evidence files validated")
PY
exit $rc
