#!/bin/sh
# tools/seedreplay.sh [seed-name ...]
# Regression run of the checks against the kept seeded changes: for every seeded/<name>/ (or the ones named) a scratch
# worktree of /repo's HEAD is created under /tmp, patch.diff applied (seeds whose patch no longer applies are reported and
# skipped), the check of the property the seed breaks is run against it (quick tier) and must exit 1; the worktree is removed.
cd /verif
NAMES="$@"
[ -z "$NAMES" ] && NAMES=$(ls seeded)
FAIL=0
for N in $NAMES; do
  D=seeded/$N
  [ -f $D/patch.diff ] || continue
  P=$(python3 -c "import json;print(json.load(open('$D/meta.json'))['breaks_property'])" 2>/dev/null)
  [ -z "$P" ] && P=$(echo $N | cut -c1-3)
  WT=$(mktemp -d /tmp/pgv-seed.XXXXXX)/wt
  git -C /repo worktree add -q --detach $WT HEAD || { echo "$N: cannot create worktree"; FAIL=1; continue; }
  cp /repo/src/pygaps/_version.py $WT/src/pygaps/_version.py 2>/dev/null
  if git -C $WT apply /verif/$D/patch.diff 2>/dev/null; then
    OUT=$(mktemp -d /tmp/pgv-seedout.XXXXXX)
    PGV_REPO=$WT PGV_OUT=$OUT timeout -k 5 2400 ./check $P > $OUT/log 2>&1; RC=$?
    NV=$(grep -c "^VIOLATION" $OUT/log)
    if [ $RC -eq 1 ] && [ $NV -gt 0 ]; then echo "$N: reported by $P ($NV VIOLATION lines)"; else echo "$N: NOT reported by $P (exit $RC)"; FAIL=1; fi
    rm -rf $OUT
  else
    echo "$N: patch does not apply to the current tree (skipped)"
  fi
  git -C /repo worktree remove --force $WT; rmdir $(dirname $WT) 2>/dev/null
done
exit $FAIL
