#!/bin/sh
# tools/seedcheck.sh <seed-name> <worktree> <property> [more properties]
# (git stash is shared between worktrees, so the change is toggled with git apply -R / git apply)
# Confirms a seeded change (demo fails with it / passes without it / pinned tests pass) and runs the checks against it.
NAME=$1; WT=$2; shift 2
OUT=/verif/seeded/$NAME
mkdir -p $OUT
git -C $WT diff > $OUT/patch.diff
cp $WT/demo.py $OUT/demo.py 2>/dev/null
cd $WT
PYTHONPATH=$WT/src /venv/bin/python demo.py > $OUT/demo_with_change.log 2>&1; RC_WITH=$?
git apply -R $OUT/patch.diff
PYTHONPATH=$WT/src /venv/bin/python demo.py > $OUT/demo_without_change.log 2>&1; RC_WITHOUT=$?
git apply $OUT/patch.diff
BASE=$(/venv/bin/python /verif/tools/baseline.py $WT 2>&1 | tail -1)
echo "demo with change: exit $RC_WITH; without: exit $RC_WITHOUT; baseline: $BASE"
cd /verif
RES=""
for P in "$@"; do
  rm -rf /tmp/seedout.$$; 
  PGV_REPO=$WT PGV_OUT=/tmp/seedout.$$ timeout -k 5 2400 ./check $P > $OUT/check_$P.log 2>&1; RC=$?
  NV=$(grep -c "^VIOLATION" $OUT/check_$P.log)
  FIRST=$(grep "^  obligation" $OUT/check_$P.log | head -2 | cut -c1-220)
  echo "check $P: exit $RC, VIOLATION lines: $NV"; echo "$FIRST"
  RES="$RES $P:exit$RC:viol$NV"
  rm -rf /tmp/seedout.$$
done
echo "{\"demo_exit_with_change\": $RC_WITH, \"demo_exit_without_change\": $RC_WITHOUT, \"baseline\": \"$BASE\", \"checks\": \"$RES\"}" > $OUT/result.json
