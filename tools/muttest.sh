#!/bin/sh
# tools/muttest.sh <prop> <file-relative-to-repo> <python-replace-old> <python-replace-new>
# applies one textual edit to a scratch copy of /repo (never /repo itself) and runs the check against it
set -e
PROP=$1; FILE=$2; OLD=$3; NEW=$4
D=$(mktemp -d /tmp/pgv-mut.XXXXXX)
git -C /repo worktree add -q --detach "$D/wt" HEAD
cp /repo/src/pygaps/_version.py "$D/wt/src/pygaps/_version.py"
python3 - "$D/wt/$FILE" "$OLD" "$NEW" <<'PY'
import sys
p, old, new = sys.argv[1:4]
s = open(p).read()
assert old in s, f"pattern not found: {old!r}"
open(p, 'w').write(s.replace(old, new, 1))
PY
cd /verif
PGV_REPO="$D/wt" PGV_OUT="$D/out" timeout -k 5 1200 ./check "$PROP" > "$D/log" 2>&1 || true
grep -E "^(VIOLATION|UNDECIDED|CHECKER-ERROR|KNOWN|C[0-9]+ \[)" "$D/log" | cut -c1-260 | head -${MUT_LINES:-6} | grep . || tail -5 "$D/log"
git -C /repo worktree remove --force "$D/wt"
rm -rf "$D"
