#!/usr/bin/env python3
"""Generate MANIFEST.json from the table below and validate it against the schema."""
import json
import os
import sys

ROOT = os.path.dirname(os.path.dirname(os.path.abspath(__file__)))

CHECKS = {
    'C01': dict(
        category='proof',
        text="Every c_* converter and Adsorbate getter is executed symbolically (real code objects on z3 reals) for every "
             "configuration of units/modes/bases incl. invalid arguments; each path's result is proved equal to an "
             "independent SI specification for all values and all adsorbate/material constants; table literals are "
             "checked against SI to the last digit written. Complete over values, exhaustive over configurations.",
        design_ref='§3 C01, Appendix A.1',
        note="Assumes: binary64 treated as real arithmetic (literals = the decimals they spell); CoolProp AbstractState "
             "contract (stub); element-wise lifting to arrays (object arrays of length 2 executed). Trusted: CPython, z3, "
             "pgv.sx/pgv.lift. Known findings: same-representation calls with an omitted target unit return the value.",
        technique="symbolic execution of the real functions + z3 (contracts vs independent SI spec)"),
    'C02': dict(
        category='proof',
        text="Representation invariant RI (labels accepted by the real constructor; data = SI ghost / factor(labels)) is proved "
             "to be preserved by convert_pressure/convert_loading/convert_material/convert_temperature for every start "
             "configuration x argument tuple (omitted, repeated, impossible targets included) with symbolic data; refusals are "
             "proved to leave every field unchanged; convert() is verified modularly against the three contracts. Induction "
             "over histories follows from the preserved invariant.",
        design_ref='§3 C02, Appendix A.2',
        note="Assumes: DataFrame column store contract (ColumnStore stub, 2 symbolic rows), adsorbate/material contract stubs, "
             "real arithmetic for floats, induction over histories as meta-argument. c_* bodies are inlined (real, lifted).",
        technique="symbolic execution of the real methods on object.__new__ instances + z3; invariant preservation"),
    'C03': dict(
        category='proof',
        text="Accessor contract: every number returned by pressure/loading/pressure_at/loading_at (both isotherm classes) "
             "has the same SI value under the (documented completion of the) requested representation as the stored "
             "datum under the stored one -- proved by symbolic execution for stored x requested representations with "
             "symbolic data; quantities supplied in foreign units reach the interpolator/model in the stored "
             "representation; incomplete or invalid requests are refused. Branch/limit selection, interpolator call site, "
             "interp1d-linear clauses and split_ads_data (n<=5, five row labelings) are shape-bounded obligations.",
        design_ref='§3 C03, Appendix A.2',
        note="Assumes the pandas API contract of pgv.pdstub, the interp1d contract stub, models as uninterpreted functions, "
             "real arithmetic. Known findings: fraction/percent quantities combined with a material-basis request.",
        technique="symbolic execution of the real accessors + z3 against the SI spec; relational lemma to permanent conversion"),
    'C04': dict(
        category='proof',
        text="Frames: every accessor/interpolation/spreading-pressure call is proved (state snapshots under symbolic execution) "
             "to write nothing but the two interpolator caches; cache invisibility is proved relationally: the outcome of a query "
             "after any other catalogue query equals its outcome on a fresh isotherm, for all data and query values; a static "
             "modifies-clause checker proves that no characterisation/modelling/IAST/export entry point writes through its "
             "arguments or module state; Adsorbate getters depend on their own arguments only (typestate); module caches are "
             "keyed, loader-written and never written through. A bounded stand-in replays ordered query pairs on real isotherms.",
        design_ref='§3 C04, §2.4',
        note="Assumes pandas/interp1d/CoolProp contract stubs, purity of read-only library calls (listed), freshness of accessor "
             "results; the cache-invisibility pairs are shape-bounded (5 symbolic points). Induction over query histories from "
             "pairwise invisibility + frame is the meta-argument. Bounded part is reported separately.",
        technique="symbolic execution with state snapshots + relational obligations (z3); static AST frame analysis; bounded run-time pairs"),
    'C10': dict(
        category='proof',
        text="pressure(loading(p)) == p and conversely, the zero point, non-negativity, monotonicity (two-point form), the "
             "saturation bound and the Henry limit are discharged on the real model methods for all parameters inside the "
             "declared bounds and all pressures in the validity range: z3/nlsat for Henry, Langmuir, DS-Langmuir, BET, GAB, "
             "Quadratic, TemkinApprox (through the real sqrt/nan_to_num paths, scalars, 0-d and 1-d arrays), sympy for Freundlich, "
             "Toth, DR, DA, Jensen-Seaton, TS-Langmuir. Numerical inverses: the residual closure handed to scipy is proved to be "
             "forward(x)-target, failure raises CalculationError, the solver's x is returned. ModelIsotherm wrappers via the "
             "accessor contract.",
        design_ref='§3 C10',
        note="Assumes real arithmetic, numpy function contracts (npproxy), scipy.optimize contract stubs; sympy is trusted. "
             "Convergence of the numerical inverses is not decided. Known findings: degenerate parameter sets of BET/GAB/Quadratic.",
        technique="symbolic execution of the real model methods + z3 nlsat; sympy CAS on the same code objects; optimizer contract stubs"),
    'C11': dict(
        category='proof',
        text="For the 9 analytic models p*dPi/dp == loading(p) and Pi(0+) == 0 are proved with sympy on the real methods (hence Pi is "
             "the integral, additive and increasing, by the fundamental theorem of calculus); for the 4 quad-based models the call is "
             "proved to be quad(loading(x)/x, 0, p); for point isotherms the result is proved equal to the Henry segment plus the "
             "exact segment integrals of the linear interpolant (2..4 symbolic points, queries below/at/between/above, unit "
             "arguments); ModelIsotherm converts the argument by the C01 factor for every (input, stored) mode pair.",
        design_ref='§3 C11',
        note="Assumes the FTC lemma, quad and interp1d contracts, ln as uninterpreted function, real arithmetic; sympy trusted. "
             "Point-isotherm obligations are shape-bounded. Known finding: TemkinApprox constant of integration.",
        technique="sympy CAS on the real methods; symbolic execution + z3 for point isotherms and call sites"),
    'C13': dict(
        category='proof',
        text="The real iast_point / reverse_iast are executed symbolically for n = 2, 3, 4 components (the whole quantified range) on "
             "isotherm stubs with uninterpreted spreading pressure and loading: the residual handed to scipy.optimize.root is proved "
             "to be the spreading-pressure differences at the fictitious pressures, and on every returning path the fractions lie in "
             "[0,1] and sum to 1, all spreading pressures are equal, the ideal-mixing rule holds and loadings = x_i n_t; failures "
             "raise CalculationError. Closed forms (Henry, equal-capacity Langmuir), permutation symmetry and the shared equation "
             "system of forward/reverse IAST are z3 lemmas; the fraction/selectivity/VLE helpers are proved to return the stated "
             "functions of the point calculation.",
        design_ref='§3 C13',
        note="Modulo the scipy.optimize.root contract (success => residual = 0) and uniqueness of the IAST solution; solver "
             "convergence on real isotherms is a bounded supplement (reported separately).",
        technique="symbolic execution of the real IAST code on contract stubs + z3 (nlsat/UF); z3 lemmas for closed forms"),
    'C14': dict(
        category='proof',
        text="The real area_BET_raw, area_langmuir_raw, t_plot_raw, alpha_s_raw, da_plot_raw and find_limit_indices are executed "
             "symbolically on 3..4 (thorough: 6) strictly increasing pressures whose loadings are generated from the textbook "
             "governing equation with symbolic parameters; with linregress replaced by its exact-fit lemma every returning path "
             "is proved to give back C, n_m, p_m, K, area, slope/intercept, pore volume, V0 and E; the fitted window is proved to "
             "contain every point strictly inside the limits and none strictly outside, refusals happen only below three points, "
             "and the automatic BET window obeys Rouquerol. Logarithmic transform identities and the thickness equations are "
             "proved with sympy on the real helper functions.",
        design_ref='§3 C14',
        note="Modulo the linregress exact-fit lemma and numpy searchsorted/flatnonzero semantics (executed by real numpy on "
             "object arrays); shape-bounded in the number of points; real arithmetic; sympy trusted.",
        technique="symbolic execution of the real *_raw functions + z3 nlsat with a linregress contract stub; sympy for log transforms"),
    'C19': dict(
        category='proof',
        text="isosteric_enthalpy_raw is executed on symbolic rows ln p_j = -dH/(R T_j) + c for 2..5 distinct temperatures in any order "
             "(the whole quantified range): with the linregress exact-fit lemma every returned enthalpy is proved equal to dH; a "
             "sympy lemma shows that Langmuir/Toth/DS-Langmuir with van 't Hoff affinity produce such rows; isosteric_enthalpy is "
             "proved to request one common, complete loading and pressure representation from every isotherm and to pass kelvin "
             "temperatures; the Whittaker loop body is proved equal to the published closed form with the skip set and the "
             "triple-point cap; initial_enthalpy_point returns the first enthalpy of the branch.",
        design_ref='§3 C19',
        note="Modulo the linregress lemma, accessor contracts (C03) and adsorbate getter contracts; exp/ln uninterpreted with axioms; "
             "interpolation accuracy on densely sampled point isotherms is not decided here.",
        technique="symbolic execution of the real functions + z3 with linregress/adsorbate/isotherm contract stubs; sympy lemma"),
    'C09': dict(
        category='fault_enumeration',
        text="Every public write operation of the store runs on a real database file behind a recording, fault-injecting sqlite3 proxy; "
             "the space {operation} x {statement position k} x {IntegrityError, InterfaceError, OperationalError at k, death before/after "
             "k} plus {OperationalError, death before/after} at commit is enumerated exhaustively. After each fault an independent "
             "connection (sqlite performs its own crash recovery on the copied file+journal) must see the pre-state or the complete "
             "effect -- the latter only after commit -- and the operation must be repeatable. The transaction protocol (one connection, "
             "one cursor, single commit after the body, none after a failure, nested calls share the cursor) is an obligation on every "
             "trace and, statically, on every decorated body.",
        design_ref='§3 C09, §2.6',
        note="Single-fault hypothesis; sqlite journal semantics trusted (real library used); death emulated in-process by snapshotting "
             "file+journal (thorough tier adds real os._exit subprocess runs); prior content of the database: two fixed layouts.",
        technique="exhaustive fault enumeration on the real code with transaction-protocol contracts checked per trace + static body contracts"),
    'C16': dict(
        category='proof',
        text="The real pyGAPS-DH (slit/cylinder/sphere), BJH and Dollimore-Heal recurrences are executed on symbolic volume/pressure "
             "arrays of 2..5 points with arbitrary increasing thickness and Kelvin functions: reported widths are proved to be "
             "2(r_K+t) at consecutive measured pressures and increasing, distribution x width increment == pore volume; with the real "
             "zero-thickness model pore volumes are proved to be the successive volume increments (sum = total change) and a single "
             "step gives a single peak; psd_mesoporous is proved to request liquid volume / relative pressure, to select the points "
             "inside the limits and to end the cumulative curve at the volume at the highest pressure used; Kelvin equations, the KJS "
             "offset and the meniscus table are checked against the published forms (sympy / exhaustive).",
        design_ref='§3 C16',
        note="Shape-bounded (n <= 5, thorough 6); numpy array primitives executed by real numpy on object arrays; sympy trusted; real "
             "thickness models other than zero are arbitrary functions here.",
        technique="symbolic execution of the real recurrences + z3; sympy for the Kelvin equations"),
    'C17': dict(
        category='other',
        text="Contract-level obligations (discharged): the slit-pore potential closure built inside psd_horvath_kawazoe is captured and "
             "proved equal to the published Horvath-Kawazoe equation for all widths and parameters (sympy polynomial normal form after "
             "literal lifting); the objective handed to minimize_scalar is proved to be (exp(phi(L)) [Cheng-Yang corrected] - p)^2 on "
             "(minimum width, 50); dispersion constants equal the Kirkwood-Mueller formulas; cumulative volume, finite-difference "
             "distribution and pairwise-averaged widths of the tail. Bounded (not counted as proved): published-equation round trip for "
             "slit widths through the real minimiser, monotonic widths and tail identities for the 4 models x 3 geometries.",
        design_ref='§3 C17',
        note="Cylinder/sphere/Rege-Yang potentials use int() and 2000-term series on the width and are outside the symbolic engine; "
             "minimiser convergence is assumed at contract level and only sampled in the bounded part.",
        technique="sympy polynomial identity on the captured closure + symbolic execution of the solver wrappers; bounded runs of the real code"),
    'C15': dict(
        category='proof',
        text="Call-protocol obligation per characterisation entry point (area_BET, area_langmuir, t_plot, alpha_s, dr_plot, da_plot, "
             "psd_mesoporous, psd_microporous, psd_dft; isosteric_enthalpy and Whittaker in C19): every accessor call that feeds the result "
             "names a complete target representation and no stored pressure/loading label is read; with the accessor contract proved in "
             "C03 this yields invariance for all stored representations at once. The scaling clause is proved relationally on the real "
             "area_BET_raw / area_langmuir_raw / t_plot_raw (extensive results x k, intensive unchanged) with the linregress scaling "
             "lemma. A bounded stand-in recomputes every entry point after converting real isotherms (and a reference isotherm, and a "
             "JSON round trip) and compares numerically; Henry constants must change by the exact unit factor.",
        design_ref='§3 C15',
        note="Protocol observed on a recorded run over sample isotherms (entry points have no data-dependent accessor calls); depends on "
             "C03 contracts; numerical invariance is bounded (1 isotherm x 7 conversions quick). Known finding: alpha_s reference look-up.",
        technique="call-protocol contracts (recording subclass) + relational symbolic execution for scaling; bounded numeric invariance"),
    'C05': dict(
        category='proof',
        text="Under the stated idealisation (md5 and canonical JSON injective, hash_pandas_object(index=False) a function of values and "
             "dtypes) the identifier is determined by the document handed to json.dumps and by the digest argument; the real "
             "isotherm_to_hash is run with recording stand-ins on the three isotherm classes and it is checked, for every kind of "
             "content field (exhaustive over metadata keys/values, the 7 labels, material name/properties, adsorbate, temperature, model "
             "name/parameters/ranges/rmse, data values, branch marks), that a change reaches the document or digest argument; that no "
             "cache or reserved field does; that the digest argument is independent of row labels, int-vs-float columns, filled caches "
             "and differences below 1e-8; sort_keys at the call site; no hash()/set iteration on the path (static). A bounded stand-in "
             "compares real identifiers over construction routes, PYTHONHASHSEED values / processes and JSON parse round trips.",
        design_ref='§3 C05',
        note="Proof of the glue under the collision-freedom idealisation and the assumed hash_pandas_object contract; values are "
             "tokens (one representative per field kind); real-identifier clauses are bounded.",
        technique="contract on the hashed document via recording stubs of md5/json/hash_pandas_object; static determinism scan; bounded real ids"),
    'C20': dict(
        category='proof',
        text="Registry: exhaustive evaluation over the finite shipped data (176 adsorbates, every name and alias in five letter-case "
             "variants, adsorbates.json and default.db and the loaded registry): alias sets pairwise disjoint, sources equal, the real "
             "find/__eq__ resolve each string to exactly its adsorbate and an isotherm built from the string is linked to it. Getter "
             "contracts: the real Adsorbate getters are executed symbolically against a CoolProp contract stub that may fail at every "
             "call: scaled backend value, unit argument on the calculated and the dictionary path, user value on failure, "
             "CalculationError otherwise, never a silent number. CoolProp physics (rho = rhobar M, p_t <= p_sat <= p_c, monotone, "
             "dh_vap > 0, units) is a bounded stand-in over the backend-linked fluids.",
        design_ref='§3 C20',
        note="Exhaustive over shipped data (finite); getter obligations modulo the AbstractState contract; thermodynamic inequalities are "
             "properties of CoolProp and only sampled (5 temperatures quick / 25 thorough per fluid).",
        technique="exhaustive evaluation of the real functions over the shipped data; symbolic execution of the getters with a failing-backend stub"),
    'C08': dict(
        category='other',
        text="Contract level (discharged): the SQL builders emit exactly the statement grammar (exhaustive over column lists up to 3); per "
             "operation the recorded statement sequence obeys its contract (existence check first and refusal when absent without any "
             "write, DELETE in every dependent table then the main row, main row before dependent rows on upload, duplicates and "
             "overwrites of absent items refused); a retrieved adsorbate/material/isotherm equals the stored one (every data column and "
             "branch mark) and deletes it; a static reads clause lists which operations let in-memory registries decide database "
             "writes. History quantifier (bounded, never counted as proved): every operation sequence of length <= 2 plus seeded random "
             "sequences of length 3-4 (thorough: 3-6) over a universe of 2 adsorbates, 2 materials, 3 isotherms, 1-2 database files, "
             "compared step by step (outcome, every *_from_db result, orphan rows) with a dictionary model.",
        design_ref='§3 C08',
        note="SQL semantics come from the real sqlite3 library; equivalence over arbitrary histories is only sampled; known finding: "
             "auto-insertion is decided by the in-memory registries (two database files).",
        technique="statement-sequence contracts on recorded traces + static reads clause; bounded model-based history testing on real files"),
    'C06': dict(
        category='other',
        text="Contract level (discharged): to_dict(BaseIsotherm(**d)) == d for every key-set shape of token metadata incl. nested material "
             "dictionaries; model_from_dict(to_dict()) restores name, parameters, ranges and rmse for the 16 models and a static read-set "
             "obligation shows that every attribute read by loading/pressure/spreading_pressure is restored by the dictionary or by "
             "__init_parameters__, which ModelIsotherm.__init__ calls for model instances; isotherm_to_json passes sort_keys, writes the same "
             "document to string and file and marks exactly the rows with branch != 0; from_json rebuilds the branch column. Bounded "
             "(not counted as proved): real round trips through pandas/json for generated isotherms of the three classes (unit "
             "configurations, 1-40 points, four branch layouts, numeric/text extra columns, JSON-typed metadata, all 16 models), string "
             "and file targets, idempotent document.",
        design_ref='§3 C06',
        note="The pandas half (to_dict(orient=index), from_dict, fillna/replace, dtypes) is only exercised by the bounded round trips "
             "(96 quick / 400 thorough); known finding: an all-adsorption assignment on non-monotone data is re-guessed on import.",
        technique="symmetry contracts by exhaustive evaluation over key-set shapes + static read sets; bounded real round trips"),
    'C07': dict(
        category='other',
        text="Decided only up to the bound. Discharged by exhaustive evaluation of small finite domains: cast_string(_to_string(v)) == v "
             "for enumerated numbers, booleans, numeric lists and all plain-text strings over a 10-letter alphabet up to length 3 that "
             "are inside the formats' value domain; static correspondence of the CSV section markers, material-property prefix and "
             "model-section keys between writer and reader. Bounded stand-in: generated isotherms of the three classes exported to CSV, "
             "Excel and AIF (string and file targets) and re-imported, compared field by field (material and properties, adsorbate, "
             "temperature, labels, data to 8 decimals, branch marks and order, model name/parameters/ranges, metadata values, equality).",
        design_ref='§3 C07, §4',
        note="Contracts cannot see inside gemmi, xlwt/xlrd and pandas; 96 round trips per format quick, 400 thorough. Known findings are "
             "listed per format in known_findings.json.",
        technique="exhaustive evaluation of the string codec over a finite domain + static field correspondence; bounded real round trips"),
    'C12': dict(
        category='other',
        text="Contract level (discharged; least_squares as a contract stub): IsothermBaseModel.fit hands over bounds and initial guess in "
             "parameter order, passes the data through, assigns exactly the optimiser's x (inside the bounds), reports rmse with rmse^2 * n * "
             "range^2 == sum of squared residuals of the assigned parameters (proved for 7 models with symbolic data, bounds and ranges), "
             "and turns optimiser failure or ValueError into CalculationError; initial_guess_bounds clamps into the bounds; "
             "ModelIsotherm.guess attempts every candidate once and returns a converged one with the smallest rmse (1-4 candidates, every "
             "converge/fail pattern). Bounded (not counted as proved): generator recovery, error identity on noisy data, best-of-list, "
             "bounds respected, branch selection, from_modelisotherm, unit covariance with the real optimiser.",
        design_ref='§3 C12',
        note="Convergence/recovery are numerical facts about scipy's least_squares and are only sampled (10 models x 2-6 parameter vectors).",
        technique="symbolic execution of the real fit bookkeeping with an optimiser contract stub + z3; bounded runs with the real optimiser"),
    'C18': dict(
        category='other',
        text="Contract level (discharged; 3-pore x 4-pressure kernel of opaque non-negative interpolators, minimize and bspline as contract "
             "stubs): the objective is the sum of squared residuals of the kernel-weighted sum, bounds (0, None) and the x >= 0 constraint "
             "are passed, the search starts at zero, optimiser failure and interpolator ValueError raise CalculationError, the reported "
             "fitted isotherm is kernel_loading(result.x), the distribution is weight / width increment (non-negative), the cumulative "
             "curve is the running integral (non-decreasing); psd_dft requests the kernel's units, selects exactly the points inside "
             "the limits and passes only those to the fit. Bounded (not counted as proved): exact non-negative mixtures over the shipped "
             "77-width kernel reproduced to tolerance for spline orders 0-3, non-negativity/monotonicity after smoothing, refusal outside "
             "the kernel range, out-of-window points on a real isotherm.",
        design_ref='§3 C18',
        note="Optimiser convergence and B-spline smoothing are numerical and only sampled (2 sparse + 2 dense mixtures quick).",
        technique="symbolic execution of the real fit glue with optimiser/interpolator contract stubs + z3; bounded runs on the shipped kernel"),
}

NOT_YET = {
}

ALL = [f"C{i:02d}" for i in range(1, 21)]


def main():
    checks = []
    for pid in ALL:
        if pid not in CHECKS:
            continue
        c = CHECKS[pid]
        checks.append({
            'property_id': pid,
            'quick_cmd': f"./check {pid} --tier quick",
            'thorough_cmd': f"./check {pid} --tier thorough",
            'evidence_file': f"evidence/{pid}.json",
            'replay_cmd_template': "./check --replay {path}",
            'engine': 'pgv',
            'level_claimed': {'category': c['category'], 'text': c['text'], 'design_ref': c['design_ref']},
            'level_note': c['note'],
            'technique': c['technique'],
        })
    na = [{'property_id': pid, 'reason': NOT_YET.get(pid, 'check under construction in this session: contracts not yet '
                                                     'written, nothing is claimed for this property yet')}
          for pid in ALL if pid not in CHECKS]
    man = {
        'version': 1,
        'setup_cmd': './setup.sh',
        'hooks': {
            'guard': 'PYGAPS_VERIF',
            'enable': 'none needed: contracts are sidecar files under /verif/pgv, stubs are installed by patching module '
                      'globals inside the checker process; /repo carries no hook code (PYGAPS_VERIF is exported by ./check but '
                      'unused by /repo)',
            'baseline_off_cmd': 'cd /repo && /venv/bin/python -m pytest -ra -q -p no:cacheprovider --timeout=900 '
                                '--continue-on-collection-errors',
            'source_commits': [],
            'add_only': True,
        },
        'engines': [{
            'name': 'pgv', 'path': 'pgv/',
            'serves_properties': [c['property_id'] for c in checks],
            'kind_free_text': 'contract-based deductive verification: VC generation by symbolic execution of the real '
                              'pyGAPS code objects (operator-overloaded z3 / sympy values, re-execution path exploration), '
                              'sidecar contracts and contract stubs, z3 (cvc5 second opinion) / sympy discharge, native replay',
        }],
        'checks': checks,
        'notes': 'Exit codes of ./check: 0 held, 1 violation (VIOLATION line), 2 undecided (solver unknown/unsupported), '
                 '3 checker error. Known findings: known_findings.json. Ledger of obligations: baseline_obligations.json.',
        'not_applicable': na,
    }
    with open(os.path.join(ROOT, 'MANIFEST.json'), 'w') as f:
        json.dump(man, f, indent=1)
    try:
        import jsonschema
        schema = json.load(open('/root/.vp/MANIFEST.schema.json'))
        jsonschema.validate(man, schema)
        print("MANIFEST.json valid;", len(checks), "checks,", len(na), "not applicable")
    except ImportError:
        print("written (jsonschema not available for validation)")


if __name__ == '__main__':
    main()
