#!/bin/sh
# Build /verif/.venv offline: python 3.12 venv + z3/cvc5/sympy/jsonschema wheels + .pth to /venv site-packages
set -e
cd "$(dirname "$0")"
V=.venv
if [ ! -x "$V/bin/python" ] || ! "$V/bin/python" -c "import z3, sympy, jsonschema, numpy, pandas, scipy" 2>/dev/null; then
  rm -rf "$V"
  /venv/bin/python -m venv "$V"
  PIP_NO_INDEX=1 "$V/bin/python" -m pip install -q --no-index --find-links /opt/veriftools/wheels z3-solver cvc5 sympy mpmath jsonschema
  SP=$("$V/bin/python" -c "import sysconfig; print(sysconfig.get_paths()['purelib'])")
  echo "import site; site.addsitedir('/venv/lib/python3.12/site-packages')" > "$SP/_repo_venv.pth"
fi
"$V/bin/python" -c "import z3, sympy, jsonschema, numpy, pandas, scipy; print('pgv venv ok', z3.get_version_string(), sympy.__version__)"
